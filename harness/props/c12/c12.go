// Package c12: a compiled spec is shared immutable data; spec updates are
// atomic.  Runs under the Go race detector: many goroutines walk distinct
// machine states over one spec object and compare with precomputed solo
// results; walkers over an UpdatableSpec that a swapper keeps replacing must
// each observe exactly one version.
package c12

import (
	"context"
	"fmt"
	"runtime"
	"strings"
	"sync"
	"sync/atomic"
	"time"

	"github.com/Comcast/sheens/core"
	"github.com/Comcast/sheens/interpreters"
	"github.com/Comcast/sheens/match"

	"verif/fw"
	"verif/gen"
	"verif/ref"
)

func traceOf(w *core.Walked, err error) string {
	if err != nil {
		return "error: " + err.Error()
	}
	var ss []interface{}
	for _, s := range w.Strides {
		e := map[string]interface{}{"from": s.From.NodeName + "/" + fw.Canon(s.From.Bs), "consumed": fw.Canon(s.Consumed), "emitted": fw.Canon(s.Emitted)}
		if s.To != nil {
			e["to"] = s.To.NodeName + "/" + fw.Canon(s.To.Bs)
		}
		ss = append(ss, e)
	}
	return fw.Canon(map[string]interface{}{"strides": ss, "stopped": w.StoppedBecause.String(), "remaining": w.Remaining})
}

type job struct {
	st   ref.AState
	msgs []interface{}
	solo string
}

func coreState(s ref.AState) *core.State {
	return &core.State{NodeName: s.Node, Bs: match.Bindings(fw.Deep(s.Bs).(map[string]interface{}))}
}

// sharedSpec: N goroutines, distinct machines, one spec object.
func sharedSpec(cfg fw.Config, rec *fw.Rec, round int) {
	r := cfg.Rng("c12-shared", cfg.Batch*1000+round)
	u := &gen.Uid{Prefix: fmt.Sprintf("r%d_", round)}
	a := gen.GenSpec(r, gen.SpecOpts{MaxNodes: 5, Inspect: true, Prog: gen.ProgOpts{Fail: true, BadRet: true, Emit: true}}, u)
	// make sure the named features are present
	a.Nodes["start"] = &ref.ANode{Branching: &ref.ABranching{Type: "message", Branches: []*ref.ABranch{
		{HasPattern: true, Pattern: map[string]interface{}{"?prop": map[string]interface{}{"deep": "?d"}}, Target: "n1"},
		{HasPattern: true, Pattern: map[string]interface{}{"l": []interface{}{"?first", "zz"}}, Target: "n1"},
		{HasPattern: true, Pattern: map[string]interface{}{"l": []interface{}{"?e", map[string]interface{}{"deep": "?d"}, "p"}}, Target: "n2"},
		{HasPattern: true, Pattern: map[string]interface{}{"k": "?<lim"}, Target: "@t"},
		{HasPattern: true, Pattern: map[string]interface{}{"uid": "?u"}, Guard: &ref.Prog{Ops: []ref.Op{{Op: "inc", K: "n"}, {Op: "del", K: "cfg!"}}, Ret: "cond", CondKey: "a"}, Target: "n1"},
		{Target: "n2"},
	}}}
	native := round%2 == 0
	spec, err := a.Compiled(native, ref.NativeNilErr)
	if err != nil {
		rec.Bucket("shared_compile_error")
		return
	}
	names := a.NodeNames()
	G := []int{16, 32, 64}[round%3]
	jobs := make([]job, G)
	ctl := &core.Control{Limit: 20}
	for g := range jobs {
		bs := gen.GenBindings(r, names)
		bs["?<lim"] = float64(1 + r.Intn(3))
		if r.Intn(2) == 0 {
			bs["cfg!"] = map[string]interface{}{"keep": float64(g)}
		}
		bs["machine"] = float64(g)
		jobs[g].st = ref.AState{Node: "start", Bs: bs}
		for k := 0; k < 1+r.Intn(3); k++ {
			m := gen.GenMessage(r, u.Next("m"), names).(map[string]interface{})
			if r.Intn(4) == 0 {
				m = map[string]interface{}{"anykey": map[string]interface{}{"deep": float64(r.Intn(3))}}
			}
			jobs[g].msgs = append(jobs[g].msgs, m)
		}
		w, err := spec.Walk(context.Background(), coreState(jobs[g].st), fw.Deep(jobs[g].msgs).([]interface{}), ctl, nil)
		jobs[g].solo = traceOf(w, err)
	}
	if round%2 == 1 {
		// a control with breakpoints (that never hold), first used by all the walks at once
		never := func(context.Context, *core.State) bool { return false }
		ctl = &core.Control{Limit: 20, Breakpoints: map[string]core.Breakpoint{"never": never, "also-never": never, "b": never}}
		rec.Bucket("shared_control_with_breakpoints_first_used_concurrently")
	}
	snap := ref.SnapSpec(spec)
	var wg sync.WaitGroup
	start := make(chan struct{})
	var bad int32
	reps := 6
	for g := 0; g < G; g++ {
		wg.Add(1)
		go func(g int) {
			defer wg.Done()
			<-start
			for rep := 0; rep < reps; rep++ {
				var w *core.Walked
				var err error
				panicked := rec.Guard("C12:shared", a, func() {
					w, err = spec.Walk(context.Background(), coreState(jobs[g].st), fw.Deep(jobs[g].msgs).([]interface{}), ctl, nil)
				})
				if panicked {
					atomic.AddInt32(&bad, 1)
					return
				}
				if got := traceOf(w, err); got != jobs[g].solo {
					if atomic.AddInt32(&bad, 1) == 1 {
						rec.Violation("C12:concurrent-differs-from-solo", fmt.Sprintf("machine %d walked concurrently gives\n %s\nalone it gives\n %s", g, fw.Short(got), fw.Short(jobs[g].solo)),
							map[string]interface{}{"spec": a, "native": native, "state": jobs[g].st, "messages": jobs[g].msgs})
					}
					return
				}
			}
		}(g)
	}
	close(start)
	wg.Wait()
	rec.Eval(G * reps)
	if d := fw.Diff(snap, ref.SnapSpec(spec)); d != "" {
		rec.Violation("C12:spec-modified", "the shared spec changed during concurrent walks: "+d, a)
		return
	}
	if bad == 0 {
		rec.Bucket("shared_rounds_equal_to_solo")
		if native {
			rec.Bucket("shared_native")
		} else {
			rec.Bucket("shared_ecma")
		}
		rec.Nontrivial(fw.Canon(a))
		if round%10 == 1 {
			rec.Sample(map[string]interface{}{"shared_spec": a, "native": native, "goroutines": G, "walks_each": reps})
		}
	}
}

// versioned builds version k of the swapped spec: every action, guard and
// branch target stamps k.
func versioned(k int, native bool) (*core.Spec, error) {
	stamp := float64(k)
	n1, n2 := fmt.Sprintf("n1_v%d", k), fmt.Sprintf("n2_v%d", k)
	push := func() *ref.Prog { return &ref.Prog{Ops: []ref.Op{{Op: "push", K: "stamps", V: stamp}}, Ret: "same"} }
	a := &ref.ASpec{Name: fmt.Sprintf("v%d", k), Nodes: map[string]*ref.ANode{
		"start": {Action: push(), Branching: &ref.ABranching{Type: "bindings", Branches: []*ref.ABranch{
			{HasPattern: true, Pattern: map[string]interface{}{"never": "?x"}, Target: "nowhere"},
			{Guard: push(), Target: n1},
		}}},
		n1:     {Action: push(), Branching: &ref.ABranching{Type: "bindings", Branches: []*ref.ABranch{{Guard: push(), Target: n2}}}},
		n2:     {Action: push(), Branching: &ref.ABranching{Type: "bindings", Branches: []*ref.ABranch{{Target: "done"}}}},
		"done": {Branching: &ref.ABranching{Type: "message"}},
	}}
	return a.Compiled(native, ref.NativeNilErr)
}

func swapping(cfg fw.Config, rec *fw.Rec, round int) {
	native := round%2 == 1
	const V = 4
	specs := make([]*core.Spec, V+1)
	for k := 1; k <= V; k++ {
		s, err := versioned(k, native)
		if err != nil {
			rec.Inconclusive("versioned spec does not compile: " + err.Error())
			return
		}
		specs[k] = s
	}
	us := core.NewUpdatableSpec(specs[1])
	var swaps int64
	stop := make(chan struct{})
	var swg sync.WaitGroup
	swg.Add(1)
	go func() {
		defer swg.Done()
		r := cfg.Rng("c12-swap", cfg.Batch*1000+round)
		for {
			select {
			case <-stop:
				return
			default:
			}
			us.SetSpec(specs[1+r.Intn(V)])
			atomic.AddInt64(&swaps, 1)
			if r.Intn(4) == 0 {
				time.Sleep(time.Duration(r.Intn(200)) * time.Microsecond)
			} else {
				runtime.Gosched()
			}
		}
	}()
	G := 16
	walks := 40
	if native {
		walks = 400
	}
	var wg sync.WaitGroup
	var straddled, total int64
	var bad int32
	for g := 0; g < G; g++ {
		wg.Add(1)
		go func(g int) {
			defer wg.Done()
			for i := 0; i < walks; i++ {
				before := atomic.LoadInt64(&swaps)
				var w *core.Walked
				var err error
				if rec.Guard("C12:swap", "walk over an UpdatableSpec during swaps", func() {
					// one processing call: obtain the spec once, as the hosts do
					w, err = us.Spec().Walk(context.Background(), &core.State{NodeName: "start", Bs: match.Bindings{"stamps": []interface{}{}}}, nil, &core.Control{Limit: 10}, nil)
				}) {
					atomic.AddInt32(&bad, 1)
					return
				}
				after := atomic.LoadInt64(&swaps)
				atomic.AddInt64(&total, 1)
				if after != before {
					atomic.AddInt64(&straddled, 1)
				}
				if err != nil || w == nil {
					rec.Violation("C12:walk-error-during-swap", fmt.Sprint(err), "swap")
					atomic.AddInt32(&bad, 1)
					return
				}
				to := w.To()
				seen := map[string]bool{}
				if to != nil {
					if st, ok := to.Bs["stamps"].([]interface{}); ok {
						for _, s := range st {
							seen[fw.Canon(s)] = true
						}
					}
				}
				for _, s := range w.Strides {
					if s.To != nil {
						var v int
						if n, _ := fmt.Sscanf(s.To.NodeName, "n1_v%d", &v); n == 1 {
							seen[fmt.Sprint(v)] = true
						}
						if n, _ := fmt.Sscanf(s.To.NodeName, "n2_v%d", &v); n == 1 {
							seen[fmt.Sprint(v)] = true
						}
					}
				}
				okVersion := len(seen) == 1
				for s := range seen {
					if s != "1" && s != "2" && s != "3" && s != "4" {
						okVersion = false
					}
				}
				if to == nil || to.NodeName != "done" || !okVersion || len(to.Bs["stamps"].([]interface{})) != 5 {
					if atomic.AddInt32(&bad, 1) == 1 {
						rec.Violation("C12:mixed-versions", fmt.Sprintf("a walk during spec swaps observed versions %v and ended at %v", seen, to), map[string]interface{}{"trace": traceOf(w, nil)})
					}
					return
				}
			}
		}(g)
	}
	wg.Wait()
	close(stop)
	swg.Wait()
	rec.Eval(int(total))
	rec.BucketN("swap_walks", total)
	rec.BucketN("swap_walks_straddling_a_swap", straddled)
	rec.BucketN("swaps", atomic.LoadInt64(&swaps))
	if bad == 0 {
		rec.Bucket("swap_rounds_coherent")
		rec.Nontrivial(fmt.Sprintf("swap-%d-%d-%v", cfg.Batch, round, native))
	}
}

// derived: each new version is derived from the one in use with Spec.Copy,
// edited (every action and guard re-stamped), compiled and then installed,
// while walkers keep walking whatever version they obtained.
func derived(cfg fw.Config, rec *fw.Rec, round int) {
	stampSrc := func(k int) string {
		// each version stamps through a helper it installs on a built-in object when it
		// does not find one: an execution that inherits anything from an execution of
		// another version stamps that version
		// (the same with the step properties, which are absent here: whatever an execution
		// finds in _.props was put there by another one)
		return fmt.Sprintf("var bs = _.bindings; if (Math.vtag === undefined) { Math.vtag = %d; } if (_.props.ptag === undefined) { _.props.ptag = %d; } bs.stamps = (bs.stamps || []).concat([Math.vtag === _.props.ptag ? Math.vtag : -_.props.ptag]); return bs;", k, k)
	}
	build := func(k int) (*core.Spec, error) {
		src := func() *core.ActionSource { return &core.ActionSource{Interpreter: "ecmascript", Source: stampSrc(k)} }
		s := &core.Spec{Name: "derived", Version: fmt.Sprint(k), Nodes: map[string]*core.Node{
			"start": {ActionSource: src(), Branches: &core.Branches{Type: "bindings", Branches: []*core.Branch{{GuardSource: src(), Target: "n1"}}}},
			"n1":    {ActionSource: src(), Branches: &core.Branches{Type: "bindings", Branches: []*core.Branch{{GuardSource: src(), Target: "n2"}}}},
			// (this guard is the same in every version and is left alone when a version is
			// derived: the copy shares it with the version it was copied from)
			"n2":   {ActionSource: src(), Branches: &core.Branches{Type: "bindings", Branches: []*core.Branch{{GuardSource: &core.ActionSource{Interpreter: "ecmascript", Source: "/*keep*/ return _.bindings;"}, Target: "done"}}}},
			"done": {Branches: &core.Branches{Type: "message"}},
		}}
		return s, s.Compile(context.Background(), nil, true)
	}
	first, err := build(1)
	if err != nil {
		rec.Inconclusive("derived spec: " + err.Error())
		return
	}
	us := core.NewUpdatableSpec(first)
	stop := make(chan struct{})
	var swg sync.WaitGroup
	var versions int64 = 1
	swg.Add(1)
	go func() {
		defer swg.Done()
		for k := 2; ; k++ {
			select {
			case <-stop:
				return
			default:
			}
			next := us.Spec().Copy(fmt.Sprint(k)) // documented as a deep copy
			for _, n := range next.Nodes {
				if n.ActionSource != nil {
					n.ActionSource.Source = stampSrc(k)
				}
				if n.Branches != nil {
					for _, b := range n.Branches.Branches {
						if b.GuardSource != nil && !strings.HasPrefix(fmt.Sprint(b.GuardSource.Source), "/*keep*/") {
							b.GuardSource = &core.ActionSource{Interpreter: "ecmascript", Source: stampSrc(k)}
						}
					}
				}
			}
			if err := next.Compile(context.Background(), nil, true); err != nil {
				rec.Violation("C12:derived-version-does-not-compile", err.Error(), "derived versions")
				return
			}
			us.SetSpec(next)
			atomic.AddInt64(&versions, 1)
			time.Sleep(200 * time.Microsecond)
		}
	}()
	var wg sync.WaitGroup
	var bad int32
	var total int64
	for g := 0; g < 8; g++ {
		wg.Add(1)
		go func() {
			defer wg.Done()
			for i := 0; i < 60; i++ {
				var w *core.Walked
				var err error
				var walkedVersion string
				if rec.Guard("C12:derived", "walk during derivation of new versions", func() {
					sp := us.Spec()
					walkedVersion = sp.Version
					w, err = sp.Walk(context.Background(), &core.State{NodeName: "start", Bs: match.Bindings{}}, nil, &core.Control{Limit: 10}, nil)
				}) {
					atomic.AddInt32(&bad, 1)
					return
				}
				atomic.AddInt64(&total, 1)
				to := w.To()
				seen := map[string]bool{}
				n := 0
				if err == nil && to != nil {
					if st, ok := to.Bs["stamps"].([]interface{}); ok {
						n = len(st)
						for _, s := range st {
							seen[fw.Canon(s)] = true
						}
					}
				}
				if err != nil || to == nil || to.NodeName != "done" || len(seen) != 1 || n != 5 || !seen[walkedVersion] {
					if atomic.AddInt32(&bad, 1) == 1 {
						rec.Violation("C12:mixed-versions:derived", fmt.Sprintf("a walk over a version in use, while the next version was being derived from it with Spec.Copy and compiled, (version %s) carries stamps %v and ends at %v", walkedVersion, seen, to), map[string]interface{}{"trace": traceOf(w, err)})
					}
					return
				}
			}
		}()
	}
	wg.Wait()
	close(stop)
	swg.Wait()
	rec.Eval(int(total))
	rec.BucketN("derived_versions_installed", atomic.LoadInt64(&versions))
	if bad == 0 {
		rec.Bucket("derived_rounds_coherent")
		rec.Nontrivial(fmt.Sprintf("derived-%d-%d", cfg.Batch, round))
	}
}

// extShared: one spec compiled with the standard interpreter map whose actions and guards
// use the extended interpreter's helpers (_.match, _.cronNext, _.randstr), walked by many
// goroutines on distinct states.  The race detector watches the helpers' shared state; the
// deterministic part of every result must equal the solo result.
func extShared(cfg fw.Config, rec *fw.Rec, round int) {
	ext := func(src string) *core.ActionSource {
		return &core.ActionSource{Interpreter: "ecmascript-ext", Source: src}
	}
	spec := &core.Spec{Name: "extshared", Nodes: map[string]*core.Node{
		"start": {ActionSource: ext(`var bs = _.bindings; var r = _.match({"k": "?v", "l": ["?e"]}, {"k": bs.n, "l": [1, 2]}, {}); bs.matches = r.length; bs.first = r.length > 0 ? r[0]["?v"] : null; return bs;`),
			Branches: &core.Branches{Type: "bindings", Branches: []*core.Branch{{GuardSource: ext(`var bs = _.bindings; var t = _.cronNext("0 */5 * * * * *"); bs.cronOk = (typeof t === 'string' && t.length >= 20); var t2 = _.cronNext("0 0 12 * * * *"); bs.cronOk = bs.cronOk && t2.length >= 20; return bs;`), Target: "n1"}}}},
		"n1": {ActionSource: ext(`var bs = _.bindings; bs.rand = _.randstr().length; var r = _.match({"?p": "?q"}, {"a": bs.n}, bs); bs.pm = r.length; return bs;`),
			Branches: &core.Branches{Type: "bindings", Branches: []*core.Branch{{Target: "done"}}}},
		"done": {},
	}}
	if err := spec.Compile(context.Background(), interpreters.Standard(), true); err != nil {
		rec.Inconclusive("extended-interpreter spec: " + err.Error())
		return
	}
	walk := func(g int) string {
		w, err := spec.Walk(context.Background(), &core.State{NodeName: "start", Bs: match.Bindings{"n": float64(g)}}, nil, &core.Control{Limit: 10}, nil)
		if err != nil || w == nil || w.To() == nil {
			return fmt.Sprint("error: ", err)
		}
		return w.To().NodeName + "/" + fw.Canon(w.To().Bs)
	}
	G := 16
	solo := make([]string, G)
	for g := range solo {
		solo[g] = walk(g)
	}
	var wg sync.WaitGroup
	var bad int32
	for g := 0; g < G; g++ {
		wg.Add(1)
		go func(g int) {
			defer wg.Done()
			for k := 0; k < 25; k++ {
				var got string
				if rec.Guard("C12:ext", "walks using the extended interpreter's helpers", func() { got = walk(g) }) {
					atomic.AddInt32(&bad, 1)
					return
				}
				if got != solo[g] {
					if atomic.AddInt32(&bad, 1) == 1 {
						rec.Violation("C12:concurrent-differs-from-solo:ext", fmt.Sprintf("machine %d, walked concurrently over a spec that uses _.match / _.cronNext / _.randstr, gives %s; alone it gives %s", g, fw.Short(got), fw.Short(solo[g])), "extended interpreter")
					}
					return
				}
			}
		}(g)
	}
	wg.Wait()
	rec.Eval(G * 25)
	if bad == 0 {
		rec.Bucket("shared_ext_rounds_equal_to_solo")
		rec.Nontrivial(fmt.Sprintf("ext-%d-%d", cfg.Batch, round))
	}
}

func Run(cfg fw.Config, rec *fw.Rec) {
	procs := []int{2, 4, 16}[cfg.Batch%3]
	runtime.GOMAXPROCS(procs)
	rec.Bucket(fmt.Sprintf("gomaxprocs_%d", procs))
	rec.Rule = "shared part: one compiled spec object (random 5-node spec plus property-variable, inequality, @var-target, guarded and permanent-binding branches; native and ECMAScript) walked by 16/32/64 goroutines x 6 walks on distinct machine states, each result compared with the solo result computed beforehand, structural snapshot of the spec compared afterwards; swap part: 16 walkers over an UpdatableSpec while a swapper installs one of 4 versions whose every action, guard and branch target stamps its version; each walk must carry stamps of exactly one version; derived part: the swapper derives each next version from the installed one with Spec.Copy, re-stamps and compiles it while 8 walkers walk the version they obtained (each version stamps through a helper it installs on a built-in object if none is there, so anything an execution inherits from another version's execution shows as a foreign stamp); ext part: 16 goroutines x 25 walks over a spec whose actions and guards use the extended interpreter's _.match, _.cronNext (two fixed expressions) and _.randstr, compiled with the standard interpreter map; child built with -race, GOMAXPROCS 2/4/16 by batch; non-trivial = round in which every concurrent result agreed; distinct by spec / round"
	rec.Required = []string{"shared_control_with_breakpoints_first_used_concurrently", "shared_rounds_equal_to_solo", "shared_native", "shared_ecma", "swap_rounds_coherent", "swap_walks_straddling_a_swap", "derived_rounds_coherent", "shared_ext_rounds_equal_to_solo"}
	rec.Assume = []string{"the race detector reports only races that occur in the interleavings produced; absence over N runs is evidence, not proof", "a processing call obtains the spec once via Specter.Spec(), as sio and mcrew do"}
	rounds := cfg.Pick(24, 60)
	for round := 0; round < rounds; round++ {
		sharedSpec(cfg, rec, round)
	}
	for round := 0; round < cfg.Pick(4, 10); round++ {
		swapping(cfg, rec, round)
	}
	for round := 0; round < cfg.Pick(2, 6); round++ {
		derived(cfg, rec, round)
	}
	for round := 0; round < cfg.Pick(3, 10); round++ {
		extShared(cfg, rec, round)
	}
}
