// Package fw is the shared runtime-monitoring framework: configuration,
// thread-safe result recording, evidence writing and known-findings matching.
package fw

import (
	"crypto/sha1"
	"encoding/hex"
	"encoding/json"
	"fmt"
	"math/rand"
	"os"
	"runtime/debug"
	"sort"
	"strconv"
	"strings"
	"sync"
	"sync/atomic"
)

// Config is what a property workload is given.
type Config struct {
	Prop    string `json:"prop"`
	Tier    string `json:"tier"` // quick | thorough
	Seed    int64  `json:"seed"`
	Part    string `json:"part"`
	Batch   int    `json:"batch"`
	Batches int    `json:"batches"`
	Workers int    `json:"workers"`
	WorkDir string `json:"workdir"` // scratch directory (under /verif/.work), removed by the parent
	Replay  string `json:"replay"`  // optional replay file
}

func (c Config) Thorough() bool { return c.Tier == "thorough" }

// Pick returns q in quick tier and t in thorough tier.
func (c Config) Pick(q, t int) int {
	if c.Thorough() {
		return t
	}
	return q
}

// Rng returns a generator that is a pure function of (seed, stream, idx).
func (c Config) Rng(stream string, idx int) *rand.Rand {
	h := sha1.Sum([]byte(fmt.Sprintf("%d/%s/%d", c.Seed, stream, idx)))
	var s int64
	for i := 0; i < 8; i++ {
		s = s<<8 | int64(h[i])
	}
	return rand.New(rand.NewSource(s))
}

// Violation is one refutation of the property on the real code.
type Violation struct {
	Sig    string      `json:"sig"`  // signature identifying the defect (for known-findings matching)
	Desc   string      `json:"desc"` // what failed
	Replay interface{} `json:"replay,omitempty"`
}

// Result is what one batch (child process) reports.
type Result struct {
	Prop         string                 `json:"prop"`
	Evaluations  int64                  `json:"evaluations"`
	Distinct     []string               `json:"distinct,omitempty"` // hashes of distinct non-trivial cases (merged by parent)
	DistinctN    int64                  `json:"distinct_n"`
	Rule         string                 `json:"rule"`
	Samples      []interface{}          `json:"samples"`
	Buckets      map[string]int64       `json:"buckets"`
	Extra        map[string]interface{} `json:"extra,omitempty"`
	Violations   []Violation            `json:"violations"`
	Inconclusive []string               `json:"inconclusive,omitempty"`
	Exhaustive   bool                   `json:"exhaustive,omitempty"`
	Assumptions  []string               `json:"assumptions,omitempty"`
	// RequiredBuckets must be non-zero at the end, else the run is inconclusive.
	RequiredBuckets []string `json:"required_buckets,omitempty"`
}

// Rec is the thread-safe recorder the monitors write to.
type Rec struct {
	mu         sync.Mutex
	evals      int64
	distinct   map[[8]byte]struct{}
	samples    []interface{}
	fallback   []interface{}
	maxSamples int
	buckets    map[string]*int64
	extra      map[string]interface{}
	viol       []Violation
	violBySig  map[string]int
	incon      []string
	Rule       string
	Exhaustive bool
	Assume     []string
	Required   []string
	caseLog    *os.File
	caseMu     sync.Mutex
}

func NewRec() *Rec {
	return &Rec{
		distinct:   map[[8]byte]struct{}{},
		buckets:    map[string]*int64{},
		extra:      map[string]interface{}{},
		violBySig:  map[string]int{},
		maxSamples: 6,
	}
}

// SetCaseLog makes LogCase write to the given file (unbuffered), so a fatal
// crash can be attributed to the case that was running.
func (r *Rec) SetCaseLog(f *os.File) { r.caseLog = f }

// LogCase records the case about to be judged (before the call).
func (r *Rec) LogCase(worker int, x interface{}) {
	if r.caseLog == nil {
		return
	}
	js, _ := json.Marshal(x)
	r.caseMu.Lock()
	fmt.Fprintf(r.caseLog, "CASE w=%d %s\n", worker, js)
	r.caseMu.Unlock()
}

// Eval counts n judged executions.
func (r *Rec) Eval(n int) { atomic.AddInt64(&r.evals, int64(n)) }

// Evals returns the number of judged executions so far.
func (r *Rec) Evals() int64 { return atomic.LoadInt64(&r.evals) }

// Nontrivial records one non-trivial case by its canonical text.
func (r *Rec) Nontrivial(canon string) {
	h := sha1.Sum([]byte(canon))
	var k [8]byte
	copy(k[:], h[:8])
	r.mu.Lock()
	r.distinct[k] = struct{}{}
	if len(r.fallback) < 3 {
		// kept as samples if the monitor records none explicitly
		c := canon
		if len(c) > 3000 {
			c = c[:3000] + "..."
		}
		r.fallback = append(r.fallback, map[string]interface{}{"nontrivial_case_canonical_form": c})
	}
	r.mu.Unlock()
}

// Sample keeps a few of the actual cases.
func (r *Rec) Sample(x interface{}) {
	r.mu.Lock()
	if len(r.samples) < r.maxSamples {
		r.samples = append(r.samples, x)
	}
	r.mu.Unlock()
}

// WantSample reports whether more samples are wanted (cheap pre-check).
func (r *Rec) WantSample() bool {
	r.mu.Lock()
	defer r.mu.Unlock()
	return len(r.samples) < r.maxSamples
}

// Bucket counts a feature observation.
func (r *Rec) Bucket(name string) { r.BucketN(name, 1) }

func (r *Rec) BucketN(name string, n int64) {
	r.mu.Lock()
	p, ok := r.buckets[name]
	if !ok {
		p = new(int64)
		r.buckets[name] = p
	}
	r.mu.Unlock()
	atomic.AddInt64(p, n)
}

// SetExtra stores an extra evidence value.
func (r *Rec) SetExtra(k string, v interface{}) {
	r.mu.Lock()
	r.extra[k] = v
	r.mu.Unlock()
}

// Violation records a refutation.  At most 3 witnesses are kept per signature.
func (r *Rec) Violation(sig, desc string, replay interface{}) {
	r.mu.Lock()
	defer r.mu.Unlock()
	r.violBySig[sig]++
	if r.violBySig[sig] > 3 {
		return
	}
	r.viol = append(r.viol, Violation{Sig: sig, Desc: desc, Replay: replay})
}

func (r *Rec) Inconclusive(reason string) {
	r.mu.Lock()
	r.incon = append(r.incon, reason)
	r.mu.Unlock()
}

// Guard runs f and converts a panic into a violation with the given signature prefix.
// It returns true if f panicked.
func (r *Rec) Guard(sigPrefix string, replay interface{}, f func()) (panicked bool) {
	defer func() {
		if x := recover(); x != nil {
			panicked = true
			st := string(debug.Stack())
			r.Violation(sigPrefix+":panic:"+PanicSite(st), fmt.Sprintf("panic: %v\n%s", x, TrimStack(st)), replay)
		}
	}()
	f()
	return false
}

// PanicSite extracts the first sheens frame (function name) below the panic from a stack dump.
func PanicSite(stack string) string {
	lines := strings.Split(stack, "\n")
	seenPanic := false
	for _, l := range lines {
		if strings.HasPrefix(l, "panic(") {
			seenPanic = true
			continue
		}
		if !seenPanic {
			continue
		}
		if strings.HasPrefix(l, "github.com/Comcast/sheens/") || strings.HasPrefix(l, "main.") {
			l = strings.TrimPrefix(l, "github.com/Comcast/sheens/")
			if i := strings.LastIndex(l, "("); i > 0 {
				l = l[:i]
			}
			return l
		}
	}
	return "unknown"
}

func TrimStack(st string) string {
	lines := strings.Split(st, "\n")
	if len(lines) > 40 {
		lines = lines[:40]
	}
	return strings.Join(lines, "\n")
}

// Result snapshots the recorder.
func (r *Rec) Result(prop string) *Result {
	r.mu.Lock()
	defer r.mu.Unlock()
	samples := r.samples
	if len(samples) == 0 {
		samples = r.fallback
	}
	res := &Result{
		Prop:            prop,
		Evaluations:     atomic.LoadInt64(&r.evals),
		Rule:            r.Rule,
		Samples:         samples,
		Buckets:         map[string]int64{},
		Extra:           r.extra,
		Violations:      r.viol,
		Inconclusive:    r.incon,
		Exhaustive:      r.Exhaustive,
		Assumptions:     r.Assume,
		RequiredBuckets: r.Required,
	}
	for k, p := range r.buckets {
		res.Buckets[k] = atomic.LoadInt64(p)
	}
	for k := range r.distinct {
		res.Distinct = append(res.Distinct, hex.EncodeToString(k[:]))
	}
	sort.Strings(res.Distinct)
	res.DistinctN = int64(len(res.Distinct))
	return res
}

// Merge folds b into a (parent side).
func Merge(a, b *Result) {
	a.Evaluations += b.Evaluations
	if a.Rule == "" {
		a.Rule = b.Rule
	}
	for _, s := range b.Samples {
		if len(a.Samples) < 8 {
			a.Samples = append(a.Samples, s)
		}
	}
	if a.Buckets == nil {
		a.Buckets = map[string]int64{}
	}
	for k, v := range b.Buckets {
		a.Buckets[k] += v
	}
	if a.Extra == nil {
		a.Extra = map[string]interface{}{}
	}
	for k, v := range b.Extra {
		if old, ok := a.Extra[k]; ok {
			// numeric extras are summed; others: keep first
			of, ok1 := toF(old)
			nf, ok2 := toF(v)
			if ok1 && ok2 {
				a.Extra[k] = of + nf
				continue
			}
			continue
		}
		a.Extra[k] = v
	}
	a.Violations = append(a.Violations, b.Violations...)
	a.Inconclusive = append(a.Inconclusive, b.Inconclusive...)
	a.Distinct = append(a.Distinct, b.Distinct...)
	a.Exhaustive = a.Exhaustive || b.Exhaustive
	for _, s := range b.Assumptions {
		if !contains(a.Assumptions, s) {
			a.Assumptions = append(a.Assumptions, s)
		}
	}
	for _, s := range b.RequiredBuckets {
		if !contains(a.RequiredBuckets, s) {
			a.RequiredBuckets = append(a.RequiredBuckets, s)
		}
	}
}

func contains(xs []string, s string) bool {
	for _, x := range xs {
		if x == s {
			return true
		}
	}
	return false
}

func toF(x interface{}) (float64, bool) {
	switch v := x.(type) {
	case float64:
		return v, true
	case int:
		return float64(v), true
	case int64:
		return float64(v), true
	}
	return 0, false
}

// FinalizeDistinct dedupes merged hashes.
func (r *Result) FinalizeDistinct() {
	m := map[string]struct{}{}
	for _, h := range r.Distinct {
		m[h] = struct{}{}
	}
	r.DistinctN = int64(len(m))
	r.Distinct = nil
}

// EnvInt reads an integer environment variable.
func EnvInt(name string, def int64) int64 {
	if s := os.Getenv(name); s != "" {
		if n, err := strconv.ParseInt(s, 10, 64); err == nil {
			return n
		}
	}
	return def
}

// Parallel runs f(worker, idx) for idx in [0,n) on `workers` goroutines.
func Parallel(workers, n int, f func(worker, idx int)) {
	if workers < 1 {
		workers = 1
	}
	var next int64 = -1
	var wg sync.WaitGroup
	for w := 0; w < workers; w++ {
		wg.Add(1)
		go func(w int) {
			defer wg.Done()
			for {
				i := int(atomic.AddInt64(&next, 1))
				if i >= n {
					return
				}
				f(w, i)
			}
		}(w)
	}
	wg.Wait()
}
