package c15

// The timers machine is a machine of the crew like any other: "replace its state" is a
// crew operation, and what is reported for it must be what the crew then holds.  The crew
// merges the timers it is given with the timers that are pending; the report has to say so,
// or a store that applies the reports (and a crew started from that store) loses timers.

import (
	"context"
	"fmt"
	"sort"
	"time"

	"github.com/Comcast/sheens/core"
	"github.com/Comcast/sheens/match"
	"github.com/Comcast/sheens/sio"

	"verif/fw"
	"verif/siox"
)

func timerIds(x interface{}) string {
	m, _ := fw.Plain(x).(map[string]interface{})
	var ids []string
	for id := range m {
		ids = append(ids, id)
	}
	sort.Strings(ids)
	return fmt.Sprint(ids)
}

func timersStateReplaced(rec *fw.Rec) {
	far := "2099-01-01T00:00:00Z"
	entry := func(id string) map[string]interface{} {
		return map[string]interface{}{"Id": id, "Msg": map[string]interface{}{"to": "nobody", "timer": id}, "At": far}
	}
	type variant struct {
		Name  string
		Given map[string]interface{} // the "timers" binding of the replacing state
		Via   string
	}
	variants := []variant{
		{"another-timer", map[string]interface{}{"t1": entry("t1")}, "captain"},
		{"another-timer", map[string]interface{}{"t1": entry("t1")}, "direct"},
		{"no-timers", map[string]interface{}{}, "captain"},
		{"same-and-another", map[string]interface{}{"t0": entry("t0"), "t2": entry("t2")}, "captain"},
		{"same-and-another", map[string]interface{}{"t0": entry("t0"), "t2": entry("t2")}, "direct"},
	}
	variants = append(variants,
		variant{"deleted-and-created-again", nil, "captain"},
		variant{"deleted-and-created-again", nil, "direct"},
		variant{"a-timer-fires-after-a-refused-request", nil, "captain"})
	for _, v := range variants {
		func() {
			ctx, cancel := context.WithCancel(context.Background())
			defer cancel()
			replay := map[string]interface{}{"scenario": "a timer t0 is pending; the state of the timers machine is replaced", "given_timers": v.Given, "via": v.Via}
			if v.Given == nil {
				replay["scenario"] = v.Name
			}
			c, chans, err := siox.NewCrew(ctx, 50, 8, 8)
			if err != nil {
				rec.Inconclusive("crew: " + err.Error())
				return
			}
			shadow := map[string]*shadowEntry{}
			step := func(msg interface{}) bool {
				var res *sio.Result
				var perr error
				if rec.Guard("C15:timers-state", replay, func() { res, perr = c.ProcessMsg(ctx, msg) }) {
					return false
				}
				if perr != nil || res == nil {
					rec.Inconclusive(fmt.Sprintf("timers-state scenario: ProcessMsg: %v", perr))
					return false
				}
				fold(shadow, res)
				return true
			}
			if !step(map[string]interface{}{"to": "timers", "makeTimer": map[string]interface{}{"id": "t0", "in": "1h", "msg": map[string]interface{}{"to": "nobody", "timer": "t0"}}}) {
				return
			}
			if tm := c.Machines[sio.TimersMachine]; tm == nil || tm.State == nil || timerIds(tm.State.Bs["timers"]) != "[t0]" {
				rec.Inconclusive("timers-state scenario: the timer t0 was not created")
				return
			}
			state := map[string]interface{}{"node": "start", "bs": map[string]interface{}{"timers": fw.Plain(v.Given)}}
			if v.Name == "a-timer-fires-after-a-refused-request" {
				// a short timer, a request the timers machine refuses (it keeps the reason), the
				// timer's firing (taken from the crew's input, where it waits to be processed): the
				// whole state of the timers machine is compared
				if !step(map[string]interface{}{"to": "timers", "makeTimer": map[string]interface{}{"id": "quick", "in": "150ms", "msg": map[string]interface{}{"to": "nobody", "timer": "quick"}}}) {
					return
				}
				if !step(map[string]interface{}{"to": "timers", "makeTimer": map[string]interface{}{"id": "bad", "in": "soon", "msg": map[string]interface{}{"to": "nobody"}}}) {
					return
				}
				select {
				case f := <-chans.In:
					if !step(f) {
						return
					}
				case <-time.After(30 * time.Second):
					rec.Inconclusive("timers-state scenario: the short timer did not fire within 30 s")
					return
				}
				rec.Eval(1)
				live := c.Machines[sio.TimersMachine]
				e := shadow[sio.TimersMachine]
				if live == nil || live.State == nil || e == nil {
					rec.Inconclusive("timers-state scenario: no timers machine (or no report for it)")
					return
				}
				plainState := func(st *core.State) string {
					if st == nil {
						return "none"
					}
					bs, _ := fw.Plain(map[string]interface{}(st.Bs)).(map[string]interface{})
					if tm, ok := bs["timers"].(map[string]interface{}); ok {
						ids := map[string]interface{}{}
						for id := range tm {
							ids[id] = true
						}
						bs["timers"] = ids
					}
					node := st.NodeName
					if node == "" {
						node = "start"
					}
					return node + "/" + fw.Canon(bs)
				}
				if got, want := plainState(e.State), plainState(live.State); got != want {
					rec.Violation("C15:timers-machine-state-after-a-firing-differs-from-store", fmt.Sprintf("after a timer fired, the crew's timers machine is at %s; a store built from the reported changes has it at %s", want, got), replay)
					return
				}
				rec.Bucket("timers_machine_compared_after_a_firing")
				return
			}
			if v.Name == "deleted-and-created-again" {
				if !step(map[string]interface{}{"to": "captain", "delete": []interface{}{sio.TimersMachine}}) {
					return
				}
				if v.Via == "captain" {
					if !step(map[string]interface{}{"to": "captain", "update": map[string]interface{}{sio.TimersMachine: map[string]interface{}{}}}) {
						return
					}
				} else {
					var serr error
					if rec.Guard("C15:timers-state", replay, func() { serr = c.SetMachine(ctx, sio.TimersMachine, nil, nil) }) {
						return
					}
					if serr != nil {
						rec.Inconclusive("timers-state scenario: SetMachine: " + serr.Error())
						return
					}
					if !step(map[string]interface{}{"to": "nobody", "uid": "flush"}) {
						return
					}
				}
			} else if v.Via == "captain" {
				if !step(map[string]interface{}{"to": "captain", "update": map[string]interface{}{sio.TimersMachine: map[string]interface{}{"state": state}}}) {
					return
				}
			} else {
				st := &core.State{NodeName: "start", Bs: match.Bindings{"timers": fw.Plain(v.Given)}}
				var serr error
				if rec.Guard("C15:timers-state", replay, func() { serr = c.SetMachine(ctx, sio.TimersMachine, nil, st) }) {
					return
				}
				if serr != nil {
					rec.Inconclusive("timers-state scenario: SetMachine: " + serr.Error())
					return
				}
				// direct changes are reported with the next message
				if !step(map[string]interface{}{"to": "nobody", "uid": "flush"}) {
					return
				}
			}
			rec.Eval(1)
			live := c.Machines[sio.TimersMachine]
			e := shadow[sio.TimersMachine]
			if live == nil || live.State == nil {
				rec.Inconclusive("timers-state scenario: no timers machine")
				return
			}
			liveIds := timerIds(live.State.Bs["timers"])
			storeIds := "[]"
			if e != nil && e.State != nil {
				storeIds = timerIds(e.State.Bs["timers"])
			}
			if liveIds != storeIds {
				rec.Violation("C15:timers-machine-state-differs-from-store", fmt.Sprintf("after the state of the timers machine was replaced (%s, given timers %s) while t0 was pending, the crew's timers machine holds the timers %s; a store built from the reported changes holds %s", v.Via, timerIds(v.Given), liveIds, storeIds), replay)
				return
			}
			// a crew started from that store has the same timers pending
			ctx2, cancel2 := context.WithCancel(context.Background())
			defer cancel2()
			c2, _, err := siox.NewCrew(ctx2, 50, 8, 8)
			if err != nil {
				rec.Inconclusive("crew: " + err.Error())
				return
			}
			var st2 *core.State
			if e != nil && e.State != nil {
				st2 = &core.State{NodeName: e.State.NodeName, Bs: match.Bindings(fw.Plain(e.State.Bs).(map[string]interface{}))}
			}
			var berr error
			if rec.Guard("C15:timers-state", replay, func() { berr = c2.SetMachine(ctx2, sio.TimersMachine, nil, st2) }) {
				return
			}
			if berr != nil {
				rec.Violation("C15:timers-machine-state-not-bootable", "a crew cannot be started from the stored state of the timers machine: "+berr.Error(), replay)
				return
			}
			if got := timerIds(c2.Machines[sio.TimersMachine].State.Bs["timers"]); got != liveIds {
				rec.Violation("C15:timers-machine-state-differs-after-restart", fmt.Sprintf("the crew has the timers %s pending; a crew started from the store has %s", liveIds, got), replay)
				return
			}
			rec.Bucket("timers_machine_state_replaced_while_a_timer_is_pending")
		}()
	}
}
