#!/usr/bin/env python3
"""Regenerates /verif/MANIFEST.json from the table below (keeps it valid at all times)."""
import json

# id -> (level, technique, level text, level note, design ref)
CLAIMED = {
 "C01": ("exploration", "runtime witness checker on every Match result (independent containment checker)",
         "Every binding set returned by match.Match on ~4e5 (quick) / 1.2e7 (thorough) generated pattern/message/bindings triples is verified by an independent checker (extends given bindings, binds only pattern variables, substituted pattern contained in the message). Held-on-observed, not a proof; input-quantified property so bounded random exploration with constructive feature buckets is the reachable level for a monitor.",
         "Trusts the ~300-line checker ref/fits.go and the generator staying inside the supported fragment; sizes bounded (depth<=5, width<=4).", "DESIGN.md §4 C01"),
 "C02": ("exploration", "planted-witness monitor + brute-force embedding differential + exhaustive small space, observed on the real matcher",
         "The planted assignment must be among Match's results for ~3e5/6e6 planted and inflated messages; for plain once-only variables the result set must equal a brute-force enumeration of embeddings; all supported pattern/message pairs over alphabet {a,b}, variables {?x,?y} up to the node bounds are enumerated completely (that sub-space only is exhaustive). Bounded exploration otherwise.",
         "Trusts ref/fits.go (checker) and the brute-force candidate set (sub-terms / property names of the message); side conditions of the property (sets, scalar repeated variables) are enforced by the generator.", "DESIGN.md §4 C02"),
 "C03": ("exploration", "repetition/permutation differential + before/after snapshots + Go race detector on a shared pattern",
         "Each of 3e4/4e5 cases is evaluated 48/192 times with maps rebuilt in different insertion orders (all permutations of small top-level pattern maps); outcome multisets must coincide, inputs must equal their snapshots, results must be independent maps; 32 goroutines match one shared pattern object under -race with results compared to the sequential ones.",
         "Relies on Go's small-map iteration being a rotation of insertion order; race detector sees only interleavings that occurred.", "DESIGN.md §4 C03"),
 "C04": ("exploration", "executable reference model of the documented step rule compared with Spec.Step at run time",
         "An independent ~250-line transcription of the documented processing rule is compared with Spec.Step on every enumerated single-node configuration (the reduced vocabulary is enumerated completely: natively in both tiers, with ECMAScript actions in thorough; the full vocabulary natively in thorough) and on every stride of random 3-node specs, native and ECMAScript renderings. Reference-model differential, held-on-observed.",
         "Trusts the transcription ref/step.go (sources cited in its comments), the DSL reference evaluator, and the real matcher for branch patterns (itself monitored by C01-C03); error texts compared by marker containment.", "DESIGN.md §4 C04"),
 "C05": ("exploration", "history checker over recorded Walked results (unique message ids) + split-equivalence differential",
         "Each Walked from 3e4/6e5 random specs x states x message sequences x limits x breakpoints is checked as a history: chain continuity, ordered exactly-once consumption, step bound, truthful stop reason with quiescence and dropped-message probes on the real Step, agreement of every stride with the reference step; all 2^(n-1) splits of sequences of <= 6 messages are compared with the single Walk.",
         "Deterministic actions/guards; relies on ref.Step for the per-stride rule; bounded sizes (<= 5 nodes, <= 8 messages).", "DESIGN.md §4 C05"),
 "C06": ("exploration", "before/after deep snapshots of every argument + map-identity check + repeated call",
         "Around every Step/Walk on the enumerated failing-path configurations (native nil-error, native partial-error, native identity action, ECMAScript) and random specs, deep snapshots of state, messages, control, props and a structural snapshot of the spec are compared, result bindings maps are checked not to be input map objects, and the call is repeated and compared.",
         "Native actions of the harness do not modify their input; functions in the spec compared by identity.", "DESIGN.md §4 C06"),
 "C08": ("exploration", "conservation checker over emitted-message ids (strides, DoEmitted, crew results) against the reference",
         "For every k in 0..4, every failure kind and every position of 3-node action chains (plus emitting guards that accept/reject/fail, 3 error settings, and random combinations), the ids observed in Stride.Emitted, Walked.DoEmitted and sio.Crew Result.Emitted must equal the ids of the reference's successfully completed actions in execution order.",
         "Timed-out actions are the last executed in their walk; reference walk built from ref.Step.", "DESIGN.md §4 C08"),
 "C18": ("exploration", "before/after comparator on '!' bindings across every stride of hostile machines",
         "6e4/8e5 machines whose actions and guards delete, overwrite, keep-only, replace wholesale, return {}/null/non-objects, fail or reject are walked from states with 0-3 permanent bindings (scalar and structured); for every stride each permanent binding present before must be present and equal after (null-returning actions recorded, not judged).",
         "Which guard ran is derived from the reference step; native and ECMAScript renderings.", "DESIGN.md §4 C18"),
 "C07": ("fault_enumeration", "panic trap + per-call watchdog + failure-surfacing checker in isolated child processes over an enumerated fault space",
         "The cross product of 28 action/guard behaviours x {action, guard} x 5 error settings x 6 hostile states x 6 controls x 4 pendings x {Step, Walk} x renderings (complete in thorough, 1/3 per seed in quick), 45 targeted + random damaged JSON/YAML documents through three loaders, and odd native results are executed in child processes with every case logged first; a panic, fatal exit or call outstanding at the hard bound is a violation, and every injected failure must be surfaced as the reference step says.",
         "Native actions do not panic themselves; with absent bindings only totality and surfacing of the action failure are judged; reference step from C04.", "DESIGN.md §4 C07"),
 "C09": ("fault_enumeration", "differential twin run with the state JSON-round-tripped at enumerated message boundaries",
         "For 4e3/8e4 generated machines (ECMAScript actions storing integers, fractions, nested arrays/objects, nulls, inequality bounds, or failing; later patterns that look inside those values; user-defined error node over lastBindings/lastNode) and histories of 1-6 messages, the in-memory run is compared message by message with runs that persist-and-reload the state at every subset of boundaries (histories <= 4) or every single and all boundaries (longer).",
         "Deterministic specs; JSON-representable action results; crash points = message boundaries.", "DESIGN.md §4 C09"),
 "C10": ("exploration", "before/after snapshots + polluter/probe differential + concurrent self-check under the Go race detector",
         "16 polluting scripts in sequences of 1-5 precede a probe whose report of everything it can observe must equal the clean report; a self-probe pollutes and must never see its own leftovers; caller bindings and props are deep-snapshotted around every execution and around Spec.Walk; 16-64 goroutines execute one compiled source with a shared props object under -race.",
         "Observability limited to what the probe script enumerates; race detector sees only produced interleavings.", "DESIGN.md §4 C10"),
 "C11": ("exploration", "bounded-response monitor + goroutine-profile leak monitor in child processes",
         "12 non-terminating interpreted scripts x 7 deadlines x {deadline, asynchronous cancel} x concurrency 1/4/16/64 x {Exec, Walk with 3 error settings} (all in thorough, a third per seed in quick): each call must return the timeout error within deadline + 10 s (hard bound), the walk must route it as an action error, and no goroutine with an interpreter frame may remain 5 s after the batch.",
         "Liveness restated as a bounded response with a bound 3 orders of magnitude above the observed latency; single long built-in calls out of scope.", "DESIGN.md §4 C11"),
 "C12": ("exploration", "Go race detector + sequential-equivalence monitor + version-coherence monitor",
         "Under -race and GOMAXPROCS 2/4/16: 16-64 goroutines walk distinct machines over one spec object and must each reproduce the solo result (spec snapshot compared afterwards); 16 walkers over an UpdatableSpec swapped among 4 stamped versions must each carry stamps of exactly one version (walks straddling a swap are counted).",
         "Race detector sees only interleavings that occurred; hosts obtain the spec once per processing call.", "DESIGN.md §4 C12"),
 "C13": ("exploration", "multi-representation differential on the real loaders and compiler",
         "Each of 4e2/6e3 abstract specs is rendered into 36 variants (Go structures, JSON, YAML via jsccast/yaml, sio's file-URL loader for YAML and JSON, sio's inline loader) x (inline patterns, JSON-text patterns) x (compiled once, three times, compiled-serialised-reloaded-compiled); all must compile and give identical traces on shared message sequences incl. scalar messages; three negative mutations (unknown interpreter, pattern syntax, branching type) must fail at Compile; no compiled variant may report a compilation problem at run time.",
         "Deterministic specs; YAML renderer emits the lower-cased keys the hosts' loaders use.", "DESIGN.md §4 C13"),
 "C19": ("exploration", "reference verdict model over a fully controlled output stream (cat subprocess)",
         "1.5e3/2e4 generated sessions (1-3 steps, expected and inverted outputs, guards) are run with /bin/cat as the subprocess so the emitted stream is exactly the inputs; whenever Run returns nil the reference window model must justify a pass under some resolution. Soundness direction only.",
         "The reference is at least as permissive as the documentation; wall-clock load can only turn a pass into a failure.", "DESIGN.md §4 C19"),
 "C20": ("exploration", "parse-back comparators (DOT tokenizer, Mermaid flowchart parser, reference graph analysis)",
         "For 6e3/1e5 generated specs in two separately judged strata (identifier-like and hostile node names), tools.Analyze is compared with a reference graph analysis and the outputs of tools.Dot and tools.Mermaid are tokenised the way Graphviz / Mermaid read them and their node and edge multisets compared with the spec graph; panics and errors are violations.",
         "DOT / Mermaid subsets as emitted by the tools; an empty target may or may not also be listed as missing.", "DESIGN.md §4 C20"),
 "C15": ("fault_enumeration", "shadow store folded from reported changes + restart differential at every message boundary",
         "For 1.2e3/2e4 histories of crew operations (create / replace state / replace spec / uncompilable spec / delete / re-create, via captain messages and direct calls) interleaved with messages, a store folded from Result.Changed exactly like sio/stdio.go must equal the live crew after every message, and a crew booted from the JSON-round-tripped store at every message boundary (crash points enumerated) must give the same emissions and machine states for the rest of the history; end to end, 60/800 histories are typed into a crew wired like sio/siostd (real Stdio coupling and JSON state file): the state file must equal the live crew and a crew started from the file written after a prefix must end and emit like the uninterrupted one.",
         "Machines' reactions commute; captain and timers service machines are not compared; a missing stored state is the boot default.", "DESIGN.md §4 C15"),
 "C14": ("exploration", "recorder machines + routing reference model replayed against reported emissions",
         "For 3e3/5e4 crews of 0-6 recorder machines and histories whose messages script up to 3 generations of routed and unrouted follow-ups (targets: absent, id, unknown id, '*', lists with unknown / repeated / non-string members, service names; hostile crew-op and timer payloads), the model replays Result.Emitted breadth-first and predicts every machine's log as a sequence; service machines must act only on what is addressed to them. The same recorders hosted in mcrew's Service (in-package, asynchronous re-injection): after quiescence each machine's log and the Emitted / Processing / websocket channels must equal the model's multisets; and in mdb's Host (in-package), with the harness playing the debugger's queue-and-pop loop.",
         "Numbers / objects as routing targets are recorded, not judged; batches of one round are matched as a multiset.", "DESIGN.md §4 C14"),
 "C17": ("exploration", "online trace monitor on timer events + pending-set comparator + restart twin, under the Go race detector",
         "mcrew Timers (in-package, the harness is the emitter and issues requests from inside the firing handler) and sio timers (through a real Crew whose input the harness owns; firing observed as delivery to a sink machine; results serialised by a consumer goroutine): per timer fired at most once, never early, never after an acknowledged cancel that preceded its due time; ids reusable from the firing handler; re-created timers cancellable; at quiescent points reported and live pending sets equal accepted - fired - cancelled; timers persisted as JSON resume exactly once on a new crew; zero race reports.",
         "'Eventually fires' restated as fired within 30 s of the due time; cancel acknowledged after the due time overlaps the firing; requests the sio timers machine does not accept are counted, not judged.", "DESIGN.md §4 C17"),
 "C16": ("fault_enumeration", "memory-vs-store comparator under enumerated store faults + porcupine linearizability check of recorded concurrent histories",
         "In-package on mcrew's Service with a real bolt store: for 40/400 operation sequences every fault window 0 <= i < j <= n (store closed for operations i..j-1) is run: memory == store after every healthy operation, a failed write leaves memory unchanged, memory == store after recovery; 150/2000 concurrent histories (4-8 clients, 2-3 ids, every store write delayed through the verifPoint hook): final memory == store, no two process results from one machine state, per-machine history linearizable w.r.t. a sequential service model (porcupine).",
         "Faults injected by closing the bolt database; NoSync commits; porcupine timeout is inconclusive; hook verifPoint at the top of Storage.WriteState.", "DESIGN.md §4 C16"),
}

NOT_YET = "check not built yet in this session (planned: see DESIGN.md §4)"

props = [json.loads(l) for l in open('/verif/properties.jsonl')]
checks = []
na = []
for p in props:
    i = p['id']
    if i in CLAIMED:
        level, tech, text, note, ref = CLAIMED[i]
        checks.append({
            "property_id": i,
            "quick_cmd": f"./check {i} --tier quick",
            "thorough_cmd": f"./check {i} --tier thorough",
            "evidence_file": f"/verif/evidence/{i}.json",
            "replay_cmd_template": f"./check {i} --replay {{path}}",
            "engine": "vrun",
            "level_claimed": {"category": level, "text": text, "design_ref": ref},
            "level_note": note,
            "technique": tech,
        })
    else:
        na.append({"property_id": i, "reason": NOT_YET})

hooks_commits = [l.strip() for l in open('/verif/MANIFEST.hooks')] if __import__('os').path.exists('/verif/MANIFEST.hooks') else []
hooks_commits = [c for c in hooks_commits if c and not c.startswith('#')]
m = {
 "version": 1,
 "setup_cmd": "./check --warm",
 "hooks": {
   "guard": "verif",
   "enable": "go build/test -tags verif (children are built by harness/cmd/vrun; in-package monitors are injected with -overlay, no file is written into /repo)",
   "baseline_off_cmd": "cd /repo && GOFLAGS=-mod=mod GOPROXY=off GOSUMDB=off GOTOOLCHAIN=local go test -vet=off -count=1 -timeout 25m ./...",
   "source_commits": hooks_commits,
   "add_only": True,
 },
 "engines": [
   {"name": "vrun", "path": "/verif/harness/cmd/vrun", "serves_properties": [c["property_id"] for c in checks],
    "kind_free_text": "Go parent driver: builds child processes (plain / -race / in-package test binaries via -overlay) from /repo's working tree, runs workload batches under watchdogs, parses race-detector logs, aggregates monitor observations, matches known findings, writes evidence"},
 ],
 "checks": checks,
 "not_applicable": na,
 "notes": "Technique family: runtime monitoring and sanitizers. VERIF_SEED selects the case lists (default 1). Exit 0 = held on everything observed (KNOWN-FINDING lines are printed for listed findings); exit 1 + VIOLATION line otherwise; exit 2 = the tree does not build.",
}
json.dump(m, open('/verif/MANIFEST.json', 'w'), indent=1)
print("claimed", len(checks), "not_applicable", len(na))
