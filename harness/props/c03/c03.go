// Package c03: Match is a pure function.  Repetition / permutation
// differential, before/after snapshots, result-independence check, and a
// concurrent part run under the race detector.
package c03

import (
	"fmt"
	"math/rand"
	"sync"
	"sync/atomic"

	"github.com/Comcast/sheens/match"

	"verif/fw"
	"verif/gen"
	"verif/ref"
)

type outcome struct {
	errored bool
	multi   string
}

func eval(rec *fw.Rec, replay interface{}, p, m interface{}, in match.Bindings) (o outcome, bss []match.Bindings, panicked bool) {
	var err error
	panicked = rec.Guard("C03", replay, func() { bss, err = match.Match(p, m, in) })
	if err != nil {
		return outcome{errored: true}, nil, panicked
	}
	return outcome{multi: fw.CanonMultiset(bss)}, bss, panicked
}

// biased builds the case families the property names.
func biased(r *rand.Rand, idx int) (*gen.MatchCase, string) {
	switch idx % 6 {
	case 0:
		// one variable at several map keys with structured values of different extent
		big := gen.Value(r, 3)
		for tries := 0; gen.IsScalar(big) && tries < 10; tries++ {
			big = gen.Value(r, 3)
		}
		small := shrink(r, fw.Deep(big))
		keys := []string{"p", "q", "s"}
		n := 2 + r.Intn(2)
		pat := map[string]interface{}{}
		msg := map[string]interface{}{}
		for i := 0; i < n; i++ {
			pat[keys[i]] = "?x"
			if r.Intn(2) == 0 {
				msg[keys[i]] = fw.Deep(big)
			} else {
				msg[keys[i]] = fw.Deep(small)
			}
		}
		msg["extra"] = gen.Scalar(r)
		return &gen.MatchCase{Pattern: pat, Message: msg, In: map[string]interface{}{}, Kind: "repeated_structured"}, "repeated_structured"
	case 1:
		// invalid at one key, merely non-matching at another
		pat := map[string]interface{}{
			"a": []interface{}{"?x", "?y"},
			"b": gen.Scalar(r),
		}
		msg := map[string]interface{}{"a": []interface{}{1.0, 2.0}, "b": gen.Scalar(r)}
		if r.Intn(2) == 0 {
			pat["c"] = map[string]interface{}{"?k": 1.0, "d": 2.0}
			msg["c"] = map[string]interface{}{"d": 2.0}
		}
		return &gen.MatchCase{Pattern: pat, Message: msg, In: map[string]interface{}{}, Kind: "invalid_and_nonmatching"}, "invalid_and_nonmatching"
	case 2:
		// arrays of maps sharing a variable with a sibling key
		elems := []interface{}{}
		for i := 0; i < 2+r.Intn(3); i++ {
			elems = append(elems, map[string]interface{}{"id": gen.Scalar(r), "v": gen.Value(r, 1)})
		}
		pat := map[string]interface{}{"items": []interface{}{map[string]interface{}{"id": "?x"}}, "want": "?x"}
		msg := map[string]interface{}{"items": elems, "want": elems[r.Intn(len(elems))].(map[string]interface{})["id"]}
		return &gen.MatchCase{Pattern: pat, Message: msg, In: map[string]interface{}{}, Kind: "array_of_maps"}, "array_of_maps"
	case 3:
		// nested: repeated variable deeper, with structured values
		v := gen.Value(r, 2)
		w := shrink(r, fw.Deep(v))
		pat := map[string]interface{}{"m": map[string]interface{}{"a": "?x", "b": map[string]interface{}{"c": "?x"}}, "z": "?x"}
		vals := []interface{}{v, w, fw.Deep(v)}
		r.Shuffle(3, func(i, j int) { vals[i], vals[j] = vals[j], vals[i] })
		msg := map[string]interface{}{"m": map[string]interface{}{"a": vals[0], "b": map[string]interface{}{"c": vals[1]}}, "z": vals[2]}
		return &gen.MatchCase{Pattern: pat, Message: msg, In: map[string]interface{}{}, Kind: "nested_repeated"}, "nested_repeated"
	default:
		mc := gen.GenMatchCase(r, gen.Full, []int{0, 1, 1, 2, 3}[idx%5])
		return mc, "generated"
	}
}

func shrink(r *rand.Rand, v interface{}) interface{} {
	switch t := v.(type) {
	case map[string]interface{}:
		ks := gen.SortedKeys(t)
		if len(ks) > 0 {
			delete(t, ks[r.Intn(len(ks))])
		}
		return t
	case []interface{}:
		if len(t) > 0 {
			return t[:len(t)-1]
		}
	}
	return v
}

func seqCase(cfg fw.Config, rec *fw.Rec, idx int) {
	r := cfg.Rng("c03", idx)
	mc, family := biased(r, idx)
	R := cfg.Pick(48, 192)
	var orders [][]string
	if pm, ok := mc.Pattern.(map[string]interface{}); ok && len(pm) >= 2 && len(pm) <= 3 {
		orders = gen.Permutations(gen.SortedKeys(pm))
	}
	var first outcome
	var firstSet bool
	sawErr, sawOK := false, false
	outcomes := map[string]int{}
	for e := 0; e < R; e++ {
		var p interface{}
		if orders != nil {
			p = gen.RebuildOrder(r, mc.Pattern, orders[e%len(orders)])
		} else {
			p = gen.Rebuild(r, mc.Pattern)
		}
		m := gen.Rebuild(r, mc.Message)
		in := match.Bindings(gen.Rebuild(r, mc.In).(map[string]interface{}))
		if e%3 == 1 {
			// values as they look in memory after an action produced them: Go ints, float32s,
			// match.Bindings for nested maps; the snapshots below are type-preserving
			mk := func(x map[string]interface{}) interface{} { return match.Bindings(x) }
			m = gen.GoTyped(r, m, mk, true)
			in = match.Bindings(gen.GoTyped(r, map[string]interface{}(in), mk, true).(map[string]interface{}))
			if e == 1 {
				rec.Bucket("go_typed_message_evaluations")
			}
		}
		pSnap, mSnap, inSnap := fw.Deep(p), fw.Deep(m), fw.Deep(in)
		o, bss, panicked := eval(rec, mc, p, m, in)
		if panicked {
			return
		}
		rec.Eval(1)
		// (b) inputs untouched
		if d := fw.Diff(pSnap, p); d != "" {
			rec.Violation("C03:pattern-modified", "Match modified the pattern: "+d, mc)
			return
		}
		if d := fw.Diff(mSnap, m); d != "" {
			rec.Violation("C03:message-modified", "Match modified the message: "+d, mc)
			return
		}
		if d := fw.Diff(inSnap, in); d != "" {
			rec.Violation("C03:bindings-modified", "Match modified the given bindings: "+d, mc)
			return
		}
		// (c) results are independent maps
		ids := map[uintptr]bool{fw.MapID(in): true}
		for i, bs := range bss {
			id := fw.MapID(bs)
			if ids[id] {
				rec.Violation("C03:result-shares-map", fmt.Sprintf("result %d is the same map object as the input bindings or another result", i), mc)
				return
			}
			ids[id] = true
		}
		if len(bss) > 0 {
			before := make([]string, len(bss))
			for i, bs := range bss {
				before[i] = fw.Canon(bs)
			}
			bss[0]["?sentinel!"] = "mutated"
			delete(bss[0], "?x")
			for i := 1; i < len(bss); i++ {
				if fw.Canon(bss[i]) != before[i] {
					rec.Violation("C03:result-not-independent", "changing one result changed another", mc)
					return
				}
			}
			if d := fw.Diff(inSnap, in); d != "" {
				rec.Violation("C03:result-not-independent-of-input", "changing a result changed the given bindings: "+d, mc)
				return
			}
			rec.Bucket("independence_checked")
		}
		// (a) same outcome
		if o.errored {
			sawErr = true
			outcomes["error"]++
		} else {
			sawOK = true
			outcomes[o.multi]++
		}
		if !firstSet {
			first, firstSet = o, true
		}
	}
	_ = first
	if len(outcomes) > 1 {
		cls := "different-results"
		if sawErr && sawOK {
			cls = "error-or-not"
		}
		rec.Violation("C03:nondeterministic:"+cls+":"+family, fmt.Sprintf("%d evaluations of one (pattern,message,bindings) gave %d different outcomes: %s", R, len(outcomes), fw.Short(outcomes)),
			map[string]interface{}{"case": mc, "outcomes": outcomes})
		return
	}
	rec.Bucket("family_" + family)
	if orders != nil {
		rec.Bucket("all_insertion_orders_of_top_level_pattern_map")
	}
	nontrivial := false
	for k := range outcomes {
		if k != "[]" {
			nontrivial = true
		}
	}
	if nontrivial {
		rec.Nontrivial(fw.Canon([]interface{}{mc.Pattern, mc.Message, mc.In}))
		if idx%2000 == 3 {
			rec.Sample(map[string]interface{}{"case": mc, "evaluations": R, "outcome": outcomes})
		}
	}
}

// conc: many goroutines match the same pattern *value* (one shared object)
// against private messages; run under the race detector by the parent.
func conc(cfg fw.Config, rec *fw.Rec) {
	rounds := cfg.Pick(300, 3000)
	G := 32
	for round := 0; round < rounds; round++ {
		r := cfg.Rng("c03-conc", round)
		mc := gen.GenMatchCase(r, gen.Full, 1)
		if !ref.Vars(mc.Pattern).Supported {
			continue
		}
		shared := mc.Pattern // one object
		sharedIn := match.Bindings(fw.Deep(mc.In).(map[string]interface{}))
		pSnap, inSnap := fw.Deep(shared), fw.Deep(sharedIn)
		msgs := make([]interface{}, G)
		want := make([]outcome, G)
		sharedMsg := gen.Rebuild(r, mc.Message)
		for g := 0; g < G; g++ {
			switch {
			case round%2 == 0 && g%4 < 2:
				msgs[g] = sharedMsg // one message object read by several goroutines
			case g%2 == 0:
				msgs[g] = gen.Rebuild(r, mc.Message)
			default:
				msgs[g] = gen.Value(r, 3)
			}
			o, _, panicked := eval(rec, mc, fw.Deep(shared), msgs[g], match.Bindings(fw.Deep(mc.In).(map[string]interface{})))
			if panicked {
				return
			}
			want[g] = o
		}
		var wg sync.WaitGroup
		start := make(chan struct{})
		got := make([]outcome, G)
		for g := 0; g < G; g++ {
			wg.Add(1)
			go func(g int) {
				defer wg.Done()
				<-start
				for rep := 0; rep < 4; rep++ {
					o, _, _ := eval(rec, mc, shared, msgs[g], sharedIn)
					got[g] = o
				}
			}(g)
		}
		close(start)
		wg.Wait()
		rec.Eval(G * 4)
		for g := 0; g < G; g++ {
			if got[g] != want[g] {
				rec.Violation("C03:concurrent-differs", "a concurrent match on a shared pattern differs from the sequential result", map[string]interface{}{"case": mc, "message": msgs[g]})
				break
			}
		}
		if d := fw.Diff(pSnap, shared); d != "" {
			rec.Violation("C03:pattern-modified", "shared pattern modified: "+d, mc)
		}
		if round%2 == 0 {
			rec.Bucket("concurrent_rounds_sharing_a_message")
		}
		if d := fw.Diff(inSnap, sharedIn); d != "" {
			rec.Violation("C03:bindings-modified", "shared bindings modified: "+d, mc)
		}
		rec.Bucket("concurrent_rounds")
		rec.Nontrivial(fw.Canon([]interface{}{"conc", mc.Pattern, mc.Message}))
	}
	// names never seen before, met for the first time by many goroutines at once: whatever the
	// matcher remembers about a variable name must be safe to learn concurrently (the rounds
	// above compute the sequential results first, which would warm any such memory)
	for round := 0; round < cfg.Pick(40, 400); round++ {
		tag := fmt.Sprintf("%d_%d", cfg.Seed, round)
		pat := map[string]interface{}{"a": "?<cold" + tag, "b": map[string]interface{}{"c": "?>=warm" + tag, "d": []interface{}{"?arr" + tag}}, "e": "??opt" + tag, "f": map[string]interface{}{"?prop" + tag: "?pv" + tag}, "g": "?!=ne" + tag}
		in := match.Bindings{"?<cold" + tag: 10.0, "?>=warm" + tag: 1.0, "?!=ne" + tag: 5.0}
		msg := map[string]interface{}{"a": 3.0, "b": map[string]interface{}{"c": 2.0, "d": []interface{}{"x", "y"}}, "f": map[string]interface{}{"k": "v"}, "g": 6.0}
		var wg sync.WaitGroup
		start := make(chan struct{})
		got := make([]string, 16)
		for g := 0; g < 16; g++ {
			wg.Add(1)
			go func(g int) {
				defer wg.Done()
				<-start
				o, bss, _ := eval(rec, "cold names "+tag, pat, msg, in)
				got[g] = fmt.Sprint(o, len(bss))
			}(g)
		}
		close(start)
		wg.Wait()
		o, bss, _ := eval(rec, "cold names "+tag, pat, msg, in)
		want := fmt.Sprint(o, len(bss))
		rec.Eval(17)
		ok := len(bss) == 2
		for g := range got {
			if got[g] != want {
				ok = false
			}
		}
		if !ok {
			rec.Violation("C03:concurrent-differs:cold-names", fmt.Sprintf("variable names met for the first time by 16 goroutines at once: results %v, alone afterwards %s (2 sets expected)", got, want), map[string]interface{}{"pattern": pat, "message": msg, "bindings": in})
			break
		}
		rec.Bucket("concurrent_first_use_of_new_variable_names")
	}
	rec.SetExtra("concurrent_goroutines_per_round", G)
	// deeply nested (but legal) patterns matched from many goroutines at once: the result
	// must be what the same match gives alone, whatever else is being matched meanwhile
	for _, depth := range []int{500, 3000} {
		var pat, msg interface{} = "?x", map[string]interface{}{"leaf": 1.0, "other": "y"}
		for i := 0; i < depth; i++ {
			if i%2 == 0 {
				pat = map[string]interface{}{"a": pat}
				msg = map[string]interface{}{"a": msg, "pad": float64(i)}
			} else {
				pat = []interface{}{pat}
				msg = []interface{}{msg}
			}
		}
		o0, bss0, p0 := eval(rec, fmt.Sprintf("deep pattern, depth %d, alone", depth), pat, msg, match.NewBindings())
		if p0 {
			return
		}
		want := fmt.Sprint(o0, len(bss0))
		var wg sync.WaitGroup
		var bad int32
		for g := 0; g < 32; g++ {
			wg.Add(1)
			go func() {
				defer wg.Done()
				for k := 0; k < 10; k++ {
					o, bss, p := eval(rec, fmt.Sprintf("deep pattern, depth %d, concurrent", depth), pat, msg, match.NewBindings())
					if p {
						atomic.AddInt32(&bad, 1)
						return
					}
					if got := fmt.Sprint(o, len(bss)); got != want {
						if atomic.AddInt32(&bad, 1) == 1 {
							rec.Violation("C03:concurrent-differs:deep", fmt.Sprintf("a pattern nested %d levels deep matched from 32 goroutines at once gives %s; alone it gives %s", depth, got, want), map[string]interface{}{"depth": depth})
						}
						return
					}
				}
			}()
		}
		wg.Wait()
		rec.Eval(320)
		if bad == 0 {
			rec.Bucket("concurrent_deep_patterns_agree")
		}
	}
}

func Run(cfg fw.Config, rec *fw.Rec) {
	rec.Rule = "each case is evaluated R times (48 quick / 192 thorough) with pattern, message and bindings rebuilt each time with a different map insertion order (all permutations of the top-level pattern map when it has 2-3 keys, random for nested maps); the canonical multiset of results and error/non-error outcome must coincide, inputs must be deep-equal to their snapshots after every call, results must be distinct map objects; concurrent part: 32 goroutines x one shared pattern object under -race, plus patterns nested 500 and 3000 levels deep matched by 32 goroutines at once; non-trivial = some evaluation returned a result; distinct by canonical (pattern,message,bindings)"
	rec.Assume = []string{"Go iterates a small map in a rotation of its insertion order: varying insertion order plus repetition covers the iteration orders of maps with <= 8 keys", "the race detector reports only races that occur in the produced interleavings"}
	if cfg.Part == "conc" {
		rec.Required = []string{"concurrent_rounds", "concurrent_rounds_sharing_a_message", "concurrent_deep_patterns_agree", "concurrent_first_use_of_new_variable_names"}
		conc(cfg, rec)
		return
	}
	rec.Required = []string{"family_repeated_structured", "family_invalid_and_nonmatching", "family_array_of_maps", "family_nested_repeated", "family_generated", "independence_checked", "all_insertion_orders_of_top_level_pattern_map", "go_typed_message_evaluations"}
	fw.Parallel(cfg.Workers, cfg.Pick(30000, 400000), func(w, idx int) { seqCase(cfg, rec, idx) })
}
