package fw

import (
	"encoding/json"
	"fmt"
	"math"
	"reflect"
	"sort"
	"strings"

	"github.com/Comcast/sheens/core"
	"github.com/Comcast/sheens/match"
)

// Canon renders x as JSON with sorted keys; Go numeric types and typed maps
// collapse to their JSON form.  Unserialisable values fall back to %#v.
func Canon(x interface{}) string {
	js, err := json.Marshal(x)
	if err != nil {
		return fmt.Sprintf("!unserialisable(%v):%#v", err, x)
	}
	return string(js)
}

// FromJSON parses JSON text into plain Go values (float64 numbers).
func FromJSON(s string) interface{} {
	var x interface{}
	if err := json.Unmarshal([]byte(s), &x); err != nil {
		panic("FromJSON: " + err.Error() + ": " + s)
	}
	return x
}

// Plain returns the JSON round trip of x (all numbers float64, all maps plain).
func Plain(x interface{}) interface{} {
	return FromJSON(Canon(x))
}

// Deep makes a type-preserving deep copy of JSON-like data.
func Deep(x interface{}) interface{} {
	switch v := x.(type) {
	case map[string]interface{}:
		if v == nil {
			return v
		}
		m := make(map[string]interface{}, len(v))
		for k, e := range v {
			m[k] = Deep(e)
		}
		return m
	case match.Bindings:
		if v == nil {
			return v
		}
		m := make(match.Bindings, len(v))
		for k, e := range v {
			m[k] = Deep(e)
		}
		return m
	case core.StepProps:
		if v == nil {
			return v
		}
		m := make(core.StepProps, len(v))
		for k, e := range v {
			m[k] = Deep(e)
		}
		return m
	case []interface{}:
		if v == nil {
			return v
		}
		a := make([]interface{}, len(v))
		for i, e := range v {
			a[i] = Deep(e)
		}
		return a
	default:
		// other Go containers (say []string, map[string]string, []map[string]interface{}):
		// copy by reflection so that a snapshot never aliases the original
		if x == nil {
			return nil
		}
		switch reflect.TypeOf(x).Kind() {
		case reflect.Map, reflect.Slice:
			return deepReflect(reflect.ValueOf(x)).Interface()
		}
		return x
	}
}

func deepReflect(v reflect.Value) reflect.Value {
	switch v.Kind() {
	case reflect.Map:
		if v.IsNil() {
			return v
		}
		m := reflect.MakeMapWithSize(v.Type(), v.Len())
		it := v.MapRange()
		for it.Next() {
			m.SetMapIndex(it.Key(), deepReflect(it.Value()))
		}
		return m
	case reflect.Slice:
		if v.IsNil() {
			return v
		}
		a := reflect.MakeSlice(v.Type(), v.Len(), v.Len())
		for i := 0; i < v.Len(); i++ {
			a.Index(i).Set(deepReflect(v.Index(i)))
		}
		return a
	case reflect.Interface:
		if v.IsNil() {
			return v
		}
		c := Deep(v.Interface())
		out := reflect.New(v.Type()).Elem()
		if c != nil {
			out.Set(reflect.ValueOf(c))
		}
		return out
	}
	return v
}

func DeepBs(bs match.Bindings) match.Bindings {
	if bs == nil {
		return nil
	}
	return Deep(bs).(match.Bindings)
}

func DeepState(s *core.State) *core.State {
	if s == nil {
		return nil
	}
	return &core.State{NodeName: s.NodeName, Bs: DeepBs(s.Bs)}
}

// Diff returns "" if a and b are equal in structure, Go type and value, else
// the first differing path.  NaN equals NaN.
func Diff(a, b interface{}) string { return diff("$", a, b) }

func diff(path string, a, b interface{}) string {
	if a == nil || b == nil {
		if a == nil && b == nil {
			return ""
		}
		return fmt.Sprintf("%s: %s vs %s", path, short(a), short(b))
	}
	ta, tb := reflect.TypeOf(a), reflect.TypeOf(b)
	if ta != tb {
		return fmt.Sprintf("%s: type %T vs %T (%s vs %s)", path, a, b, short(a), short(b))
	}
	switch va := a.(type) {
	case map[string]interface{}:
		return diffMap(path, va, b.(map[string]interface{}))
	case match.Bindings:
		return diffMap(path, va, b.(match.Bindings))
	case core.StepProps:
		return diffMap(path, va, b.(core.StepProps))
	case []interface{}:
		vb := b.([]interface{})
		if (va == nil) != (vb == nil) {
			return fmt.Sprintf("%s: nil-ness differs", path)
		}
		if len(va) != len(vb) {
			return fmt.Sprintf("%s: len %d vs %d (%s vs %s)", path, len(va), len(vb), short(a), short(b))
		}
		for i := range va {
			if d := diff(fmt.Sprintf("%s[%d]", path, i), va[i], vb[i]); d != "" {
				return d
			}
		}
		return ""
	case float64:
		vb := b.(float64)
		if va == vb || (math.IsNaN(va) && math.IsNaN(vb)) {
			return ""
		}
		return fmt.Sprintf("%s: %v vs %v", path, va, vb)
	default:
		if reflect.TypeOf(a).Comparable() {
			if a == b {
				return ""
			}
			return fmt.Sprintf("%s: %s vs %s", path, short(a), short(b))
		}
		if reflect.DeepEqual(a, b) {
			return ""
		}
		return fmt.Sprintf("%s: %s vs %s", path, short(a), short(b))
	}
}

func diffMap(path string, a, b map[string]interface{}) string {
	if (a == nil) != (b == nil) {
		return fmt.Sprintf("%s: nil-ness differs (%s vs %s)", path, short(a), short(b))
	}
	keys := map[string]bool{}
	for k := range a {
		keys[k] = true
	}
	for k := range b {
		keys[k] = true
	}
	ks := make([]string, 0, len(keys))
	for k := range keys {
		ks = append(ks, k)
	}
	sort.Strings(ks)
	for _, k := range ks {
		x, inA := a[k]
		y, inB := b[k]
		if !inA {
			return fmt.Sprintf("%s: key %q added (= %s)", path, k, short(y))
		}
		if !inB {
			return fmt.Sprintf("%s: key %q removed (was %s)", path, k, short(x))
		}
		if d := diff(path+"."+k, x, y); d != "" {
			return d
		}
	}
	return ""
}

func short(x interface{}) string {
	s := Canon(x)
	if len(s) > 200 {
		s = s[:200] + "…"
	}
	return s
}

// MapID returns the identity of a map object (0 for nil / non-map).
func MapID(x interface{}) uintptr {
	v := reflect.ValueOf(x)
	if !v.IsValid() || v.Kind() != reflect.Map || v.IsNil() {
		return 0
	}
	return v.Pointer()
}

// CanonMultiset canonicalises a slice of binding sets as a sorted multiset.
func CanonMultiset(bss []match.Bindings) string {
	ss := make([]string, len(bss))
	for i, bs := range bss {
		ss[i] = Canon(bs)
	}
	sort.Strings(ss)
	return "[" + strings.Join(ss, ",") + "]"
}

// Short is exported short().
func Short(x interface{}) string { return short(x) }

// FromJSONSafe parses JSON text; ok=false if it is not JSON.
func FromJSONSafe(s string) (interface{}, bool) {
	var x interface{}
	if err := json.Unmarshal([]byte(s), &x); err != nil {
		return nil, false
	}
	return x, true
}
