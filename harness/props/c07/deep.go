package c07

// Deeply nested values.  A script can build a value nested a million levels
// deep in a few seconds.  Handing such a value to a recursive encoder
// overflows the goroutine stack, which terminates the process and cannot be
// recovered from; so each case runs in a process of its own (this binary,
// re-executed with VERIF_DEEPCASE set), and the parent part judges how that
// process ended.

import (
	"context"
	"encoding/json"
	"fmt"
	"os"
	"os/exec"
	"path/filepath"
	"strings"
	"sync"
	"time"

	"github.com/Comcast/sheens/core"
	"github.com/Comcast/sheens/interpreters"
	"github.com/Comcast/sheens/match"

	"github.com/Comcast/sheens/sio"

	"verif/fw"
	"verif/siox"
)

// lockedOut collects what a Stdio coupling prints.
type lockedOut struct {
	mu sync.Mutex
	b  strings.Builder
}

func (l *lockedOut) Write(p []byte) (int, error) {
	l.mu.Lock()
	defer l.mu.Unlock()
	return l.b.Write(p)
}

func (l *lockedOut) String() string {
	l.mu.Lock()
	defer l.mu.Unlock()
	return l.b.String()
}

const deepLevels = 1000000

type deepCase struct {
	Name     string
	Position string // action | guard | crew
	Interp   string
	Body     string // ECMAScript; DEEPOBJ / DEEPARR stand for the code building the value into `o`
}

var deepObj = fmt.Sprintf(`var o = {}; var c = o; for (var i = 0; i < %d; i++) { c.n = {}; c = c.n; }`, deepLevels)
var deepArr = fmt.Sprintf(`var o = []; var c = o; for (var i = 0; i < %d; i++) { var d = []; c.push(d); c = d; }`, deepLevels)

var deepCases = []deepCase{
	{"emit-deep-object", "action", "ecmascript", deepObj + ` _.out(o); return _.bindings;`},
	{"emit-deep-array", "action", "ecmascript", deepArr + ` _.out({a: o}); return _.bindings;`},
	{"return-deep-object", "action", "ecmascript", deepObj + ` var bs = _.bindings; bs.deep = o; return bs;`},
	{"return-deep-array", "action", "ecmascript", deepArr + ` return {deep: o};`},
	{"guard-returns-deep-object", "guard", "ecmascript", deepObj + ` return {deep: o};`},
	{"match-on-deep-object", "action", "ecmascript-ext", deepObj + ` var r = _.match(o, o, {}); return {n: r.length};`},
	{"match-with-deep-bindings", "action", "ecmascript-ext", deepObj + ` var r = _.match({"a": "?x"}, {"a": 1}, {"d": o}); return {n: r.length};`},
	{"crew-machine-returns-deep-object", "crew", "ecmascript", deepObj + ` var bs = _.bindings; bs.deep = o; return bs;`},
	{"crew-machine-emits-deep-object", "crew", "ecmascript", deepObj + ` _.out({to: "nobody", deep: o}); return _.bindings;`},
	// the interpreter library's own recursion (Array.prototype.toString / join)
	{"string-of-deep-array", "action", "ecmascript", deepArr + ` return {s: String(o).length};`},
}

// values with shared substructure: 64 levels deep, a few hundred bytes in the
// interpreter, 2^64 values once written out.  Whatever walks them as a tree does not come
// back; the script itself finishes in microseconds.
var dagObj = `var o = {}; for (var i = 0; i < 64; i++) { o = {l: o, r: o}; }`
var dagArr = `var o = []; for (var i = 0; i < 64; i++) { o = [o, o]; }`

func init() {
	deepCases = append(deepCases,
		deepCase{"dag-return-object", "action", "ecmascript", dagObj + ` return {deep: o};`},
		deepCase{"dag-return-array", "action", "ecmascript", dagArr + ` return {deep: o};`},
		deepCase{"dag-emit-object", "action", "ecmascript", dagObj + ` _.out(o); return _.bindings;`},
		deepCase{"dag-guard-returns-object", "guard", "ecmascript", dagObj + ` return {deep: o};`},
		deepCase{"dag-crew-machine-returns-object", "crew", "ecmascript", dagObj + ` var bs = _.bindings; bs.deep = o; return bs;`},
		deepCase{"dag-crew-machine-emits-array", "crew", "ecmascript", dagArr + ` _.out({to: "nobody", deep: o}); return _.bindings;`})
}

// Map and Set: exported as lists (a Map as a list of pairs).  An object that contains itself
// by way of a Map, or nesting that runs through Maps, is as impossible to write out as the
// plain kind.  A Map or Set that contains ITSELF is another matter: see known_findings.txt.
var viaMapCycle = `var o = {}; var m = new Map(); m.set("a", o); o.m = m;`
var viaMapDeep = `var o = {}; for (var i = 0; i < 20000; i++) { var m = new Map(); m.set("k", o); o = {m: m}; }`

func init() {
	deepCases = append(deepCases,
		deepCase{"cycle-through-a-map-returned", "action", "ecmascript", viaMapCycle + ` return {o: o};`},
		deepCase{"cycle-through-a-map-emitted", "action", "ecmascript", viaMapCycle + ` _.out({o: o}); return _.bindings;`},
		deepCase{"nesting-through-maps-returned", "action", "ecmascript", viaMapDeep + ` return {o: o};`},
		deepCase{"nesting-through-maps-emitted", "action", "ecmascript", viaMapDeep + ` _.out(o); return _.bindings;`},
		deepCase{"nesting-through-maps-crew-machine-returns", "crew", "ecmascript", viaMapDeep + ` var bs = _.bindings; bs.deep = o; return bs;`},
		deepCase{"map-that-contains-itself-returned", "action", "ecmascript", `var m = new Map(); m.set("a", m); return {m: m};`},
		deepCase{"set-that-contains-itself-returned", "action", "ecmascript", `var s = new Set(); s.add(s); return {s: s};`},
		deepCase{"map-that-contains-itself-emitted", "action", "ecmascript", `var m = new Map(); m.set("a", m); _.out({m: m}); return _.bindings;`})
}

// a returned value that is not an object is turned down - whatever it contains: an array
// that contains itself, an array with shared substructure, a million levels of arrays
func init() {
	deepCases = append(deepCases,
		deepCase{"array-that-contains-itself-returned", "action", "ecmascript", `var a = []; a.push(a); return a;`},
		deepCase{"array-that-contains-itself-returned-by-guard", "guard", "ecmascript", `var a = []; a.push(a); return a;`},
		deepCase{"array-with-shared-substructure-returned", "action", "ecmascript", dagArr + ` return o;`},
		deepCase{"deep-array-returned-as-the-result", "action", "ecmascript", deepArr + ` return o;`},
		deepCase{"object-cycle-below-an-array-returned", "action", "ecmascript", `var o = {}; o.self = o; return [o];`})
}

// the Stdio coupling with a state file rewritten after every message (siostd -state-out F
// -write-state-msg): a machine that leaves something in its bindings that cannot be
// written (NaN) must not take the host down
func init() {
	deepCases = append(deepCases,
		deepCase{"stdio-state-that-cannot-be-written", "stdio", "ecmascript", `return {x: 0/0};`},
		deepCase{"stdio-state-with-infinity", "stdio", "ecmascript", `var bs = _.bindings; bs.big = 1/0; return bs;`})
}

// boundary cases: nesting around the depth a JSON decoder accepts (10000).  Whatever is
// accepted must survive being written and read back inside the envelopes hosts use.
func init() {
	for _, n := range []int{9000, 9890, 9899, 9900, 9901, 9950, 9990, 9996, 9997, 9998, 9999, 10000, 10001, 10010} {
		obj := fmt.Sprintf(`var o = {}; var c = o; for (var i = 0; i < %d; i++) { c.n = {}; c = c.n; }`, n-1)
		deepCases = append(deepCases,
			deepCase{fmt.Sprintf("boundary-return-%d", n), "boundary", "ecmascript", obj + ` return {deep: o};`},
			deepCase{fmt.Sprintf("boundary-emit-%d", n), "boundary", "ecmascript", obj + ` _.out(o); return _.bindings;`})
	}
}

type deepOutcome struct {
	Returned bool   `json:"returned"`
	Err      string `json:"err,omitempty"`
	Node     string `json:"node,omitempty"`
	ErrText  string `json:"error_text,omitempty"`
	Alive    bool   `json:"alive,omitempty"` // crew: a later message is still processed
	Seconds  float64
}

// DeepCase runs one case in this process and prints its outcome.
func DeepCase(name string) int {
	var dc *deepCase
	for i := range deepCases {
		if deepCases[i].Name == name {
			dc = &deepCases[i]
		}
	}
	if dc == nil {
		fmt.Println("unknown case")
		return 3
	}
	ctx, cancel := context.WithTimeout(context.Background(), 10*time.Minute)
	defer cancel()
	t0 := time.Now()
	var out deepOutcome
	short := func(s string) string {
		if len(s) > 200 {
			return s[:200]
		}
		return s
	}
	src := &core.ActionSource{Interpreter: dc.Interp, Source: dc.Body}
	switch dc.Position {
	case "boundary":
		spec := &core.Spec{Name: "deep", Nodes: map[string]*core.Node{"done": {},
			"start": {ActionSource: src, Branches: &core.Branches{Type: "bindings", Branches: []*core.Branch{{Target: "done"}}}}}}
		if err := spec.Compile(ctx, interpreters.Standard(), true); err != nil {
			fmt.Println("compile:", err)
			return 3
		}
		w, err := spec.Walk(ctx, &core.State{NodeName: "start", Bs: match.Bindings{"a": 1.0}}, nil, nil, nil)
		out.Returned = true
		if err != nil {
			out.Err = short(err.Error())
		}
		if w != nil && w.To() != nil {
			out.Node = w.To().NodeName
			if s, ok := w.To().Bs["error"].(string); ok {
				out.ErrText = short(s)
			}
			// what hosts do: the state inside a machine inside a crew file; the emitted
			// messages inside a result - written, and read back
			var emitted []interface{}
			w.DoEmitted(func(x interface{}) error { emitted = append(emitted, x); return nil })
			envelope := map[string]interface{}{"crew": map[string]interface{}{"machines": map[string]interface{}{"m": map[string]interface{}{"state": w.To()}}}, "result": map[string]interface{}{"emitted": []interface{}{emitted}}}
			js, merr := json.Marshal(envelope)
			if merr != nil {
				out.Err = "state cannot be stored: " + short(merr.Error())
			} else {
				var back interface{}
				if uerr := json.Unmarshal(js, &back); uerr != nil {
					out.Err = "what was stored cannot be read back: " + short(uerr.Error())
				}
			}
		}
	case "action", "guard":
		spec := &core.Spec{Name: "deep", Nodes: map[string]*core.Node{"done": {}, "other": {}}}
		if dc.Position == "action" {
			spec.Nodes["start"] = &core.Node{ActionSource: src, Branches: &core.Branches{Type: "bindings", Branches: []*core.Branch{{Target: "done"}}}}
		} else {
			spec.Nodes["start"] = &core.Node{Branches: &core.Branches{Type: "bindings", Branches: []*core.Branch{{GuardSource: src, Target: "done"}, {Target: "other"}}}}
		}
		if err := spec.Compile(ctx, interpreters.Standard(), true); err != nil {
			fmt.Println("compile:", err)
			return 3
		}
		w, err := spec.Walk(ctx, &core.State{NodeName: "start", Bs: match.Bindings{"a": 1.0}}, nil, nil, nil)
		out.Returned = true
		if err != nil {
			out.Err = short(err.Error())
		}
		if w != nil && w.To() != nil {
			out.Node = w.To().NodeName
			for _, k := range []string{"error", "actionError"} {
				if s, ok := w.To().Bs[k].(string); ok && s != "" {
					out.ErrText = short(s)
				}
			}
			// what a host does next with the state it was given: store it (and, one day,
			// read it back)
			if js, err := json.Marshal(w.To()); err != nil {
				out.Err = "state cannot be stored: " + short(err.Error())
			} else {
				var back interface{}
				if uerr := json.Unmarshal(js, &back); uerr != nil {
					out.Err = "what was stored cannot be read back: " + short(uerr.Error())
				}
			}
			var emitted []interface{}
			w.DoEmitted(func(x interface{}) error { emitted = append(emitted, x); return nil })
			if js, err := json.Marshal(emitted); err != nil {
				out.Err = "emitted messages cannot be sent: " + short(err.Error())
			} else {
				var back interface{}
				if uerr := json.Unmarshal(js, &back); uerr != nil {
					out.Err = "what was emitted cannot be read by its receiver: " + short(uerr.Error())
				}
			}
		}
	case "stdio":
		// (the parent names a directory under the check's own scratch area and removes it,
		// also when this process dies)
		dir := os.Getenv("VERIF_DEEPDIR")
		if dir == "" {
			var err error
			if dir, err = os.MkdirTemp("", "verif-c07-stdio"); err != nil {
				fmt.Println("tempdir:", err)
				return 3
			}
			defer os.RemoveAll(dir)
		}
		doc := map[string]interface{}{"nodes": map[string]interface{}{
			"start": map[string]interface{}{"branching": map[string]interface{}{"type": "message", "branches": []interface{}{
				map[string]interface{}{"pattern": map[string]interface{}{"go": "?g"}, "target": "do"},
				map[string]interface{}{"pattern": map[string]interface{}{"ping": "?p"}, "target": "pong"}}}},
			"do":   map[string]interface{}{"action": map[string]interface{}{"interpreter": "ecmascript", "source": dc.Body}, "branching": map[string]interface{}{"branches": []interface{}{map[string]interface{}{"target": "start"}}}},
			"pong": map[string]interface{}{"action": map[string]interface{}{"interpreter": "ecmascript", "source": `_.out({pong: _.bindings["?p"]}); return {};`}, "branching": map[string]interface{}{"branches": []interface{}{map[string]interface{}{"target": "start"}}}},
		}}
		line := func(x interface{}) string { b, _ := json.Marshal(x); return string(b) + "\n" }
		// (the machine that holds the value may well be unable to go on; another one answers)
		input := line(map[string]interface{}{"to": "captain", "update": map[string]interface{}{"m": map[string]interface{}{"spec": map[string]interface{}{"inline": doc}}, "other": map[string]interface{}{"spec": map[string]interface{}{"inline": doc}}}}) +
			line(map[string]interface{}{"to": "m", "go": 1}) + line(map[string]interface{}{"to": "other", "ping": "p1"}) + "quit\n"
		sio2 := sio.NewStdio(false)
		sio2.In = strings.NewReader(input)
		var buf lockedOut
		sio2.Out = &buf
		sio2.StateOutputFilename = dir + "/state.json"
		sio2.WriteStatePerMsg = true
		cctx, ccancel := context.WithCancel(ctx)
		defer ccancel()
		c, err := sio.NewCrew(cctx, &sio.CrewConf{Ctl: core.DefaultControl}, sio2)
		if err != nil {
			fmt.Println("crew:", err)
			return 3
		}
		go func() {
			<-sio2.InputEOF
			// the crew works the lines off before it stops
			for i := 0; i < 6000 && !strings.Contains(buf.String(), `"pong":"p1"`); i++ {
				time.Sleep(10 * time.Millisecond)
			}
			time.Sleep(100 * time.Millisecond)
			ccancel()
		}()
		lerr := c.Loop(cctx)
		out.Returned = true
		if lerr != nil && cctx.Err() == nil {
			out.Err = short(lerr.Error())
		}
		sio2.Stop(context.Background()) // (reports the same serialisation problem as an error; fine)
		out.Node = "survived"
		out.Alive = strings.Contains(buf.String(), `"pong":"p1"`)
	case "crew":
		c, _, err := siox.NewCrew(ctx, 50, 8, 8)
		if err != nil {
			fmt.Println("crew:", err)
			return 3
		}
		doc := map[string]interface{}{"name": "deep", "nodes": map[string]interface{}{
			"start": map[string]interface{}{"branching": map[string]interface{}{"type": "message", "branches": []interface{}{
				map[string]interface{}{"pattern": map[string]interface{}{"go": "?g"}, "target": "do"},
				map[string]interface{}{"pattern": map[string]interface{}{"ping": "?p"}, "target": "pong"}}}},
			"do":   map[string]interface{}{"action": map[string]interface{}{"interpreter": "ecmascript", "source": dc.Body}, "branching": map[string]interface{}{"branches": []interface{}{map[string]interface{}{"target": "start"}}}},
			"pong": map[string]interface{}{"action": map[string]interface{}{"interpreter": "ecmascript", "source": `_.out({pong: _.bindings["?p"]}); return {};`}, "branching": map[string]interface{}{"branches": []interface{}{map[string]interface{}{"target": "start"}}}},
			"error": map[string]interface{}{"branching": map[string]interface{}{"type": "message", "branches": []interface{}{
				map[string]interface{}{"pattern": map[string]interface{}{"ping": "?p"}, "target": "pong"}}}},
		}}
		js, _ := json.Marshal(doc)
		srcs, err := siox.Inline(string(js))
		if err == nil {
			err = c.SetMachine(ctx, "m", srcs, nil)
		}
		if err != nil {
			fmt.Println("machine:", err)
			return 3
		}
		res, err := c.ProcessMsg(ctx, map[string]interface{}{"go": true})
		out.Returned = true
		if err != nil {
			out.Err = short(err.Error())
		}
		if res != nil {
			// the couplings serialise what they are handed
			if _, err := json.Marshal(res.Changed); err != nil {
				out.Err = "changes cannot be stored: " + short(err.Error())
			}
			if _, err := json.Marshal(res.Emitted); err != nil {
				out.Err = "emitted messages cannot be sent: " + short(err.Error())
			}
		}
		if m := c.Machines["m"]; m != nil && m.State != nil {
			out.Node = m.State.NodeName
			if s, ok := m.State.Bs["error"].(string); ok {
				out.ErrText = short(s)
			}
		}
		res2, err2 := c.ProcessMsg(ctx, map[string]interface{}{"ping": "p1"})
		if err2 == nil && res2 != nil && strings.Contains(fw.Canon(res2.Emitted), `"pong":"p1"`) {
			out.Alive = true
		}
	}
	out.Seconds = time.Since(t0).Seconds()
	b, _ := json.Marshal(out)
	fmt.Println("OUTCOME " + string(b))
	return 0
}

// deepPart runs every case in a process of its own.
func deepPart(cfg fw.Config, rec *fw.Rec) {
	exe, err := os.Executable()
	if err != nil {
		rec.Inconclusive("deep values: cannot find this executable: " + err.Error())
		return
	}
	var wg sync.WaitGroup
	sem := make(chan struct{}, 4)
	for i := range deepCases {
		dc := deepCases[i]
		wg.Add(1)
		go func() {
			defer wg.Done()
			sem <- struct{}{}
			defer func() { <-sem }()
			rec.LogCase(0, map[string]interface{}{"deep_case": dc.Name})
			limit := 15 * time.Minute
			if strings.HasPrefix(dc.Name, "dag-") {
				limit = 3 * time.Minute // the script takes microseconds, the refusal under a second
			}
			ctx, cancel := context.WithTimeout(context.Background(), limit)
			defer cancel()
			cmd := exec.CommandContext(ctx, exe)
			scratch := filepath.Join(cfg.WorkDir, "deep-"+dc.Name)
			os.MkdirAll(scratch, 0755)
			defer os.RemoveAll(scratch)
			cmd.Env = append(os.Environ(), "VERIF_DEEPCASE="+dc.Name, "VERIF_DEEPDIR="+scratch)
			outb, err := cmd.CombinedOutput()
			rec.Eval(1)
			text := string(outb)
			replay := map[string]interface{}{"deep_case": dc.Name, "levels": deepLevels, "script": dc.Body, "position": dc.Position, "interpreter": dc.Interp}
			if ctx.Err() != nil {
				rec.Violation("C07:deep:hang:"+dc.Name, fmt.Sprintf("processing did not return within %v", limit), replay)
				return
			}
			idx := strings.LastIndex(text, "OUTCOME ")
			if err != nil || idx < 0 {
				first := ""
				for _, l := range strings.Split(text, "\n") {
					if strings.HasPrefix(l, "fatal error") || strings.HasPrefix(l, "panic") || strings.HasPrefix(l, "runtime: goroutine stack") {
						first += l + "; "
					}
				}
				rec.Violation("C07:deep:process-died:"+dc.Name, fmt.Sprintf("the process running the case %s died (%v): %s", dc.Name, err, first), replay)
				return
			}
			var o deepOutcome
			if json.Unmarshal([]byte(strings.TrimSpace(text[idx+8:])), &o) != nil || !o.Returned {
				rec.Inconclusive("deep values: unreadable outcome of " + dc.Name)
				return
			}
			rec.Bucket("deep_value_cases_survived")
			switch {
			case o.Err != "" && strings.Contains(o.Err, "cannot be"):
				if dc.Position == "boundary" {
					replay["levels"] = dc.Name
				}
				rec.Violation("C07:deep:unusable-result:"+dc.Name, "processing returned normally but handed the host something it cannot serialise: "+o.Err, replay)
			case dc.Position == "boundary":
				// accepted or refused - but if accepted it can be stored and read back (checked
				// above), and if refused the failure is surfaced
				if o.Node == "done" {
					rec.Bucket("deep_value_boundary_accepted_and_storable")
				} else if o.Node == "error" && o.ErrText != "" {
					rec.Bucket("deep_value_boundary_refused")
				} else {
					rec.Violation("C07:deep:not-surfaced:"+dc.Name, fmt.Sprintf("node %q, error text %q, err %q", o.Node, o.ErrText, o.Err), replay)
				}
			case dc.Position == "stdio":
				if !o.Alive {
					rec.Violation("C07:deep:crew-dead:"+dc.Name, "after the action left a value in its bindings that cannot be written to the state file, the Stdio-coupled crew no longer answers", replay)
					return
				}
				rec.Bucket("stdio_crew_survives_a_state_that_cannot_be_written")
			case dc.Name == "string-of-deep-array":
				// completes or fails; surviving is what matters
			case o.Err == "" && (o.Node != "error" || o.ErrText == ""):
				// a value this deep can be neither stored nor sent: the action must fail,
				// and the failure must be surfaced
				if dc.Position == "guard" && o.Node == "error" {
					break
				}
				rec.Violation("C07:deep:not-surfaced:"+dc.Name, fmt.Sprintf("a script handling a value nested %d levels deep neither failed nor was the failure surfaced: node %q, error text %q, err %q", deepLevels, o.Node, o.ErrText, o.Err), replay)
			default:
				rec.Bucket("deep_value_failures_surfaced")
				if dc.Position == "crew" {
					if !o.Alive {
						rec.Violation("C07:deep:crew-dead:"+dc.Name, "after the failing action the crew no longer processes messages", replay)
						return
					}
					rec.Bucket("deep_value_crew_still_alive")
				}
			}
			rec.Nontrivial("deep:" + dc.Name)
		}()
	}
	wg.Wait()
}
