package c19

// Guards given as source.  GuardSource is "source that will be compiled to the Guard": what
// decides is the source the session has when it runs - also when the session (or a copy of
// one of its outputs) has been run before, or a Guard was set as well.

import (
	"context"
	"time"

	"github.com/Comcast/sheens/core"
	"github.com/Comcast/sheens/interpreters"
	"github.com/Comcast/sheens/match"
	"github.com/Comcast/sheens/tools/expect"

	"verif/fw"
)

func guardSources(rec *fw.Rec) {
	accept := func() *core.ActionSource {
		return &core.ActionSource{Interpreter: "ecmascript", Source: "return _.bindings;"}
	}
	reject := func() *core.ActionSource {
		return &core.ActionSource{Interpreter: "ecmascript", Source: "return null;"}
	}
	run := func(tag string, s *expect.Session) (error, bool) {
		ctx, cancel := context.WithTimeout(context.Background(), 20*time.Second)
		defer cancel()
		var err error
		if rec.Guard("C19:guard-source", tag, func() { err = s.Run(ctx, "", "/bin/cat") }) {
			return nil, false
		}
		rec.Eval(1)
		return err, true
	}
	mk := func(inputs []interface{}, outs ...expect.Output) *expect.Session {
		return &expect.Session{ParsePatterns: true, DefaultTimeout: 150 * time.Millisecond, Interpreters: interpreters.Standard(),
			IOs: []expect.IO{{Inputs: inputs, OutputSet: outs}}}
	}
	ok := true
	// an expected output whose guard is tightened between two runs of the session
	{
		s := mk([]interface{}{`{"a":1}`}, expect.Output{Pattern: `{"a":"?x"}`, GuardSource: accept()})
		if err, ran := run("expected output, accepting guard source", s); !ran {
			return
		} else if err != nil {
			rec.Inconclusive("guard sources: a session whose guard accepts did not pass: " + err.Error())
			return
		}
		s.IOs[0].OutputSet[0].GuardSource = reject()
		s.IOs[0].OutputSet[0].Bindingss = nil
		if err, ran := run("expected output, guard source replaced by one that rejects", s); !ran {
			return
		} else if err == nil {
			rec.Violation("C19:unjustified-pass:guard-source-replaced", "a session whose only expected output has a guard source that rejects everything passed: the guard compiled from the source the output had in an earlier run decided", "expected {\"a\":\"?x\"} guard `return null;` (was `return _.bindings;` when the session ran before), stream {\"a\":1}")
			ok = false
		}
	}
	// a forbidden output whose guard is loosened between two runs
	{
		s := mk([]interface{}{`{"b":1}`, `{"a":1}`}, expect.Output{Pattern: `{"a":"?x"}`}, expect.Output{Pattern: `{"b":"?y"}`, Inverted: true, GuardSource: reject()})
		if err, ran := run("forbidden output, rejecting guard source", s); !ran {
			return
		} else if err != nil {
			rec.Inconclusive("guard sources: a session whose forbidden output's guard rejects did not pass: " + err.Error())
			return
		}
		for i := range s.IOs[0].OutputSet {
			s.IOs[0].OutputSet[i].Bindingss = nil
		}
		s.IOs[0].OutputSet[1].GuardSource = accept()
		if err, ran := run("forbidden output, guard source replaced by one that accepts", s); !ran {
			return
		} else if err == nil {
			rec.Violation("C19:unjustified-pass:guard-source-replaced", "a session whose forbidden output's guard source accepts everything passed although the forbidden message arrived: the guard compiled in an earlier run decided", "forbidden {\"b\":\"?y\"} guard `return _.bindings;` (was `return null;` when the session ran before), stream {\"b\":1},{\"a\":1}")
			ok = false
		}
	}
	// a Guard and a GuardSource on one output: the source is what gets compiled
	{
		native := &core.FuncAction{F: func(_ context.Context, bs match.Bindings, _ core.StepProps) (*core.Execution, error) {
			return core.NewExecution(bs.Copy()), nil
		}}
		s := mk([]interface{}{`{"a":1}`}, expect.Output{Pattern: `{"a":"?x"}`, Guard: native, GuardSource: reject()})
		if err, ran := run("expected output with an accepting Guard and a rejecting GuardSource", s); !ran {
			return
		} else if err == nil {
			rec.Violation("C19:unjustified-pass:guard-source-ignored", "an expected output whose guard source rejects everything counted as satisfied because a Guard was set as well", "expected {\"a\":\"?x\"}, Guard accepts, GuardSource `return null;`, stream {\"a\":1}")
			ok = false
		}
	}
	if ok {
		rec.Bucket("guard_sources_replaced_between_runs")
	}
}
