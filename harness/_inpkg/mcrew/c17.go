//go:build verif

package main

// C17 (mcrew Timers): an online trace monitor on timer events.  The harness is
// the emitter, so "during a firing" is deterministic: inside the callback it
// issues make / cancel requests on the firing id and on others.

import (
	"context"
	"encoding/json"
	"fmt"
	"math/rand"
	"sort"
	"sync"
	"sync/atomic"
	"time"

	"verif/fw"
)

type c17rec struct {
	id        string
	uid       string
	delay     time.Duration
	t0        time.Time // clock read before the request
	state     string    // requested | pending | rejected | fired | cancelled
	fired     int
	firedAt   time.Time
	cancelRet time.Time // when a successful cancel returned
	inner     []c17step // requests to issue from inside the firing callback
}

type c17step struct {
	Op    string    `json:"op"` // make cancel waitfire sleep
	Id    string    `json:"id,omitempty"`
	Long  bool      `json:"long,omitempty"`
	Ms    int       `json:"ms,omitempty"`
	Inner []c17step `json:"inner,omitempty"` // for make: requests issued by the handler of this timer's firing
}

type c17mon struct {
	mu       sync.Mutex
	rec      *fw.Rec
	ts       *Timers
	ctx      context.Context
	recs     map[string]*c17rec // by uid
	pending  map[string]string  // id -> uid (model)
	n        int
	scenario interface{}
	badFlag  int32
	firedC   chan string
	racing   bool
	active   int            // firing handlers in progress
	reqMu    sync.Mutex     // requests are issued one at a time (they still overlap with firings)
	opSeq    map[string]int // per id: bumped at the start and end of every request and at every firing
}

func (m *c17mon) violation(cls, why string) {
	atomic.StoreInt32(&m.badFlag, 1)
	m.rec.Violation("C17:mcrew:"+cls, why, m.scenario)
}

func (m *c17mon) isBad() bool { return atomic.LoadInt32(&m.badFlag) != 0 }

func uidOfMsg(x interface{}) string {
	if mm, ok := x.(map[string]interface{}); ok {
		s, _ := mm["uid"].(string)
		return s
	}
	return ""
}

func (m *c17mon) livePending() map[string]string {
	m.ts.Lock()
	defer m.ts.Unlock()
	out := map[string]string{}
	for id, te := range m.ts.timers {
		out[id] = uidOfMsg(te.Message)
	}
	return out
}

// doMake issues a make request.  Requests made by the handler of a firing use the context
// the emitter was called with, as the service's emitter does (Process -> toTimers -> Add).
func (m *c17mon) doMake(ctx context.Context, id string, long bool, ms int, inner []c17step, where string) {
	m.reqMu.Lock()
	defer m.reqMu.Unlock()
	m.mu.Lock()
	m.n++
	uid := fmt.Sprintf("t%d", m.n)
	d := time.Duration(ms) * time.Millisecond
	if long {
		d = 10 * time.Second
	}
	r := &c17rec{id: id, uid: uid, delay: d, state: "requested", inner: inner}
	m.recs[uid] = r
	prev := m.pending[id]
	m.opSeq[id]++
	seq0 := m.opSeq[id]
	r.t0 = time.Now()
	m.mu.Unlock()

	err := m.ts.Add(ctx, id, map[string]interface{}{"uid": uid, "id": id}, d)
	callEnd := time.Now()

	live := m.livePending()
	liveAt := time.Now()
	m.mu.Lock()
	defer m.mu.Unlock()
	// Strict (model-based) judgements only if nothing else happened to this id
	// during the call: no other request, no firing.
	strict := m.opSeq[id] == seq0 && !m.racing
	m.opSeq[id]++
	wasRacing := m.racing
	m.racing = !strict
	defer func() { m.racing = wasRacing }()
	if strict {
		m.rec.Bucket("strict_judgements")
	}
	m.rec.Eval(1)
	m.rec.Bucket("make_" + where)
	switch {
	case err == nil:
		// model first, judgements after (a judgement must not leave the model behind)
		if r.state == "requested" {
			r.state = "pending"
			m.pending[id] = uid
		}
		m.rec.Bucket("accepted")
		if where == "inside_firing_handler_same_id" {
			m.rec.Bucket("recreated_in_handler_of_same_id")
		}
		if prev != "" && m.recs[prev].state == "pending" && !m.racing {
			// a true duplicate only if the previous timer cannot have begun firing:
			// it was not yet due when this call returned (timers never fire early)
			p := m.recs[prev]
			if callEnd.Before(p.t0.Add(p.delay)) {
				m.violation("duplicate-id-accepted", fmt.Sprintf("make %s accepted while timer %s with the same id is pending and not due", id, prev))
				return
			}
		}
		if live[id] != uid && r.fired == 0 && !m.racing && liveAt.Before(r.t0.Add(r.delay)) {
			m.violation("accepted-but-not-pending", fmt.Sprintf("make %s (%s) succeeded but the pending map holds %q", id, uid, live[id]))
			return
		}
	case err == Exists:
		r.state = "rejected"
		if (prev == "" || m.recs[prev].state != "pending") && !m.racing {
			m.violation("id-not-reusable", fmt.Sprintf("make %s (%s) answered 'id exists' although no timer with that id is pending (previous: %s)", id, where, describe(m.recs[prev])))
			return
		}
		m.rec.Bucket("rejected_duplicate")
	default:
		r.state = "rejected"
		m.violation("make-error", fmt.Sprintf("make %s: %v", id, err))
	}
}

func describe(r *c17rec) string {
	if r == nil {
		return "none"
	}
	return r.uid + " " + r.state
}

func (m *c17mon) doCancel(ctx context.Context, id string, where string) {
	m.reqMu.Lock()
	defer m.reqMu.Unlock()
	m.mu.Lock()
	uid := m.pending[id]
	m.opSeq[id]++
	seq0 := m.opSeq[id]
	m.mu.Unlock()

	err := m.ts.Rem(ctx, id)
	now := time.Now()

	m.mu.Lock()
	defer m.mu.Unlock()
	strict := m.opSeq[id] == seq0 && !m.racing
	m.opSeq[id]++
	wasRacing := m.racing
	m.racing = !strict
	defer func() { m.racing = wasRacing }()
	if strict {
		m.rec.Bucket("strict_judgements")
	}
	m.rec.Eval(1)
	m.rec.Bucket("cancel_" + where)
	switch {
	case err == nil:
		if uid == "" {
			if !m.racing {
				m.violation("cancel-of-nothing-succeeded", fmt.Sprintf("cancel %s succeeded although no timer with that id is pending", id))
			}
			return
		}
		r := m.recs[uid]
		if r.state == "pending" {
			r.state = "cancelled"
			r.cancelRet = now
			delete(m.pending, id)
			m.rec.Bucket("cancelled")
			if where == "inside_firing_handler_other_id" || where == "inside_firing_handler_same_id" {
				m.rec.Bucket("cancelled_from_handler")
			}
		}
	case err == NotFound:
		if uid != "" && m.recs[uid].state == "pending" && !m.racing {
			// the timer may have begun firing concurrently; then it is no longer pending
			if m.recs[uid].fired == 0 && time.Since(m.recs[uid].t0) < m.recs[uid].delay {
				m.violation("pending-timer-not-cancellable", fmt.Sprintf("cancel %s answered 'not found' although timer %s is pending and not due", id, uid))
			}
		}
	default:
		m.violation("cancel-error", fmt.Sprintf("cancel %s: %v", id, err))
	}
}

// emit is the timers' emitter: the firing callback.
func (m *c17mon) emit(ctx context.Context, msg interface{}) error {
	now := time.Now()
	uid := uidOfMsg(msg)
	m.mu.Lock()
	r := m.recs[uid]
	if r == nil {
		m.violation("fired-unknown", "a timer fired that was never requested: "+fw.Short(msg))
		m.mu.Unlock()
		return nil
	}
	r.fired++
	m.opSeq[r.id]++
	m.rec.Bucket("fired")
	if r.fired > 1 {
		m.violation("fired-twice", fmt.Sprintf("timer %s (%s) fired %d times", r.id, uid, r.fired))
	}
	if due := r.t0.Add(r.delay); now.Before(due) {
		m.violation("fired-early", fmt.Sprintf("timer %s fired %v before its due time", uid, due.Sub(now)))
	}
	if r.state == "cancelled" && r.cancelRet.Before(now) {
		m.violation("fired-after-cancel", fmt.Sprintf("timer %s (%s) fired %v after its cancel had returned", r.id, uid, now.Sub(r.cancelRet)))
	}
	if r.state == "rejected" {
		m.violation("rejected-timer-fired", fmt.Sprintf("timer %s (%s) fired although its request was rejected", r.id, uid))
	}
	if r.state == "pending" || r.state == "requested" {
		r.state = "fired"
		r.firedAt = now
		if m.pending[r.id] == uid {
			delete(m.pending, r.id) // the id is free for reuse from the moment it fires
		}
	}
	inner := r.inner
	id := r.id
	m.active++
	m.mu.Unlock()
	defer func() {
		m.mu.Lock()
		m.active--
		m.mu.Unlock()
	}()
	for _, st := range inner {
		where := "inside_firing_handler_other_id"
		if st.Id == id {
			where = "inside_firing_handler_same_id"
		}
		switch st.Op {
		case "make":
			m.doMake(ctx, st.Id, st.Long, st.Ms, st.Inner, where)
		case "cancel":
			m.doCancel(ctx, st.Id, where)
		}
	}
	select {
	case m.firedC <- uid:
	default:
	}
	return nil
}

// quiesce waits until no short timer is pending (bounded), then compares the
// reported pending set with the model.
func (m *c17mon) quiesce() {
	deadline := time.Now().Add(30 * time.Second)
	for {
		m.mu.Lock()
		waiting := ""
		for _, r := range m.recs {
			if (r.state == "pending" || r.state == "requested") && r.delay < time.Second {
				waiting = r.uid
			}
		}
		busy := m.active > 0
		m.mu.Unlock()
		if waiting == "" && !busy {
			break
		}
		if waiting == "" {
			time.Sleep(200 * time.Microsecond)
			continue
		}
		if time.Now().After(deadline) {
			m.mu.Lock()
			r := m.recs[waiting]
			live := ""
			m.mu.Unlock()
			if l := m.livePending(); l[r.id] == r.uid {
				live = " (still in the pending map)"
			}
			m.mu.Lock()
			cls := "lost-timer"
			if live != "" {
				cls = "not-fired-within-bound"
			}
			m.violation(cls, fmt.Sprintf("accepted timer %s (%s, %v) has neither fired nor been cancelled 30 s after its due time%s", r.id, r.uid, r.delay, live))
			m.mu.Unlock()
			return
		}
		time.Sleep(time.Millisecond)
	}
	time.Sleep(3 * time.Millisecond) // let the last firing goroutine finish its bookkeeping
	var live map[string]string
	for try := 0; try < 200; try++ {
		live = m.livePending()
		m.mu.Lock()
		same := fw.Canon(live) == fw.Canon(m.pending)
		m.mu.Unlock()
		if same {
			break
		}
		time.Sleep(2 * time.Millisecond)
	}
	m.mu.Lock()
	model := fw.Canon(m.pending)
	modelMap := fmt.Sprint(m.pending)
	m.mu.Unlock()
	if fw.Canon(live) != model {
		m.violation("pending-set-differs", fmt.Sprintf("the pending map holds %v, but accepted minus fired minus cancelled is %v", live, modelMap))
		return
	}
	// what the timers report (MarshalJSON) must say the same
	js, err := json.Marshal(m.ts)
	if err != nil {
		m.violation("report-error", err.Error())
		return
	}
	m.mu.Lock()
	defer m.mu.Unlock()
	if fw.Canon(m.pending) != model || m.active > 0 {
		return // the model moved on while reporting (only long timers can be pending here; be safe)
	}
	var rep struct {
		Map map[string]struct {
			Message map[string]interface{} `json:"message"`
		} `json:"map"`
	}
	json.Unmarshal(js, &rep)
	reported := map[string]string{}
	for id, e := range rep.Map {
		reported[id], _ = e.Message["uid"].(string)
	}
	if fw.Canon(reported) != fw.Canon(m.pending) {
		m.violation("reported-pending-differs", fmt.Sprintf("timers report %v pending, the model says %v", reported, m.pending))
		return
	}
	m.rec.Bucket("quiescent_points_compared")
}

func genC17Steps(r *rand.Rand, depth int) []c17step {
	ids := []string{"x", "y"}
	n := 2 + r.Intn(4)
	if depth > 0 {
		n = 1 + r.Intn(2)
	}
	var out []c17step
	for i := 0; i < n; i++ {
		id := ids[r.Intn(2)]
		switch k := r.Intn(10); {
		case k < 5:
			st := c17step{Op: "make", Id: id, Ms: 2 + r.Intn(19), Long: r.Intn(6) == 0}
			if depth < 2 && r.Intn(2) == 0 && !st.Long {
				st.Inner = genC17Steps(r, depth+1)
				// bias: act on the firing id itself
				if r.Intn(2) == 0 {
					st.Inner = append([]c17step{{Op: "make", Id: id, Ms: 2 + r.Intn(10)}}, st.Inner...)
				} else if r.Intn(2) == 0 {
					st.Inner = append([]c17step{{Op: "cancel", Id: id}, {Op: "make", Id: id, Ms: 2 + r.Intn(10), Long: r.Intn(3) == 0}}, st.Inner...)
				}
			}
			out = append(out, st)
		case k < 7:
			out = append(out, c17step{Op: "cancel", Id: id})
		case k < 9 && depth == 0:
			out = append(out, c17step{Op: "sleep", Ms: 1 + r.Intn(25)})
		default:
			if depth == 0 {
				out = append(out, c17step{Op: "quiesce"})
			}
		}
	}
	return out
}

func c17Scenario(cfg fw.Config, rec *fw.Rec, i int) {
	r := cfg.Rng("c17-mcrew", i)
	steps := genC17Steps(r, 0)
	// a cancellable re-creation after firing: make, wait, (handler re-creates), cancel
	if i%3 == 0 {
		steps = append(steps, c17step{Op: "quiesce"},
			c17step{Op: "make", Id: "x", Ms: 3, Inner: []c17step{{Op: "make", Id: "x", Long: true}}},
			c17step{Op: "sleep", Ms: 15}, c17step{Op: "cancel", Id: "x"}, c17step{Op: "quiesce"})
	}
	steps = append(steps, c17step{Op: "quiesce"})
	ctx, cancel := context.WithCancel(context.Background())
	defer cancel()
	m := &c17mon{rec: rec, ctx: ctx, recs: map[string]*c17rec{}, pending: map[string]string{}, opSeq: map[string]int{}, scenario: map[string]interface{}{"steps": steps, "index": i}, firedC: make(chan string, 64)}
	m.ts = NewTimers(m.emit)
	for _, st := range steps {
		if m.isBad() {
			break
		}
		switch st.Op {
		case "make":
			m.doMake(m.ctx, st.Id, st.Long, st.Ms, st.Inner, "outside")
		case "cancel":
			m.doCancel(m.ctx, st.Id, "outside")
		case "sleep":
			time.Sleep(time.Duration(st.Ms) * time.Millisecond)
		case "quiesce":
			m.quiesce()
		}
	}
	if !m.isBad() {
		fired := 0
		m.mu.Lock()
		for _, rr := range m.recs {
			fired += rr.fired
		}
		m.mu.Unlock()
		if fired > 0 {
			rec.Nontrivial(fw.Canon(steps))
			if i%60 == 1 {
				rec.Sample(map[string]interface{}{"mcrew_timer_scenario": steps, "timers_fired": fired})
			}
		}
	}
	// stop long timers
	cancel()
}

// c17Racing: a requester goroutine races the firing goroutines on the same ids.
func c17Racing(cfg fw.Config, rec *fw.Rec, i int) {
	r := cfg.Rng("c17-mcrew-race", i)
	ctx, cancel := context.WithCancel(context.Background())
	defer cancel()
	m := &c17mon{rec: rec, ctx: ctx, recs: map[string]*c17rec{}, pending: map[string]string{}, opSeq: map[string]int{}, scenario: fmt.Sprintf("racing scenario %d", i), firedC: make(chan string, 1024), racing: true}
	m.ts = NewTimers(m.emit)
	var wg sync.WaitGroup
	for g := 0; g < 3; g++ {
		wg.Add(1)
		seed := r.Int63()
		go func() {
			defer wg.Done()
			rr := rand.New(rand.NewSource(seed))
			for k := 0; k < 40; k++ {
				id := []string{"x", "y"}[rr.Intn(2)]
				if rr.Intn(3) > 0 {
					var inner []c17step
					if rr.Intn(3) == 0 {
						inner = []c17step{{Op: "cancel", Id: id}, {Op: "make", Id: id, Ms: 1 + rr.Intn(4)}}
					}
					m.doMake(m.ctx, id, false, 1+rr.Intn(5), inner, "racing")
				} else {
					m.doCancel(m.ctx, id, "racing")
				}
				if rr.Intn(2) == 0 {
					time.Sleep(time.Duration(rr.Intn(3000)) * time.Microsecond)
				}
			}
		}()
	}
	wg.Wait()
	// in racing mode the model's pending map is approximate; judge per-timer facts only
	// (at most once, never early, never after a returned cancel), then wait for quiescence.
	deadline := time.Now().Add(30 * time.Second)
	for {
		if len(m.livePending()) == 0 {
			break
		}
		if time.Now().After(deadline) {
			m.violation("not-fired-within-bound", fmt.Sprintf("timers still pending 30 s after the last request: %v", m.livePending()))
			return
		}
		time.Sleep(2 * time.Millisecond)
	}
	if !m.isBad() {
		rec.Bucket("racing_scenarios")
		rec.Nontrivial(fmt.Sprintf("racing-%d-%d", cfg.Seed, i))
	}
}

func init() {
	verifRegistry["C17/mcrew"] = func(cfg fw.Config, rec *fw.Rec) {
		rec.Rule = "mcrew Timers, in-package, the harness is the emitter: scenarios of 3-12 make / cancel / sleep / quiesce requests over ids {x,y} with delays 2-20 ms and 10 s; a make may carry requests that the handler of its firing issues (on the firing id itself - re-create, cancel+re-create - and on the other id), nested up to 2 deep; an online monitor checks per timer: fired at most once, not before clock-before-request + delay, never after a cancel that had returned, duplicate ids rejected only while pending, a fired id reusable from inside its handler, a re-created timer cancellable; at quiescent points the live pending map and the MarshalJSON report must equal accepted - fired - cancelled; plus racing requester goroutines; plus timer requests as messages through Service.Process (timers_glue.go) that name their due time as a delay ('in') or an instant ('at': UTC, with a zone offset, in the past, an hour ahead), some deleted before they are due: processed not before the instant asked for, once, not after a deleteTimer was answered, pending exactly while neither fired nor deleted; under -race; sio part: see the sio batch; non-trivial = scenario in which a timer fired; distinct by scenario"
		rec.Required = []string{"fired", "cancelled", "accepted", "rejected_duplicate", "recreated_in_handler_of_same_id", "cancelled_from_handler", "quiescent_points_compared", "racing_scenarios", "make_inside_firing_handler_same_id", "cancel_inside_firing_handler_same_id", "timer_requests_as_messages_with_in_and_at"}
		rec.Assume = []string{"'never early' compares the clock read before the request plus the delay with the clock read at handler entry (cannot be late)", "bounded progress: a short timer must have fired within 30 s of its due time"}
		n := cfg.Pick(250, 8000)
		fw.Parallel(8, n, func(w, i int) { c17Scenario(cfg, rec, i) })
		for i := 0; i < cfg.Pick(10, 80); i++ {
			c17Racing(cfg, rec, i)
		}
		fw.Parallel(4, cfg.Pick(4, 24), func(w, i int) { c17Glue(cfg, rec, i) })
		keys := []string{}
		_ = sort.Strings
		_ = keys
	}
}
