//go:build verif

package main

// C16 (mcrew): memory advances only with a successful write; requests are
// serialised.  Sequential part: a memory-vs-store comparator with enumerated
// store faults (the bolt database is closed for operations i..j-1 of a
// sequence, for every 0 <= i < j <= n).  Concurrent part: recorded client
// histories checked with porcupine against a sequential service model, a
// From/To chain check, and a final memory-vs-store comparison, with every
// write to the store delayed through the verifPoint hook.

import (
	"bufio"
	"bytes"
	"context"
	"encoding/json"
	"fmt"
	"io"
	"math/rand"
	"os"
	"path/filepath"
	"sort"
	"strings"
	"sync"
	"sync/atomic"
	"syscall"
	"time"

	"github.com/anishathalye/porcupine"

	"github.com/Comcast/sheens/core"
	"github.com/Comcast/sheens/crew"
	"github.com/Comcast/sheens/match"

	"verif/fw"
)

const c16CounterSpec = `name: counter
doc: Counts the messages it is presented with.
patternsyntax: json
paramspecs:
  greeting:
    default: hi
nodes:
  start:
    branching:
      type: message
      branches:
      - pattern: |
          {"uid":"?u","d":"?d","only":"?only","relay":"?relay"}
        target: bump
      - pattern: |
          {"uid":"?u","d":"?d","only":"?only"}
        target: bump
      - pattern: |
          {"uid":"?u"}
        target: bump
  bump:
    action:
      interpreter: ecmascript
      source: |-
        var bs = _.bindings;
        bs.n = (bs.n || 0) + 1;
        bs.last = bs["?u"];
        if (bs["?d"] !== undefined && bs["?only"] === bs.self) { bs.q = 100 / bs["?d"]; }
        if (bs["?relay"] !== undefined) { _.out({to: bs["?relay"], uid: bs["?u"] + "r"}); }
        delete bs["?u"];
        delete bs["?d"];
        delete bs["?only"];
        delete bs["?relay"];
        return bs;
    branching:
      branches:
      - target: start
`

type c16op struct {
	Kind string `json:"kind"` // add rem to all get
	Id   string `json:"id,omitempty"`
}

// c16last remembers the previous add / process so that "again" can repeat it verbatim.
type c16last struct {
	kind string
	id   string
	uid  string
	inc  float64
}

type c16env struct {
	last    c16last
	s       *Service
	ctx     context.Context
	cancel  context.CancelFunc
	dir     string
	incN    int64
	uidN    int64
	closed  bool
	specDir string
	sess    *c16session // if set, operations are requests over the service's line protocol
	// commitFaults: store faults are injected at the commit of a transaction only
	commitFaults      bool
	brokenFd, savedFd int
}

func newC16Env(workdir string, tag string) (*c16env, error) {
	dir := filepath.Join(workdir, tag)
	specDir := filepath.Join(dir, "specs")
	if err := os.MkdirAll(specDir, 0755); err != nil {
		return nil, err
	}
	if err := os.WriteFile(filepath.Join(specDir, "counter.yaml"), []byte(c16CounterSpec), 0644); err != nil {
		return nil, err
	}
	ctx, cancel := context.WithCancel(context.Background())
	s, err := NewService(ctx, specDir, filepath.Join(dir, "crew.db"), "")
	if err != nil {
		cancel()
		return nil, err
	}
	s.store.db.NoSync = true // durability is not what is monitored; commits need not reach the disk
	return &c16env{s: s, ctx: ctx, cancel: cancel, dir: dir, specDir: specDir}, nil
}

func (e *c16env) close() {
	e.mendCommit()
	if e.sess != nil {
		e.sess.w.Close()
	}
	if e.closed {
		e.s.store.Open(e.ctx)
		e.closed = false
	}
	e.s.store.db.Close()
	e.cancel()
	os.RemoveAll(e.dir)
}

// breakCommit makes the store fail at one point only - when a transaction is committed:
// the descriptor of the database file is replaced by a read-only one, so that beginning a
// transaction, reading and putting all work (they go through the memory map and the
// transaction's own pages) and the write at commit fails.  mendCommit puts it back.
func (e *c16env) breakCommit() bool {
	path := filepath.Join(e.dir, "crew.db")
	ents, err := os.ReadDir("/proc/self/fd")
	if err != nil {
		return false
	}
	fd := -1
	for _, ent := range ents {
		if l, err := os.Readlink("/proc/self/fd/" + ent.Name()); err == nil && l == path {
			fmt.Sscan(ent.Name(), &fd)
		}
	}
	if fd < 0 {
		return false
	}
	ro, err := os.Open(path)
	if err != nil {
		return false
	}
	saved, err := syscall.Dup(fd)
	if err != nil {
		ro.Close()
		return false
	}
	if err := syscall.Dup3(int(ro.Fd()), fd, 0); err != nil {
		syscall.Close(saved)
		ro.Close()
		return false
	}
	ro.Close()
	e.brokenFd, e.savedFd = fd, saved
	return true
}

func (e *c16env) mendCommit() {
	if e.savedFd > 0 {
		syscall.Dup3(e.savedFd, e.brokenFd, 0)
		syscall.Close(e.savedFd)
		e.savedFd, e.brokenFd = 0, 0
	}
}

// failStore makes every write fail (the database is closed); healStore reopens it.
func (e *c16env) failStore() {
	if e.commitFaults {
		if e.savedFd == 0 && !e.breakCommit() {
			e.commitFaults = false // not possible here: fall back to closing the database
		} else {
			return
		}
	}
	if !e.closed {
		e.s.store.db.Close()
		e.closed = true
	}
}

func (e *c16env) healStore() error {
	e.mendCommit()
	if e.closed {
		if err := e.s.store.Open(e.ctx); err != nil {
			return err
		}
		e.s.store.db.NoSync = true
		e.closed = false
	}
	return nil
}

// memory returns the in-memory crew in comparable form.
func (e *c16env) memory() map[string]string {
	c := e.s.crew.Copy()
	out := map[string]string{}
	for id, m := range c.Machines {
		name := ""
		if m.SpecSource != nil {
			name = m.SpecSource.Name
		}
		out[id] = name + "@" + m.State.NodeName + "/" + fw.Canon(m.State.Bs)
	}
	return out
}

// stored returns the persisted crew in comparable form.
func (e *c16env) stored() (map[string]string, error) {
	mss, err := e.s.store.GetCrew(e.ctx, e.s.crewName)
	if err != nil {
		return nil, err
	}
	out := map[string]string{}
	for _, ms := range mss {
		name := ""
		if ms.SpecSource != nil {
			name = ms.SpecSource.Name
		}
		out[ms.Mid] = name + "@" + ms.NodeName + "/" + fw.Canon(ms.Bs)
	}
	return out, nil
}

// c16session is one client connection to the service's line protocol (Service.Listener,
// what the TCP and WebSocket services run per connection): requests are JSON lines.
type c16session struct {
	w     *io.PipeWriter
	lines chan string
	last  string
}

type c16lineWriter struct {
	buf   []byte
	lines chan string
}

func (w *c16lineWriter) Write(p []byte) (int, error) {
	w.buf = append(w.buf, p...)
	for {
		i := bytes.IndexByte(w.buf, '\n')
		if i < 0 {
			return len(p), nil
		}
		w.lines <- string(w.buf[:i])
		w.buf = w.buf[i+1:]
	}
}

func (e *c16env) openSession() {
	pr, pw := io.Pipe()
	lw := &c16lineWriter{lines: make(chan string, 64)}
	e.sess = &c16session{w: pw, lines: lw.lines}
	go func() {
		e.s.Listener(e.ctx, bufio.NewReader(pr), lw, make(chan bool, 1))
		close(lw.lines)
	}()
}

// request sends one line and waits for the one-line answer.
func (c *c16session) request(line string) (map[string]interface{}, error) {
	c.last = line
	if _, err := c.w.Write([]byte(line + "\n")); err != nil {
		return nil, err
	}
	select {
	case l, ok := <-c.lines:
		if !ok {
			return nil, fmt.Errorf("connection closed by the service")
		}
		var m map[string]interface{}
		if err := json.Unmarshal([]byte(l), &m); err != nil {
			return nil, fmt.Errorf("unreadable answer %q", l)
		}
		if es, ok := m["error"].(string); ok {
			return m, fmt.Errorf("%s", es)
		}
		if es, ok := m["err"].(string); ok && es != "" {
			return m, fmt.Errorf("%s", es)
		}
		if cop, ok := m["cop"].(map[string]interface{}); ok {
			for _, v := range cop {
				if vm, ok := v.(map[string]interface{}); ok {
					if es, ok := vm["err"].(string); ok && es != "" {
						return m, fmt.Errorf("%s", es)
					}
				}
			}
		}
		return m, nil
	case <-time.After(60 * time.Second):
		return nil, fmt.Errorf("no answer within 60 s")
	}
}

func (e *c16env) applyViaListener(o c16op) (result string, err error) {
	js := func(x interface{}) string { b, _ := json.Marshal(x); return string(b) }
	var line string
	switch o.Kind {
	case "again":
		if e.sess.last == "" || strings.Contains(e.sess.last, "getCrew") {
			return "again: nothing to repeat", nil
		}
		line = e.sess.last
	case "add":
		inc := atomic.AddInt64(&e.incN, 1)
		line = js(map[string]interface{}{"cop": map[string]interface{}{"add": map[string]interface{}{"m": map[string]interface{}{
			"id": o.Id, "spec": map[string]interface{}{"name": "counter"},
			"state": map[string]interface{}{"node": "start", "bs": map[string]interface{}{"inc": float64(inc), "n": 0.0, "self": o.Id}}}}}})
	case "addbare":
		line = js(map[string]interface{}{"cop": map[string]interface{}{"add": map[string]interface{}{"m": map[string]interface{}{
			"id": o.Id, "spec": map[string]interface{}{"name": "counter"}, "state": map[string]interface{}{"node": "start"}}}}})
	case "rem":
		line = js(map[string]interface{}{"cop": map[string]interface{}{"rem": map[string]interface{}{"id": o.Id}}})
	case "to", "all", "poison", "poisonrelay", "to-limited":
		uid := fmt.Sprintf("u%d", atomic.AddInt64(&e.uidN, 1))
		msg := map[string]interface{}{"uid": uid}
		switch o.Kind {
		case "to", "to-limited":
			msg["to"] = o.Id
		case "poison":
			msg["d"] = 0.0
			msg["only"] = o.Id
		case "poisonrelay":
			msg["to"] = o.Id
			msg["d"] = 0.0
			msg["only"] = o.Id
			msg["relay"] = map[string]string{"m1": "m2", "m2": "m3", "m3": "m1"}[o.Id]
		}
		proc := map[string]interface{}{"message": msg}
		if o.Kind == "to-limited" {
			// the request's own step limit ends the walk in the middle of the machine's work
			proc["ctl"] = map[string]interface{}{"limit": 1}
		}
		line = js(map[string]interface{}{"cop": map[string]interface{}{"process": proc}})
	case "get":
		line = js(map[string]interface{}{"getCrew": map[string]interface{}{}})
	default:
		return "", fmt.Errorf("unknown op")
	}
	m, err := e.sess.request(line)
	if o.Kind == "poisonrelay" {
		e.settle()
	}
	if err != nil {
		return o.Kind + ": " + err.Error(), err
	}
	return o.Kind + " answered " + fw.Short(m), nil
}

// settle waits for the asynchronous processing of emitted messages.  Other sequences run
// in parallel, so the goroutine profile cannot tell whose processing it sees: wait a fixed
// while, generous for one message to one counter machine.
func (e *c16env) settle() {
	time.Sleep(60 * time.Millisecond)
}

func (e *c16env) apply(o c16op) (result string, err error) {
	if strings.HasSuffix(o.Kind, "-cancelled") {
		// the same request under a context that is already cancelled (a client that gave up):
		// whatever the service makes of it, memory and store must move together
		base := strings.TrimSuffix(o.Kind, "-cancelled")
		cctx, cancel := context.WithCancel(e.ctx)
		cancel()
		switch base {
		case "add":
			inc := atomic.AddInt64(&e.incN, 1)
			err = e.s.AddMachine(cctx, "counter", o.Id, "start", match.Bindings{"inc": float64(inc), "n": 0.0, "self": o.Id})
		case "rem":
			err = e.s.RemMachine(cctx, o.Id)
		default:
			uid := fmt.Sprintf("u%d", atomic.AddInt64(&e.uidN, 1))
			msg := map[string]interface{}{"uid": uid}
			if base == "to" {
				msg["to"] = o.Id
			}
			_, err = e.s.Process(cctx, msg, nil)
		}
		e.last = c16last{kind: "cancelled"}
		return fmt.Sprintf("%s under a cancelled context: err=%v", base, err), err
	}
	if e.sess != nil {
		return e.applyViaListener(o)
	}
	switch o.Kind {
	case "again":
		// a client retries its previous request verbatim
		switch e.last.kind {
		case "add":
			err = e.s.AddMachine(e.ctx, "counter", e.last.id, "start", match.Bindings{"inc": e.last.inc, "n": 0.0, "self": e.last.id})
			return "again add", err
		case "to", "all":
			msg := map[string]interface{}{"uid": e.last.uid}
			if e.last.kind == "to" {
				msg["to"] = e.last.id
			}
			_, err = e.s.Process(e.ctx, msg, nil)
			return "again process", err
		}
		return "again: nothing to repeat", nil
	case "addbare":
		// an add request that gives a node and no bindings (the spec has a parameter with
		// a default, which the operation fills in)
		e.last = c16last{kind: "addbare"}
		op := &OpAdd{Machine: &crew.Machine{Id: o.Id, SpecSource: &crew.SpecSource{Name: "counter"}, State: &core.State{NodeName: "start"}}}
		if err = op.Do(e.ctx, e.s); err == nil {
			err = op.Error
		}
		if err == nil {
			return "added without bindings", nil
		}
		return "addbare: " + err.Error(), err
	case "add":
		inc := atomic.AddInt64(&e.incN, 1)
		e.last = c16last{kind: "add", id: o.Id, inc: float64(inc)}
		err = e.s.AddMachine(e.ctx, "counter", o.Id, "start", match.Bindings{"inc": float64(inc), "n": 0.0, "self": o.Id})
		if err == nil {
			return fmt.Sprintf("added inc=%d", inc), nil
		}
		return "add: " + err.Error(), err
	case "rem":
		err = e.s.RemMachine(e.ctx, o.Id)
		if err == nil {
			return "removed", nil
		}
		return "rem: " + err.Error(), err
	case "to", "all", "to-limited":
		uid := fmt.Sprintf("u%d", atomic.AddInt64(&e.uidN, 1))
		e.last = c16last{kind: o.Kind, id: o.Id, uid: uid}
		msg := map[string]interface{}{"uid": uid}
		if o.Kind != "all" {
			msg["to"] = o.Id
		}
		var ctl *core.Control
		if o.Kind == "to-limited" {
			// the request's own step limit ends the walk in the middle of the machine's work
			ctl = &core.Control{Limit: 1}
			e.last = c16last{kind: "limited"}
		}
		var ws map[string]*core.Walked
		ws, err = e.s.Process(e.ctx, msg, ctl)
		if err != nil {
			return "process: " + err.Error(), err
		}
		ids := []string{}
		for id := range ws {
			ids = append(ids, id)
		}
		sort.Strings(ids)
		out := ""
		for _, id := range ids {
			w := ws[id]
			from, to := "-", "-"
			if f := w.From(); f != nil {
				from = fmt.Sprintf("%v.%v", f.Bs["inc"], f.Bs["n"])
			}
			if t := w.To(); t != nil {
				to = fmt.Sprintf("%v.%v", t.Bs["inc"], t.Bs["n"])
			}
			out += id + ":" + from + ">" + to + " "
		}
		return out, nil
	case "poisonrelay":
		// as "poison", addressed to o.Id only, whose action also emits a message to another
		// machine: the request fails at the store, so nothing of it may take effect
		uid := fmt.Sprintf("u%d", atomic.AddInt64(&e.uidN, 1))
		e.last = c16last{kind: "poison"}
		other := map[string]string{"m1": "m2", "m2": "m3", "m3": "m1"}[o.Id]
		_, err = e.s.Process(e.ctx, map[string]interface{}{"uid": uid, "to": o.Id, "d": 0.0, "only": o.Id, "relay": other}, nil)
		// what the request emitted (if anything) is processed asynchronously: let it settle
		e.settle()
		if err != nil {
			return "poisonrelay: " + err.Error(), err
		}
		return "poisonrelay: no error", nil
	case "poison":
		// a request to every machine that leaves machine o.Id (only) with a state the
		// store cannot serialise (q = 100/0): the write of the whole request fails
		uid := fmt.Sprintf("u%d", atomic.AddInt64(&e.uidN, 1))
		e.last = c16last{kind: "poison"}
		_, err = e.s.Process(e.ctx, map[string]interface{}{"uid": uid, "d": 0.0, "only": o.Id}, nil)
		if err != nil {
			return "poison: " + err.Error(), err
		}
		return "poison: no error", nil
	case "get":
		return fw.Canon(e.memory()), nil
	}
	return "", fmt.Errorf("unknown op")
}

func genC16Seq(r *rand.Rand, n int) []c16op {
	ids := []string{"m1", "m2", "m3"}
	var seq []c16op
	for i := 0; i < n; i++ {
		id := ids[r.Intn(3)]
		switch k := r.Intn(10); {
		case k < 3:
			seq = append(seq, c16op{"add", id})
		case k < 5:
			seq = append(seq, c16op{"rem", id})
		case k < 7:
			seq = append(seq, c16op{"to", id})
		case k == 7:
			seq = append(seq, c16op{"again", ""})
		case k == 8:
			seq = append(seq, c16op{"all", ""})
		default:
			switch r.Intn(6) {
			case 4:
				seq = append(seq, c16op{"to-limited", id})
			case 5:
				seq = append(seq, c16op{"addbare", id})
			case 0:
				seq = append(seq, c16op{"poisonrelay", id})
			case 1:
				seq = append(seq, c16op{"poison", id})
			case 2:
				seq = append(seq, c16op{[]string{"to-cancelled", "all-cancelled", "add-cancelled", "rem-cancelled"}[r.Intn(4)], id})
			default:
				seq = append(seq, c16op{"get", ""})
			}
		}
	}
	return seq
}

// c16Sequential runs one sequence under one fault window [i,j).
// Mid-operation faults (serial phase only): the hook counts the store write calls of one
// operation and closes the database at the c16FailAtCall-th.
var (
	c16WriteCalls int64
	c16FailAtCall int64
	c16FailEnv    *c16env
	c16MaxCalls   int64
)

func c16MidHook(name string) {
	if name != "Storage.WriteState" {
		return
	}
	n := atomic.AddInt64(&c16WriteCalls, 1)
	for {
		m := atomic.LoadInt64(&c16MaxCalls)
		if n <= m || atomic.CompareAndSwapInt64(&c16MaxCalls, m, n) {
			break
		}
	}
	if at := atomic.LoadInt64(&c16FailAtCall); at > 0 && n == at {
		c16FailEnv.failStore()
	}
}

func c16Sequential(cfg fw.Config, rec *fw.Rec, seqIdx int, seq []c16op, fi, fj int) bool {
	return c16SequentialMid(cfg, rec, seqIdx, seq, fi, fj, -1, 0)
}

// c16SequentialMid: as c16Sequential; with midK >= 0 the store fails from the midC-th store
// write call of operation midK on (until that operation returns).
func c16SequentialMid(cfg fw.Config, rec *fw.Rec, seqIdx int, seq []c16op, fi, fj, midK, midC int) bool {
	env, err := newC16Env(cfg.WorkDir, fmt.Sprintf("seq-%d-%d-%d-%d-%d", seqIdx, fi, fj, midK+1, midC))
	if err != nil {
		rec.Inconclusive("service: " + err.Error())
		return false
	}
	defer env.close()
	env.commitFaults = seqIdx%4 == 2 && midK < 0
	viaListener := seqIdx%2 == 1
	if viaListener {
		env.openSession()
	}
	replay := map[string]interface{}{"sequence": seq, "store_fails_from": fi, "store_fails_until": fj, "mid_operation": midK, "mid_write_call": midC, "via_line_protocol": viaListener}
	for k, o := range seq {
		if k == fi && fi < fj {
			env.failStore()
		}
		if k == fj {
			if err := env.healStore(); err != nil {
				rec.Inconclusive("reopen: " + err.Error())
				return false
			}
			// (3) after the faults stop, memory and store agree again
			mem := env.memory()
			st, err := env.stored()
			if err != nil {
				rec.Inconclusive("GetCrew: " + err.Error())
				return false
			}
			if fw.Canon(mem) != fw.Canon(st) {
				rec.Violation("C16:memory-differs-from-store-after-faults", fmt.Sprintf("after the store recovered (before operation %d): memory %s, store %s", k, fw.Short(mem), fw.Short(st)), replay)
				return false
			}
			rec.Bucket("recovered_store_agrees")
		}
		failing := k >= fi && k < fj
		before := env.memory()
		// a poisoned request fails at the store although the store is healthy
		poisoned := (o.Kind == "poison" || o.Kind == "poisonrelay") && before[o.Id] != ""
		if midK == k {
			atomic.StoreInt64(&c16WriteCalls, 0)
			atomic.StoreInt64(&c16FailAtCall, int64(midC))
			c16FailEnv = env
		}
		var res string
		var opErr error
		if rec.Guard("C16", replay, func() { res, opErr = env.apply(o) }) {
			return false
		}
		rec.Eval(1)
		after := env.memory()
		if midK == k {
			atomic.StoreInt64(&c16FailAtCall, 0)
			n := atomic.LoadInt64(&c16WriteCalls)
			if n < int64(midC) {
				return true // the operation made fewer write calls than that: nothing injected
			}
			rec.Bucket("mid_operation_fault_injected")
			// the store failed from the midC-th write call of this operation on: the
			// operation's write failed, so memory must be as before, and once the store is
			// back it must agree with memory
			if fw.Canon(before) != fw.Canon(after) {
				rec.Violation("C16:memory-changed-although-write-failed:mid-operation", fmt.Sprintf("operation %d (%s %s): the store failed from write call %d of the operation on; memory changed from %s to %s", k, o.Kind, o.Id, midC, fw.Short(before), fw.Short(after)), replay)
				return false
			}
			if err := env.healStore(); err != nil {
				rec.Inconclusive("reopen: " + err.Error())
				return false
			}
			st, err := env.stored()
			if err != nil {
				rec.Inconclusive("GetCrew: " + err.Error())
				return false
			}
			if fw.Canon(after) != fw.Canon(st) {
				rec.Violation("C16:memory-differs-from-store:mid-operation", fmt.Sprintf("operation %d (%s %s) failed at write call %d: memory %s, store %s", k, o.Kind, o.Id, midC, fw.Short(after), fw.Short(st)), replay)
				return false
			}
			continue
		}
		if poisoned && !failing {
			if opErr == nil {
				rec.Bucket("poisoned_request_reported_no_error")
			}
			if fw.Canon(before) != fw.Canon(after) {
				rec.Violation("C16:memory-changed-although-write-failed:poison", fmt.Sprintf("operation %d (a request that leaves %s with a state the store cannot serialise, so its write fails) changed memory from %s to %s (result: %s)", k, o.Id, fw.Short(before), fw.Short(after), res), replay)
				return false
			}
			rec.Bucket("unserialisable_state_left_memory_unchanged")
			if len(before) >= 2 {
				rec.Bucket("unserialisable_state_in_multi_machine_request")
			}
			if o.Kind == "poisonrelay" {
				rec.Bucket("failed_request_that_emitted_left_the_others_alone")
			}
		}
		if failing {
			// (2) an operation whose write failed leaves the crew as it was
			if fw.Canon(before) != fw.Canon(after) {
				rec.Violation("C16:memory-changed-although-write-failed:"+o.Kind, fmt.Sprintf("operation %d (%s %s) changed memory from %s to %s while the store was failing (result: %s)", k, o.Kind, o.Id, fw.Short(before), fw.Short(after), res), replay)
				return false
			}
			rec.Bucket("failed_write_left_memory_unchanged")
			if env.commitFaults && env.savedFd != 0 && opErr != nil {
				rec.Bucket("failed_commit_left_memory_unchanged")
			}
			if (o.Kind == "add" || o.Kind == "rem") && opErr == nil && !(o.Kind == "add" && before[o.Id] != "") {
				rec.Bucket("failed_write_not_reported_to_caller")
			}
		} else {
			// (1) with a healthy store memory equals the store after every operation
			st, err := env.stored()
			if err != nil {
				rec.Inconclusive("GetCrew: " + err.Error())
				return false
			}
			if fw.Canon(after) != fw.Canon(st) {
				rec.Violation("C16:memory-differs-from-store:"+o.Kind, fmt.Sprintf("after operation %d (%s %s): memory %s, store %s", k, o.Kind, o.Id, fw.Short(after), fw.Short(st)), replay)
				return false
			}
			rec.Bucket("healthy_op_memory_equals_store")
			if o.Kind == "addbare" {
				rec.Bucket("add_requests_without_bindings")
			}
			if o.Kind == "to-limited" {
				rec.Bucket("process_requests_with_a_step_limit_of_their_own")
			}
			if strings.HasSuffix(o.Kind, "-cancelled") {
				rec.Bucket("request_under_cancelled_context_memory_equals_store")
			}
			if viaListener {
				rec.Bucket("requests_over_the_line_protocol")
			}
		}
	}
	return true
}

// ---- concurrent part ---------------------------------------------------------

type c16call struct {
	client int
	op     c16op
	call   int64
	ret    int64
	result string
	err    bool
	// per-id observations
	exists map[string]string // get: id -> "inc.n"
	moved  map[string][2]string
	addInc string
}

type c16in struct {
	Kind string // add rem proc read
	Inc  string
}

type c16out struct {
	Err    bool
	From   string // proc: "inc.n" or "" (no machine)
	To     string
	Exists string // read: "inc.n" or ""
}

type c16state struct {
	Exists bool
	Inc    string
	N      int
}

func c16Model() porcupine.Model {
	return porcupine.Model{
		Init: func() interface{} { return c16state{} },
		Step: func(st, in, out interface{}) (bool, interface{}) {
			s := st.(c16state)
			i := in.(c16in)
			o := out.(c16out)
			switch i.Kind {
			case "add":
				if s.Exists {
					return o.Err, s // Exists error
				}
				if o.Err {
					return false, s
				}
				return true, c16state{Exists: true, Inc: i.Inc, N: 0}
			case "rem":
				return !o.Err, c16state{}
			case "proc":
				if !s.Exists {
					return o.From == "" && o.To == "", s
				}
				from := fmt.Sprintf("%s.%d", s.Inc, s.N)
				to := fmt.Sprintf("%s.%d", s.Inc, s.N+1)
				return o.From == from && o.To == to, c16state{Exists: true, Inc: s.Inc, N: s.N + 1}
			case "read":
				if !s.Exists {
					return o.Exists == "", s
				}
				return o.Exists == fmt.Sprintf("%s.%d", s.Inc, s.N), s
			}
			return false, s
		},
		Equal: func(a, b interface{}) bool { return a.(c16state) == b.(c16state) },
	}
}

func incN(bs match.Bindings) string {
	if bs == nil {
		return ""
	}
	return fmt.Sprintf("%v.%v", bs["inc"], bs["n"])
}

func c16Concurrent(cfg fw.Config, rec *fw.Rec, idx int, interleavings map[string]bool, imu *sync.Mutex) {
	r := cfg.Rng("c16-conc", idx)
	env, err := newC16Env(cfg.WorkDir, fmt.Sprintf("conc-%d", idx))
	if err != nil {
		rec.Inconclusive("service: " + err.Error())
		return
	}
	defer env.close()
	ids := []string{"m1", "m2", "m3"}[:2+r.Intn(2)]
	clients := 4 + r.Intn(5)
	nops := 6 + r.Intn(10)
	t0 := time.Now()
	now := func() int64 { return int64(time.Since(t0)) }
	var mu sync.Mutex
	var calls []*c16call
	var retOrder []string
	var wg sync.WaitGroup
	for c := 0; c < clients; c++ {
		wg.Add(1)
		seed := r.Int63()
		go func(c int) {
			defer wg.Done()
			rr := rand.New(rand.NewSource(seed))
			for k := 0; k < nops; k++ {
				id := ids[rr.Intn(len(ids))]
				var o c16op
				switch x := rr.Intn(10); {
				case x < 3:
					o = c16op{"add", id}
				case x < 5:
					o = c16op{"rem", id}
				case x < 9:
					o = c16op{"to", id}
				default:
					o = c16op{"get", ""}
				}
				cl := &c16call{client: c, op: o, exists: map[string]string{}, moved: map[string][2]string{}}
				cl.call = now()
				switch o.Kind {
				case "add":
					inc := fmt.Sprint(atomic.AddInt64(&env.incN, 1))
					incF, _ := fmt.Sscan(inc, new(int))
					_ = incF
					var incNum float64
					fmt.Sscan(inc, &incNum)
					e := env.s.AddMachine(env.ctx, "counter", o.Id, "start", match.Bindings{"inc": incNum, "n": 0.0})
					cl.err = e != nil
					cl.addInc = inc
				case "rem":
					e := env.s.RemMachine(env.ctx, o.Id)
					cl.err = e != nil
				case "to":
					uid := fmt.Sprintf("u%d", atomic.AddInt64(&env.uidN, 1))
					ws, e := env.s.Process(env.ctx, map[string]interface{}{"uid": uid, "to": o.Id}, nil)
					cl.err = e != nil
					if w, ok := ws[o.Id]; ok && w != nil {
						from, to := "", ""
						if f := w.From(); f != nil {
							from = incN(f.Bs)
						}
						if t := w.To(); t != nil {
							to = incN(t.Bs)
						}
						cl.moved[o.Id] = [2]string{from, to}
					}
				case "get":
					cp := env.s.crew.Copy()
					for id, m := range cp.Machines {
						cl.exists[id] = incN(m.State.Bs)
					}
				}
				cl.ret = now()
				mu.Lock()
				calls = append(calls, cl)
				retOrder = append(retOrder, fmt.Sprintf("%d%s%s", c, o.Kind[:1], o.Id))
				mu.Unlock()
			}
		}(c)
	}
	wg.Wait()
	rec.Eval(len(calls))
	replay := func() interface{} {
		var h []string
		sort.Slice(calls, func(i, j int) bool { return calls[i].call < calls[j].call })
		for _, c := range calls {
			h = append(h, fmt.Sprintf("client %d %s %s call=%d ret=%d err=%v moved=%v exists=%v inc=%s", c.client, c.op.Kind, c.op.Id, c.call, c.ret, c.err, c.moved, c.exists, c.addInc))
		}
		return map[string]interface{}{"history": h}
	}
	// final memory == store
	mem := env.memory()
	st, err := env.stored()
	if err != nil {
		rec.Inconclusive("GetCrew: " + err.Error())
		return
	}
	if fw.Canon(mem) != fw.Canon(st) {
		rec.Violation("C16:concurrent:memory-differs-from-store", fmt.Sprintf("after all clients finished: memory %s, store %s", fw.Short(mem), fw.Short(st)), replay())
		return
	}
	// chain: no two process results start from the same state of one machine incarnation
	seenFrom := map[string]bool{}
	for _, c := range calls {
		for id, ft := range c.moved {
			if ft[0] == "" || ft[1] == "" || ft[0] == ft[1] {
				continue
			}
			key := id + "@" + ft[0]
			if seenFrom[key] {
				rec.Violation("C16:concurrent:lost-update", fmt.Sprintf("two process requests both started from state %s of machine %s", ft[0], id), replay())
				return
			}
			seenFrom[key] = true
		}
	}
	// linearizability per machine id
	var ops []porcupine.Operation
	byId := map[string][]porcupine.Operation{}
	for _, c := range calls {
		switch c.op.Kind {
		case "add":
			byId[c.op.Id] = append(byId[c.op.Id], porcupine.Operation{ClientId: c.client, Input: c16in{Kind: "add", Inc: c.addInc}, Call: c.call, Output: c16out{Err: c.err}, Return: c.ret})
		case "rem":
			byId[c.op.Id] = append(byId[c.op.Id], porcupine.Operation{ClientId: c.client, Input: c16in{Kind: "rem"}, Call: c.call, Output: c16out{Err: c.err}, Return: c.ret})
		case "to":
			ft := c.moved[c.op.Id]
			out := c16out{From: ft[0], To: ft[1]}
			if ft[0] == ft[1] {
				out = c16out{}
			}
			byId[c.op.Id] = append(byId[c.op.Id], porcupine.Operation{ClientId: c.client, Input: c16in{Kind: "proc"}, Call: c.call, Output: out, Return: c.ret})
		case "get":
			for _, id := range ids {
				byId[id] = append(byId[id], porcupine.Operation{ClientId: c.client, Input: c16in{Kind: "read"}, Call: c.call, Output: c16out{Exists: c.exists[id]}, Return: c.ret})
			}
		}
	}
	_ = ops
	model := c16Model()
	for _, id := range ids {
		res, _ := porcupine.CheckOperationsVerbose(model, byId[id], 60*time.Second)
		switch res {
		case porcupine.Illegal:
			rec.Violation("C16:concurrent:not-linearizable", fmt.Sprintf("the history of machine %s equals no sequential order of the requests", id), replay())
			return
		case porcupine.Unknown:
			rec.Inconclusive("linearizability check timed out")
			return
		}
		rec.Bucket("histories_linearizable_per_machine")
	}
	imu.Lock()
	interleavings[fmt.Sprint(retOrder)] = true
	imu.Unlock()
	rec.Bucket("concurrent_histories")
	rec.Nontrivial(fmt.Sprintf("conc-%d-%d", cfg.Seed, idx))
	if idx%50 == 1 {
		rec.Sample(replay())
	}
}

func init() {
	verifRegistry["C16/mcrew"] = func(cfg fw.Config, rec *fw.Rec) {
		rec.Rule = "sequential (every second sequence as JSON request lines through Service.Listener, the per-connection loop of the TCP / WebSocket services; the others as direct Service calls): operation sequences of length 2-8 over {add, rem, process-to, process-all, read-crew, retry-the-previous-request-verbatim, the same requests under an already cancelled context} on ids {m1,m2,m3}; for every 0 <= i < j <= n the bolt store is closed for operations i..j-1 (plus the fault-free run); for every fourth sequence the fault is instead injected at the commit of a transaction only (the database file's descriptor is swapped for a read-only one: begin, get and put work, commit fails); after each operation with a healthy store memory must equal the store, an operation whose write failed must leave memory as it was, after recovery memory must equal the store; a 'poison' request to every machine leaves one machine with a state the store cannot serialise (100/0), so the request's write fails although the store is healthy: memory must stay as it was for every machine and equal the store - also when the failing machine's action emitted a message to another machine ('poisonrelay'); mid-operation faults: the hook counts an operation's store write calls and closes the database at the 1st/2nd/3rd call of that operation (the observed maximum of write calls per operation is reported); concurrent: 4-8 clients x 6-15 requests on 2-3 ids with every store write delayed 0-2 ms through the verifPoint hook: final memory == store, no two process results from one machine state, per-machine history linearizable (porcupine) w.r.t. a sequential service model; non-trivial = sequence run under a fault window / concurrent history; distinct by (sequence, window) / history"
		rec.Required = []string{"add_requests_without_bindings", "process_requests_with_a_step_limit_of_their_own", "healthy_op_memory_equals_store", "failed_write_left_memory_unchanged", "recovered_store_agrees", "concurrent_histories", "histories_linearizable_per_machine", "fault_windows", "failed_commit_left_memory_unchanged", "requests_over_the_line_protocol", "request_under_cancelled_context_memory_equals_store", "unserialisable_state_left_memory_unchanged", "unserialisable_state_in_multi_machine_request", "failed_request_that_emitted_left_the_others_alone", "mid_operation_fault_injected"}
		rec.Assume = []string{"store faults are injected by closing the bolt database (every write and read fails until it is reopened); commits do not fsync (NoSync) because durability is not monitored", "machines are counters with a unique incarnation tag, so every state of every incarnation is distinguishable", "porcupine timeout 60 s = inconclusive"}
		// sequential fault enumeration
		nseq := cfg.Pick(40, 800)
		type job struct {
			idx    int
			seq    []c16op
			fi, fj int
		}
		var jobs []job
		for i := 0; i < nseq; i++ {
			r := cfg.Rng("c16-seq", i)
			n := 2 + r.Intn(7)
			seq := genC16Seq(r, n)
			if i == 0 {
				seq = []c16op{{"add", "m1"}, {"to", "m1"}, {"again", ""}, {"rem", "m1"}, {"add", "m1"}, {"again", ""}, {"all", ""}, {"get", ""}}
			}
			if i == 1 {
				seq = []c16op{{"add", "m1"}, {"add", "m2"}, {"add", "m3"}, {"poison", "m2"}, {"all", ""}, {"poisonrelay", "m1"}, {"get", ""}, {"poisonrelay", "m3"}}
			}
			if i == 4 {
				seq = []c16op{{"add", "m1"}, {"add", "m2"}, {"add", "m3"}, {"poisonrelay", "m1"}, {"all", ""}, {"poisonrelay", "m3"}, {"to", "m2"}, {"poisonrelay", "m2"}, {"get", ""}}
			}
			if i == 3 || i == 6 {
				seq = []c16op{{"addbare", "m1"}, {"to", "m1"}, {"add", "m2"}, {"addbare", "m2"}, {"all", ""}, {"rem", "m1"}, {"addbare", "m1"}, {"get", ""}}
				n = len(seq)
			}
			if i == 7 || i == 8 {
				seq = []c16op{{"add", "m1"}, {"add", "m2"}, {"to-limited", "m1"}, {"get", ""}, {"to", "m1"}, {"all", ""}, {"to-limited", "m2"}, {"to-limited", "m2"}, {"all", ""}}
				n = len(seq)
			}
			if i == 2 {
				seq = []c16op{{"add", "m1"}, {"to-cancelled", "m1"}, {"to", "m1"}, {"add-cancelled", "m2"}, {"all-cancelled", ""}, {"rem-cancelled", "m1"}, {"all", ""}}
				n = len(seq)
			}
			jobs = append(jobs, job{i, seq, 0, 0})
			for fi := 0; fi < n; fi++ {
				for fj := fi + 1; fj <= n; fj++ {
					jobs = append(jobs, job{i, seq, fi, fj})
				}
			}
		}
		rec.SetExtra("fault_windows_enumerated", len(jobs))
		fw.Parallel(8, len(jobs), func(w, k int) {
			j := jobs[k]
			if c16Sequential(cfg, rec, j.idx, j.seq, j.fi, j.fj) {
				rec.Bucket("fault_windows")
				rec.Nontrivial(fw.Canon([]interface{}{j.seq, j.fi, j.fj}))
				if k%400 == 3 {
					rec.Sample(map[string]interface{}{"sequence": j.seq, "store_fails_from": j.fi, "store_fails_until": j.fj})
				}
			}
		})
		// mid-operation faults: serial, the hook counts the write calls of each operation
		VerifPoint = c16MidHook
		nmid := 0
		for i := 0; i < cfg.Pick(25, 300); i++ {
			r := cfg.Rng("c16-seq", i)
			n := 2 + r.Intn(7)
			seq := genC16Seq(r, n)
			if i == 0 {
				seq = []c16op{{"add", "m1"}, {"add", "m2"}, {"add", "m3"}, {"all", ""}, {"poison", "m2"}, {"all", ""}, {"rem", "m2"}, {"all", ""}}
			}
			for k := range seq {
				for c := 1; c <= 3; c++ {
					atomic.StoreInt64(&c16WriteCalls, 0)
					if !c16SequentialMid(cfg, rec, i, seq, 0, 0, k, c) {
						break
					}
					nmid++
				}
			}
		}
		VerifPoint = nil
		rec.SetExtra("mid_operation_fault_runs", nmid)
		rec.SetExtra("max_store_write_calls_seen_in_one_operation", atomic.LoadInt64(&c16MaxCalls))
		// concurrent part: widen the window around every store write
		var hookRng = rand.New(rand.NewSource(cfg.Seed))
		var hmu sync.Mutex
		VerifPoint = func(name string) {
			hmu.Lock()
			d := time.Duration(hookRng.Intn(2000)) * time.Microsecond
			hmu.Unlock()
			time.Sleep(d)
		}
		interleavings := map[string]bool{}
		var imu sync.Mutex
		fw.Parallel(4, cfg.Pick(150, 4000), func(w, i int) { c16Concurrent(cfg, rec, i, interleavings, &imu) })
		VerifPoint = nil
		rec.SetExtra("distinct_return_orders_seen", len(interleavings))
	}
}
