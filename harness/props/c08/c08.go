// Package c08: emission is atomic.  A conservation checker with unique
// emission ids: the ids observed in strides, in DoEmitted, and in a crew's
// Result.Emitted must be exactly the ids emitted by successfully completed
// actions of the reference, in execution order.
package c08

import (
	"context"
	"fmt"
	"sort"
	"strings"
	"time"

	"github.com/Comcast/sheens/core"
	"github.com/Comcast/sheens/match"

	"verif/fw"
	"verif/gen"
	"verif/ref"
	"verif/siox"
)

var failures = []string{"none", "throw", "loop", "number", "string", "array", "func", "nan", "bool", "outbad", "outnan"}

// prog: emit k ids, mutate, fail by f, optionally emit more afterwards.
func prog(u *gen.Uid, k int, f string, emitAfter bool, to interface{}) *ref.Prog {
	p := &ref.Prog{Ret: "same"}
	nth := 0
	em := func() ref.Op {
		v := map[string]interface{}{"id": u.Next("e")}
		if to != nil {
			v["to"] = to
		}
		// payload keys that mean something to somebody (the crew, the captain, the timers,
		// a recorder) must not make a difference to what is reported
		nth++
		switch nth % 5 {
		case 1:
			v["emit"] = []interface{}{map[string]interface{}{"id": "never-emitted"}}
		case 2:
			v["update"] = map[string]interface{}{"ghost": nil}
		case 3:
			v["makeTimer"] = map[string]interface{}{"id": "t", "in": "1h"}
		}
		return ref.Op{Op: "emit", V: v}
	}
	for i := 0; i < k; i++ {
		p.Ops = append(p.Ops, em())
		if i == 0 {
			p.Ops = append(p.Ops, ref.Op{Op: "inc", K: "n"})
		}
	}
	switch f {
	case "none":
	case "throw":
		p.Ops = append(p.Ops, ref.Op{Op: "fail", V: u.Next("F")})
	case "loop":
		p.Ops = append(p.Ops, ref.Op{Op: "loop"})
	case "outbad":
		p.Ops = append(p.Ops, ref.Op{Op: "outbad"})
	case "outnan":
		p.Ops = append(p.Ops, ref.Op{Op: "outnan"})
	default:
		p.Ret = f
	}
	if emitAfter {
		p.Ops = append(p.Ops, em())
	}
	return p
}

var manyKinds = []string{"reject2", "reject3", "reject4", "reject5", "reject7", "nomatch5", "nomatch8", "nomatch12"}

type chainCase struct {
	Spec     *ref.ASpec `json:"spec"`
	Settings int        `json:"settings"`
	Descr    []string   `json:"descr"`
}

// chain builds start -> n1 -> n2 -> done with the given per-node (k, f) and guard behaviours.
func chain(u *gen.Uid, ks []int, fs []string, after []bool, guards []string, settings int, to interface{}) *chainCase {
	a := &ref.ASpec{Name: u.Prefix + "chain", Nodes: map[string]*ref.ANode{"done": {Branching: &ref.ABranching{Type: "message"}}, "aerr": {}}}
	switch settings {
	case 1:
		a.ActionErrorBranches = true
	case 2:
		a.ActionErrorNode = "aerr"
	}
	names := []string{"start", "n1", "n2", "done"}
	cc := &chainCase{Spec: a, Settings: settings}
	for i := 0; i < 3; i++ {
		n := &ref.ANode{Action: prog(u, ks[i], fs[i], after[i], to), Branching: &ref.ABranching{Type: "bindings"}}
		cc.Descr = append(cc.Descr, fmt.Sprintf("%s: emit %d then %s after=%v guard=%s", names[i], ks[i], fs[i], after[i], guards[i]))
		switch guards[i] {
		case "none":
			n.Branching.Branches = []*ref.ABranch{{Target: names[i+1]}}
		default:
			g := prog(u, 2, "none", false, to) // a guard that emits
			switch guards[i] {
			case "reject":
				g.Ret = "null"
			case "fail":
				g.Ops = append(g.Ops, ref.Op{Op: "fail", V: u.Next("G")})
			}
			n.Branching.Branches = []*ref.ABranch{{Target: names[i+1], Guard: g}, {Target: names[i+1]}}
			// many branches before the one that is followed: "rejectN" = N guards that emit
			// and reject, "nomatchN" = N patterns that do not match
			var cnt int
			if _, err := fmt.Sscanf(guards[i], "reject%d", &cnt); err == nil {
				n.Branching.Branches = nil
				for j := 0; j < cnt; j++ {
					gj := prog(u, 1+j%2, "none", false, to)
					gj.Ret = "null"
					n.Branching.Branches = append(n.Branching.Branches, &ref.ABranch{Target: "aerr", Guard: gj})
				}
				n.Branching.Branches = append(n.Branching.Branches, &ref.ABranch{Target: names[i+1]})
			} else if _, err := fmt.Sscanf(guards[i], "nomatch%d", &cnt); err == nil {
				n.Branching.Branches = nil
				for j := 0; j < cnt; j++ {
					n.Branching.Branches = append(n.Branching.Branches, &ref.ABranch{Target: "aerr", HasPattern: true, Pattern: map[string]interface{}{"never": float64(j)}})
				}
				n.Branching.Branches = append(n.Branching.Branches, &ref.ABranch{Target: names[i+1]})
			}
		}
		a.Nodes[names[i]] = n
	}
	return cc
}

// refWalk runs the reference walk and returns the expected emission ids and
// whether the outcome is deterministic.
func refWalk(a *ref.ASpec, st ref.AState, msg interface{}, limit int) (ids []string, final ref.AState) {
	pending := msg
	for i := 0; i < limit; i++ {
		outs := ref.Step(a, st, pending, ref.Env{})
		o := outs[0]
		if o.Consumed {
			pending = nil
		}
		for _, e := range o.Emitted {
			ids = append(ids, e.(map[string]interface{})["id"].(string))
		}
		if o.Err {
			if st.Node == "error" {
				break
			}
			st = ref.AState{Node: "error", Bs: map[string]interface{}{}}
			continue
		}
		if o.To == nil {
			break
		}
		st = *o.To
	}
	return ids, st
}

func idsOf(xs []interface{}) []string {
	var out []string
	for _, x := range xs {
		if m, ok := x.(map[string]interface{}); ok {
			if s, ok := m["id"].(string); ok {
				out = append(out, s)
				continue
			}
		}
		out = append(out, "?"+fw.Canon(x))
	}
	return out
}

// limitedCrew: a machine whose walk is stopped by the crew's step limit in the middle of
// a chain of emitting actions - so that the next message finds it resting at an action
// node and is not consumed.  Whatever the actions emitted before the limit must be
// reported, message by message.
func limitedCrew(cfg fw.Config, rec *fw.Rec) {
	for _, L := range []int{1, 2, 3, 5, 8} {
		for variant := 0; variant < 4; variant++ {
			u := &gen.Uid{Prefix: fmt.Sprintf("L%d_%d_", L, variant)}
			// a ring of `ring` action nodes, each emitting 1-2 ids; variant 3 has a message node in the ring
			ring := 2 + variant%3
			if variant == 3 {
				ring = 3
			}
			a := &ref.ASpec{Name: u.Prefix + "ring", Nodes: map[string]*ref.ANode{}}
			name := func(i int) string { return fmt.Sprintf("r%d", i%ring) }
			for i := 0; i < ring; i++ {
				a.Nodes[name(i)] = &ref.ANode{Action: prog(u, 1+i%2, "none", false, "nobody"), Branching: &ref.ABranching{Type: "bindings", Branches: []*ref.ABranch{{Target: name(i + 1)}}}}
			}
			if variant == 3 {
				a.Nodes["r1"] = &ref.ANode{Branching: &ref.ABranching{Type: "message", Branches: []*ref.ABranch{{HasPattern: true, Pattern: map[string]interface{}{"tick": "?t"}, Target: "r2"}}}}
			}
			desc := map[string]interface{}{"limit": L, "ring": ring, "variant": variant, "spec": a}
			ctx := context.Background()
			c, _, err := siox.NewCrew(ctx, L, 4, 4)
			if err != nil {
				rec.Inconclusive("crew: " + err.Error())
				return
			}
			src, err := siox.Inline(a.JSON(false))
			if err == nil {
				err = c.SetMachine(ctx, "m", src, &core.State{NodeName: "r0", Bs: match.Bindings{}})
			}
			if err != nil {
				rec.Inconclusive("ring machine: " + err.Error())
				return
			}
			st := ref.AState{Node: "r0", Bs: map[string]interface{}{}}
			okAll := true
			for k := 0; k < 6 && okAll; k++ {
				msg := map[string]interface{}{"to": "m", "tick": float64(k)}
				// the reference: at most L steps, the message pending until consumed
				var want []string
				pending := interface{}(msg)
				for i := 0; i < L; i++ {
					o := ref.Step(a, st, pending, ref.Env{})[0]
					if o.Consumed {
						pending = nil
					}
					for _, e := range o.Emitted {
						want = append(want, e.(map[string]interface{})["id"].(string))
					}
					if o.Err || o.To == nil {
						break
					}
					st = *o.To
				}
				var res interface{}
				var got []string
				if rec.Guard("C08:crew-limited", desc, func() {
					r, perr := c.ProcessMsg(ctx, fw.Deep(msg))
					if perr != nil {
						res = perr
						return
					}
					for _, batch := range r.Emitted {
						got = append(got, idsOf(batch)...)
					}
				}) {
					return
				}
				rec.Eval(1)
				if res != nil {
					rec.Violation("C08:crew-limited:process-error", fmt.Sprint(res), desc)
					okAll = false
					break
				}
				if fw.Canon(got) != fw.Canon(want) {
					rec.Violation("C08:crew-limited:missing-or-extra", fmt.Sprintf("message %d to a machine whose walks are cut short by the step limit %d: reported emission ids %v, the completed actions emitted %v", k, L, got, want), desc)
					okAll = false
					break
				}
				if m := c.Machines["m"]; m == nil || m.State == nil || m.State.NodeName != st.Node {
					rec.Violation("C08:crew-limited:state", fmt.Sprintf("after message %d the machine is at %v, the reference at %s", k, m, st.Node), desc)
					okAll = false
					break
				}
			}
			if okAll {
				rec.Bucket("crew_walks_cut_short_by_the_limit_checked")
				rec.Nontrivial(fmt.Sprintf("limited-%d-%d", L, variant))
			}
		}
	}
}

// handles: what a script does with an object after emitting it - the one it passed in, the
// one _.out gave back, one that lives in its bindings or props - cannot change the message
// that was emitted.
func handles(cfg fw.Config, rec *fw.Rec) {
	cases := []struct{ Name, Src, Want string }{
		{"mutate-the-returned-handle", `var s = _.out({id: "X", inner: {v: 1}}); if (s) { s.id = "changed"; if (s.inner) { s.inner.v = 2; } } return _.bindings;`, `[{"id":"X","inner":{"v":1}}]`},
		{"mutate-the-argument", `var m = {id: "X", inner: {v: 1}}; _.out(m); m.id = "changed"; m.inner.v = 2; return _.bindings;`, `[{"id":"X","inner":{"v":1}}]`},
		{"emit-a-binding-then-mutate-it", `var bs = _.bindings; _.out(bs.obj); bs.obj.id = "changed"; bs.obj.inner.v = 2; return bs;`, `[{"id":"B","inner":{"v":1}}]`},
		{"emit-mutate-emit", `var bs = _.bindings; _.out(bs.obj); bs.obj.id = "second"; _.out(bs.obj); return bs;`, `[{"id":"B","inner":{"v":1}},{"id":"second","inner":{"v":1}}]`},
		{"emit-nested-binding-then-delete", `var bs = _.bindings; _.out(bs.obj.inner); delete bs.obj.inner.v; return bs;`, `[{"v":1}]`},
		{"emit-props-then-mutate", `_.out(_.props.cfg); _.props.cfg.id = "changed"; return _.bindings;`, `[{"id":"P"}]`},
		{"return-what-out-returned", `return _.out({id: "X"});`, `[{"id":"X"}]`},
		{"emit-the-bindings-themselves", `var bs = _.bindings; _.out(bs); bs.later = true; return bs;`, `[{"keep!":"perm","obj":{"id":"B","inner":{"v":1}}}]`},
	}
	for _, c := range cases {
		spec := &core.Spec{Name: "handles", Nodes: map[string]*core.Node{
			"start": {ActionSource: &core.ActionSource{Interpreter: "ecmascript", Source: c.Src}, Branches: &core.Branches{Type: "bindings", Branches: []*core.Branch{{Target: "done"}}}},
			"done":  {},
		}}
		if err := spec.Compile(context.Background(), nil, true); err != nil {
			rec.Inconclusive("handles spec: " + err.Error())
			return
		}
		st := &core.State{NodeName: "start", Bs: match.Bindings{"obj": map[string]interface{}{"id": "B", "inner": map[string]interface{}{"v": 1.0}}, "keep!": "perm"}}
		var w *core.Walked
		var err error
		if rec.Guard("C08:handles", c.Name, func() {
			w, err = spec.Walk(context.Background(), st, nil, &core.Control{Limit: 5}, core.StepProps{"cfg": map[string]interface{}{"id": "P"}})
		}) {
			return
		}
		rec.Eval(1)
		var got []interface{}
		if w != nil {
			w.DoEmitted(func(x interface{}) error { got = append(got, x); return nil })
		}
		if err != nil || fw.Canon(got) != c.Want {
			rec.Violation("C08:emitted-message-changed-after-emission", fmt.Sprintf("script %q: the walk reports %s (err %v); the messages at the moment they were emitted were %s", c.Name, fw.Canon(got), err, c.Want), c.Name)
			continue
		}
		rec.Bucket("emitted_messages_immune_to_later_changes")
	}
}

func Run(cfg fw.Config, rec *fw.Rec) {
	rec.Rule = "three-node action chains start->n1->n2->done; each action is 'emit k unique ids, mutate, fail by f [, emit again]' for k in 0..4 and f in {none, throw, infinite loop under a deadline, return number/string/array/function/NaN/bool, _.out(unserialisable), _.out(NaN)}; branches optionally guarded by guards that emit and then accept / reject / fail, also 2-7 rejecting emitting guards or 5-12 non-matching branches before the branch that is followed; 3 error settings; observed through Stride.Emitted, Walked.DoEmitted and sio.Crew Result.Emitted (one machine, and two machines with different emissions processing one message: one batch per machine; and a machine on a ring of emitting action nodes under crew step limits 1-8, so that walks are cut short and later messages find it resting at an action node); emitted messages carry payload keys that mean something to a host or a service machine (emit, update, makeTimer) but are addressed to nobody; the observed id sequence must equal the ids of the reference's successfully completed actions in execution order; non-trivial = chain in which some action emitted and some action or guard failed or rejected; distinct by chain description"
	rec.Required = []string{"emissions_reported_although_a_later_action_of_the_run_timed_out", "walk_checked", "crew_checked", "crew_two_machines_checked", "crew_walks_cut_short_by_the_limit_checked", "emitted_messages_immune_to_later_changes", "failure_after_emit", "failure_timeout", "failure_bad_return", "failure_out_unserialisable", "guard_emitted_nothing", "several_rejecting_guards_before_followed_branch", "many_branches_before_followed_branch", "position_first", "position_middle", "position_last"}
	rec.Assume = []string{"a timed-out action is the last one executed in its walk (later actions under an expired context may legitimately either run or time out)"}
	type job struct {
		ks      []int
		fs      []string
		after   []bool
		guards  []string
		setting int
	}
	var jobs []job
	// every (k, f) at every position, other positions benign
	for pos := 0; pos < 3; pos++ {
		for k := 0; k <= 4; k++ {
			for _, f := range failures {
				for _, after := range []bool{false, true} {
					for setting := 0; setting < 3; setting++ {
						if f == "loop" && setting == 1 {
							continue
						}
						for _, g := range []string{"none", "accept", "reject", "fail"} {
							ks := []int{1, 1, 1}
							fs := []string{"none", "none", "none"}
							af := []bool{false, false, false}
							gs := []string{"none", "none", "none"}
							ks[pos], fs[pos], af[pos] = k, f, after
							gs[(pos+1)%3] = g
							jobs = append(jobs, job{ks, fs, af, gs, setting})
						}
					}
				}
			}
		}
	}
	// many rejecting guards / non-matching branches before the branch that is followed
	for pos := 0; pos < 3; pos++ {
		for _, g := range manyKinds {
			for _, k := range []int{1, 3} {
				for _, f := range []string{"none", "throw"} {
					for setting := 0; setting < 3; setting++ {
						ks := []int{1, 2, 1}
						fs := []string{"none", "none", "none"}
						gs := []string{"none", "none", "none"}
						ks[pos], fs[(pos+1)%3] = k, f
						gs[pos] = g
						jobs = append(jobs, job{ks, fs, []bool{false, false, false}, gs, setting})
					}
				}
			}
		}
	}
	// random combinations
	r := cfg.Rng("c08", 0)
	for i := cfg.Pick(3000, 400000); i > 0; i-- {
		j := job{setting: r.Intn(3)}
		for p := 0; p < 3; p++ {
			f := failures[r.Intn(len(failures))]
			if r.Intn(2) == 0 {
				f = "none"
			}
			if f == "loop" {
				f = "throw"
			}
			j.ks = append(j.ks, r.Intn(5))
			j.fs = append(j.fs, f)
			j.after = append(j.after, r.Intn(3) == 0)
			if r.Intn(4) == 0 {
				j.guards = append(j.guards, manyKinds[r.Intn(len(manyKinds))])
			} else {
				j.guards = append(j.guards, []string{"none", "accept", "reject", "fail"}[r.Intn(4)])
			}
		}
		jobs = append(jobs, j)
	}
	rec.SetExtra("chains", len(jobs))
	fw.Parallel(cfg.Workers, len(jobs), func(w, i int) {
		j := jobs[i]
		u := &gen.Uid{Prefix: fmt.Sprintf("c%d_", i)}
		viaCrew := i%3 == 0
		var to interface{}
		if viaCrew {
			to = "nobody"
		}
		cc := chain(u, j.ks, j.fs, j.after, j.guards, j.setting, to)
		hasLoop := false
		for _, f := range j.fs {
			if f == "loop" {
				hasLoop = true
			}
		}
		want, _ := refWalk(cc.Spec, ref.AState{Node: "start", Bs: map[string]interface{}{}}, nil, 20)
		ctx := context.Background()
		if hasLoop {
			var cancel context.CancelFunc
			ctx, cancel = context.WithTimeout(ctx, 60*time.Millisecond)
			defer cancel()
		}
		var got []string
		twoMachines := false
		var wantBatches []string
		if viaCrew {
			if hasLoop {
				return
			}
			c, _, err := siox.NewCrew(ctx, 50, 4, 4)
			if err != nil {
				rec.Inconclusive("crew: " + err.Error())
				return
			}
			src, err := siox.Inline(cc.Spec.JSON(false))
			if err != nil {
				rec.Inconclusive("spec json: " + err.Error())
				return
			}
			if err := c.SetMachine(ctx, "m", src, nil); err != nil {
				rec.Inconclusive("SetMachine: " + err.Error())
				return
			}
			// a second machine whose emissions differ: the crew reports one batch per machine
			var want2 []string
			if i%2 == 0 {
				u2 := &gen.Uid{Prefix: fmt.Sprintf("d%d_", i)}
				cc2 := chain(u2, []int{2, 1, 3}, []string{"none", j.fs[1], "none"}, []bool{false, false, false}, []string{"none", "none", "none"}, j.setting, to)
				want2, _ = refWalk(cc2.Spec, ref.AState{Node: "start", Bs: map[string]interface{}{}}, nil, 20)
				src2, err := siox.Inline(cc2.Spec.JSON(false))
				if err == nil {
					err = c.SetMachine(ctx, "m2", src2, nil)
				}
				if err != nil {
					rec.Inconclusive("second machine: " + err.Error())
					return
				}
				twoMachines = true
				wantBatches = []string{fw.Canon(want), fw.Canon(want2)}
			}
			var res interface{}
			submit := map[string]interface{}{"to": "m", "go": true}
			if twoMachines {
				submit = map[string]interface{}{"to": []interface{}{"m", "m2"}, "go": true}
			}
			var gotBatches []string
			if rec.Guard("C08:crew", cc, func() {
				r, err := c.ProcessMsg(ctx, submit)
				if err != nil {
					rec.Inconclusive("ProcessMsg: " + err.Error())
					return
				}
				for _, batch := range r.Emitted {
					got = append(got, idsOf(batch)...)
					gotBatches = append(gotBatches, fw.Canon(idsOf(batch)))
				}
				res = r
			}) {
				return
			}
			_ = res
			rec.Eval(1)
			rec.Bucket("crew_checked")
			if twoMachines {
				// each machine's emissions form their own batch; machine order is unspecified
				var wb []string
				for _, b := range wantBatches {
					if b != "null" && b != "[]" {
						wb = append(wb, b)
					}
				}
				sort.Strings(wb)
				sort.Strings(gotBatches)
				if fw.Canon(wb) != fw.Canon(gotBatches) && !(len(wb) == 0 && len(gotBatches) == 0) {
					rec.Violation("C08:crew-batches-differ", fmt.Sprintf("two machines processed one message: the crew reports the batches %v, the machines' completed actions emitted %v", gotBatches, wb), cc)
					return
				}
				rec.Bucket("crew_two_machines_checked")
				rec.Nontrivial(fw.Canon(cc.Descr) + fmt.Sprint("two", j.setting))
				return
			}
		} else {
			spec, err := cc.Spec.Compiled(false, ref.NativeNilErr)
			if err != nil {
				rec.Violation("C08:compile", err.Error(), cc)
				return
			}
			var walked *core.Walked
			if rec.Guard("C08:walk", cc, func() {
				walked, err = spec.Walk(ctx, &core.State{NodeName: "start", Bs: match.Bindings{}}, nil, &core.Control{Limit: 20}, nil)
			}) {
				return
			}
			rec.Eval(1)
			if err != nil || walked == nil {
				rec.Violation("C08:walk-error", fmt.Sprint(err), cc)
				return
			}
			var viaStrides []string
			for _, s := range walked.Strides {
				viaStrides = append(viaStrides, idsOf(s.Emitted)...)
			}
			walked.DoEmitted(func(x interface{}) error { got = append(got, idsOf([]interface{}{x})...); return nil })
			if fw.Canon(viaStrides) != fw.Canon(got) {
				rec.Violation("C08:doemitted-order", fmt.Sprintf("DoEmitted yields %v but the strides hold %v", got, viaStrides), cc)
				return
			}
			rec.Bucket("walk_checked")
		}
		if fw.Canon(got) != fw.Canon(want) {
			cls := "missing-or-reordered"
			wantSet := map[string]bool{}
			for _, id := range want {
				wantSet[id] = true
			}
			for _, id := range got {
				if !wantSet[id] {
					cls = "emission-from-failed-action-or-guard"
				}
			}
			via := "walk"
			if viaCrew {
				via = "crew"
			}
			rec.Violation("C08:"+cls+":"+via, fmt.Sprintf("observed emission ids %v, expected %v", got, want), cc)
			return
		}
		failed := false
		for p, f := range j.fs {
			if f != "none" {
				failed = true
				if j.ks[p] > 0 {
					rec.Bucket("failure_after_emit")
				}
				switch f {
				case "loop":
					rec.Bucket("failure_timeout")
				case "outbad", "outnan":
					rec.Bucket("failure_out_unserialisable")
				case "throw":
				default:
					rec.Bucket("failure_bad_return")
				}
				rec.Bucket([]string{"position_first", "position_middle", "position_last"}[p])
			}
		}
		for _, g := range j.guards {
			if g != "none" {
				rec.Bucket("guard_emitted_nothing")
				if strings.HasPrefix(g, "reject") && g != "reject" {
					rec.Bucket("several_rejecting_guards_before_followed_branch")
				}
				if strings.HasPrefix(g, "nomatch") {
					rec.Bucket("many_branches_before_followed_branch")
				}
				if g != "accept" {
					failed = true
				}
			}
		}
		if failed && len(want) > 0 {
			rec.Nontrivial(fw.Canon(cc.Descr) + fmt.Sprint(j.setting, viaCrew))
			if i%1500 == 7 {
				rec.Sample(map[string]interface{}{"chain": cc.Descr, "settings": j.setting, "via_crew": viaCrew, "observed_ids": got})
			}
		}
	})
	limitedCrew(cfg, rec)
	emissionsSurviveALaterTimeout(rec)
	handles(cfg, rec)
}
