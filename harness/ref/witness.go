package ref

// FitsWitnessed decides whether some embedding of the pattern under sigma
// exists in which every tracked variable has a witness: at least one of its
// occurrences is matched against an actual part of the message (rather than
// being excused as an absent optional property / element).  A binding without
// any witness came from nowhere - say from a candidate that was rejected.

type wfit struct {
	sigma map[string]interface{}
	o     FitOpts
	bit   map[string]uint
}

type maskSet map[uint]bool

func single(m uint) maskSet { return maskSet{m: true} }

func cross(a, b maskSet) maskSet {
	out := maskSet{}
	for x := range a {
		for y := range b {
			out[x|y] = true
		}
	}
	return out
}

func FitsWitnessed(p interface{}, sigma map[string]interface{}, f interface{}, o FitOpts, tracked []string) bool {
	w := &wfit{sigma: sigma, o: o, bit: map[string]uint{}}
	var full uint
	for i, v := range tracked {
		w.bit[v] = 1 << uint(i)
		full |= 1 << uint(i)
	}
	return w.ach(p, f)[full]
}

func (w *wfit) ach(p, f interface{}) maskSet {
	switch pv := p.(type) {
	case string:
		if IsVar(pv) && !IsAnon(pv) {
			if b, tracked := w.bit[pv]; tracked {
				c := &fitter{sigma: w.sigma, o: w.o}
				if c.fitsVar(pv, f, "") {
					return single(b)
				}
				return maskSet{}
			}
		}
	case map[string]interface{}:
		fm, ok := f.(map[string]interface{})
		if !ok {
			return maskSet{}
		}
		if len(pv) == 0 {
			return single(0)
		}
		for k, v := range pv {
			if IsVar(k) {
				if len(pv) != 1 {
					return maskSet{}
				}
				out := maskSet{}
				if IsAnon(k) {
					for _, fv := range fm {
						for m := range w.ach(v, fv) {
							out[m] = true
						}
					}
					return out
				}
				ks, isStr := w.sigma[k].(string)
				if !isStr {
					return maskSet{}
				}
				fv, have := fm[ks]
				if !have {
					return maskSet{}
				}
				out = w.ach(v, fv)
				if b, tracked := w.bit[k]; tracked {
					out = cross(out, single(b))
				}
				return out
			}
		}
		acc := single(0)
		for k, v := range pv {
			fv, have := fm[k]
			if !have {
				if s, isStr := v.(string); isStr && IsOptional(s) {
					continue // excused: no witness gained
				}
				return maskSet{}
			}
			acc = cross(acc, w.ach(v, fv))
			if len(acc) == 0 {
				return acc
			}
		}
		return acc
	case []interface{}:
		fa, ok := f.([]interface{})
		if !ok {
			return maskSet{}
		}
		var elems []interface{}
		for _, e := range pv {
			if s, isStr := e.(string); isStr && IsOptional(s) {
				if _, bound := w.sigma[s]; !bound {
					continue
				}
			}
			elems = append(elems, e)
		}
		// achievable masks per (pattern element, message element)
		table := make([][]maskSet, len(elems))
		for i, e := range elems {
			table[i] = make([]maskSet, len(fa))
			for j, fe := range fa {
				table[i][j] = w.ach(e, fe)
			}
		}
		out := maskSet{}
		seen := map[[3]uint]bool{}
		var dfs func(i int, used uint, mask uint)
		dfs = func(i int, used uint, mask uint) {
			key := [3]uint{uint(i), used, mask}
			if seen[key] {
				return
			}
			seen[key] = true
			if i == len(elems) {
				out[mask] = true
				return
			}
			for j := range fa {
				if used&(1<<uint(j)) != 0 {
					continue
				}
				for m := range table[i][j] {
					dfs(i+1, used|1<<uint(j), mask|m)
				}
			}
		}
		if len(fa) <= 30 {
			dfs(0, 0, 0)
		}
		return out
	}
	// scalars, untracked and anonymous variables
	c := &fitter{sigma: w.sigma, o: w.o}
	if c.fits(p, f, "") {
		return single(0)
	}
	return maskSet{}
}
