#!/usr/bin/env python3
"""Regenerates /verif/MANIFEST.json from the table below (keeps it valid at all times)."""
import json

# id -> (level, technique, level text, level note, design ref)
CLAIMED = {
 "C01": ("exploration", "runtime witness checker on every Match result (independent containment checker)",
         "Every binding set returned by match.Match on ~4e5 (quick) / 1.2e7 (thorough) generated pattern/message/bindings triples is verified by an independent checker (extends given bindings, binds only pattern variables, substituted pattern contained in the message). Held-on-observed, not a proof; input-quantified property so bounded random exploration with constructive feature buckets is the reachable level for a monitor.",
         "Trusts the ~300-line checker ref/fits.go and the generator staying inside the supported fragment; sizes bounded (depth<=5, width<=4).", "DESIGN.md §4 C01"),
 "C02": ("exploration", "planted-witness monitor + brute-force embedding differential + exhaustive small space, observed on the real matcher",
         "The planted assignment must be among Match's results for ~3e5/6e6 planted and inflated messages; for plain once-only variables the result set must equal a brute-force enumeration of embeddings; all supported pattern/message pairs over alphabet {a,b}, variables {?x,?y} up to the node bounds are enumerated completely (that sub-space only is exhaustive). Bounded exploration otherwise.",
         "Trusts ref/fits.go (checker) and the brute-force candidate set (sub-terms / property names of the message); side conditions of the property (sets, scalar repeated variables) are enforced by the generator.", "DESIGN.md §4 C02"),
 "C03": ("exploration", "repetition/permutation differential + before/after snapshots + Go race detector on a shared pattern",
         "Each of 3e4/4e5 cases is evaluated 48/192 times with maps rebuilt in different insertion orders (all permutations of small top-level pattern maps); outcome multisets must coincide, inputs must equal their snapshots, results must be independent maps; 32 goroutines match one shared pattern object under -race with results compared to the sequential ones.",
         "Relies on Go's small-map iteration being a rotation of insertion order; race detector sees only interleavings that occurred.", "DESIGN.md §4 C03"),
 "C04": ("exploration", "executable reference model of the documented step rule compared with Spec.Step at run time",
         "An independent ~250-line transcription of the documented processing rule is compared with Spec.Step on every enumerated single-node configuration (the reduced vocabulary is enumerated completely: natively in both tiers, with ECMAScript actions in thorough; the full vocabulary natively in thorough) and on every stride of random 3-node specs, native and ECMAScript renderings. Reference-model differential, held-on-observed.",
         "Trusts the transcription ref/step.go (sources cited in its comments), the DSL reference evaluator, and the real matcher for branch patterns (itself monitored by C01-C03); error texts compared by marker containment.", "DESIGN.md §4 C04"),
}

NOT_YET = "check not built yet in this session (planned: see DESIGN.md §4)"

props = [json.loads(l) for l in open('/verif/properties.jsonl')]
checks = []
na = []
for p in props:
    i = p['id']
    if i in CLAIMED:
        level, tech, text, note, ref = CLAIMED[i]
        checks.append({
            "property_id": i,
            "quick_cmd": f"./check {i} --tier quick",
            "thorough_cmd": f"./check {i} --tier thorough",
            "evidence_file": f"/verif/evidence/{i}.json",
            "replay_cmd_template": f"./check {i} --replay {{path}}",
            "engine": "vrun",
            "level_claimed": {"category": level, "text": text, "design_ref": ref},
            "level_note": note,
            "technique": tech,
        })
    else:
        na.append({"property_id": i, "reason": NOT_YET})

hooks_commits = [l.strip() for l in open('/verif/MANIFEST.hooks')] if __import__('os').path.exists('/verif/MANIFEST.hooks') else []
hooks_commits = [c for c in hooks_commits if c and not c.startswith('#')]
m = {
 "version": 1,
 "setup_cmd": "./check --warm",
 "hooks": {
   "guard": "verif",
   "enable": "go build/test -tags verif (children are built by harness/cmd/vrun; in-package monitors are injected with -overlay, no file is written into /repo)",
   "baseline_off_cmd": "cd /repo && GOFLAGS=-mod=mod GOPROXY=off GOSUMDB=off GOTOOLCHAIN=local go test -vet=off -count=1 -timeout 25m ./...",
   "source_commits": hooks_commits,
   "add_only": True,
 },
 "engines": [
   {"name": "vrun", "path": "/verif/harness/cmd/vrun", "serves_properties": [c["property_id"] for c in checks],
    "kind_free_text": "Go parent driver: builds child processes (plain / -race / in-package test binaries via -overlay) from /repo's working tree, runs workload batches under watchdogs, parses race-detector logs, aggregates monitor observations, matches known findings, writes evidence"},
 ],
 "checks": checks,
 "not_applicable": na,
 "notes": "Technique family: runtime monitoring and sanitizers. VERIF_SEED selects the case lists (default 1). Exit 0 = held on everything observed (KNOWN-FINDING lines are printed for listed findings); exit 1 + VIOLATION line otherwise; exit 2 = the tree does not build.",
}
json.dump(m, open('/verif/MANIFEST.json', 'w'), indent=1)
print("claimed", len(checks), "not_applicable", len(na))
