// vchild runs one batch of one property's workload in-process and writes the
// result for the parent.
package main

import (
	"fmt"
	"os"

	"verif/fw"
	"verif/props/c01"
	"verif/props/c02"
	"verif/props/c03"
	"verif/props/c04"
	"verif/props/c05"
	"verif/props/c06"
	"verif/props/c07"
	"verif/props/c08"
	"verif/props/c09"
	"verif/props/c10"
	"verif/props/c11"
	"verif/props/c12"
	"verif/props/c13"
	"verif/props/c14"
	"verif/props/c15"
	"verif/props/c17"
	"verif/props/c18"
	"verif/props/c19"
	"verif/props/c20"
)

var registry = map[string]func(fw.Config, *fw.Rec){
	"C01": c01.Run,
	"C02": c02.Run,
	"C03": c03.Run,
	"C04": c04.Run,
	"C05": c05.Run,
	"C06": c06.Run,
	"C07": c07.Run,
	"C08": c08.Run,
	"C09": c09.Run,
	"C10": c10.Run,
	"C11": c11.Run,
	"C12": c12.Run,
	"C13": c13.Run,
	"C14": c14.Run,
	"C15": c15.Run,
	"C17": c17.Run,
	"C18": c18.Run,
	"C19": c19.Run,
	"C20": c20.Run,
}

func main() {
	if name := os.Getenv("VERIF_DEEPCASE"); name != "" {
		// one deep-value case of C07, in a process of its own
		os.Exit(c07.DeepCase(name))
	}
	cfg, err := fw.ChildConfig()
	if err != nil {
		fmt.Fprintln(os.Stderr, err)
		os.Exit(2)
	}
	run, ok := registry[cfg.Prop]
	if !ok {
		fmt.Fprintln(os.Stderr, "no workload for", cfg.Prop)
		os.Exit(2)
	}
	if err := fw.ChildRun(cfg, run); err != nil {
		fmt.Fprintln(os.Stderr, err)
		os.Exit(2)
	}
}
