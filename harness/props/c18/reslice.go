package c18

// A native action or guard that overwrites an array-valued permanent binding with a part of
// the very array it found (pop: l[:len-1]; clear: l[:0]; shift: l[1:]; a shorter copy) - in
// the map it was given or in a copy.  The binding must come back as it was, in the state the
// stride ends in and in what a rejecting guard leaves for the next branch.

import (
	"context"
	"fmt"

	"github.com/Comcast/sheens/core"
	"github.com/Comcast/sheens/match"

	"verif/fw"
)

func reslicedPermanent(rec *fw.Rec) {
	orig := func() match.Bindings {
		return match.Bindings{"log!": []interface{}{"a", "b", "c"}, "nums!": []interface{}{1.0, 2.0, 3.0, 4.0}, "x": 1.0}
	}
	want := fw.Canon(map[string]interface{}{"log!": []interface{}{"a", "b", "c"}, "nums!": []interface{}{1.0, 2.0, 3.0, 4.0}})
	cuts := map[string]func(l []interface{}) []interface{}{
		"pop":          func(l []interface{}) []interface{} { return l[:len(l)-1] },
		"clear":        func(l []interface{}) []interface{} { return l[:0] },
		"shift":        func(l []interface{}) []interface{} { return l[1:] },
		"shorter-copy": func(l []interface{}) []interface{} { return append([]interface{}{}, l[:1]...) },
		"capped":       func(l []interface{}) []interface{} { return l[:2:2] },
	}
	permOf := func(bs match.Bindings) string {
		m := map[string]interface{}{}
		for k, v := range bs {
			if len(k) > 0 && k[len(k)-1] == '!' {
				m[k] = v
			}
		}
		return fw.Canon(m)
	}
	ok := true
	for name, cut := range cuts {
		for _, where := range []string{"in-place", "in-a-copy"} {
			for _, position := range []string{"action", "guard-accepts", "guard-rejects", "action-fails"} {
				act := &core.FuncAction{F: func(_ context.Context, bs match.Bindings, _ core.StepProps) (*core.Execution, error) {
					work := bs
					if where == "in-a-copy" {
						work = bs.Copy()
					}
					for _, k := range []string{"log!", "nums!"} {
						if l, is := work[k].([]interface{}); is && len(l) > 0 {
							work[k] = cut(l)
						}
					}
					switch position {
					case "guard-rejects":
						return core.NewExecution(nil), nil
					case "action-fails":
						return nil, fmt.Errorf("after the cut")
					}
					return core.NewExecution(work), nil
				}}
				spec := &core.Spec{Name: "reslice", ActionErrorBranches: position == "action-fails", Nodes: map[string]*core.Node{"done": {}, "other": {}}}
				if position == "action" || position == "action-fails" {
					spec.Nodes["start"] = &core.Node{Action: act, Branches: &core.Branches{Type: "bindings", Branches: []*core.Branch{{Target: "done"}}}}
				} else {
					spec.Nodes["start"] = &core.Node{Branches: &core.Branches{Type: "bindings", Branches: []*core.Branch{{Guard: act, Target: "done"}, {Target: "other"}}}}
				}
				replay := map[string]interface{}{"cut": name, "where": where, "position": position}
				if err := spec.Compile(context.Background(), nil, false); err != nil {
					rec.Inconclusive("reslice spec: " + err.Error())
					return
				}
				var stride *core.Stride
				var err error
				if rec.Guard("C18:reslice", replay, func() {
					stride, err = spec.Step(context.Background(), &core.State{NodeName: "start", Bs: orig()}, nil, nil, nil)
				}) {
					ok = false
					continue
				}
				rec.Eval(1)
				if err != nil || stride == nil || stride.To == nil {
					rec.Violation("C18:reslice:no-stride", fmt.Sprintf("step: stride=%v err=%v", stride != nil, err), replay)
					ok = false
					continue
				}
				if got := permOf(stride.To.Bs); got != want {
					rec.Violation("C18:permanent-binding-altered:resliced", fmt.Sprintf("a native %s that overwrites array-valued permanent bindings with a part of the array it found (%s, %s): the stride ends at %s with permanent bindings %s, they were %s", position, name, where, stride.To.NodeName, got, want), replay)
					ok = false
				}
			}
		}
	}
	if ok {
		rec.Bucket("array_valued_permanent_bindings_resliced_by_native_code")
	}
}
