package ref

import (
	"fmt"
	"strings"

	"github.com/Comcast/sheens/core"

	"verif/fw"
)

// Observed is what one call of Spec.Step produced.
type Observed struct {
	Err       string
	HasErr    bool
	HasStride bool
	To        *AState
	Consumed  bool
	Emitted   []interface{}
}

func plainBs(bs map[string]interface{}) map[string]interface{} {
	if bs == nil {
		return nil
	}
	p, ok := fw.FromJSONSafe(fw.Canon(bs))
	if !ok {
		return map[string]interface{}{"!unserialisable": fw.Canon(bs)}
	}
	m, _ := p.(map[string]interface{})
	return m
}

// ToAState converts a core state into plain form.
func ToAState(s *core.State) *AState {
	if s == nil {
		return nil
	}
	return &AState{Node: s.NodeName, Bs: plainBs(s.Bs)}
}

// Observe converts a stride and error.
func Observe(stride *core.Stride, err error) Observed {
	o := Observed{}
	if err != nil {
		o.HasErr = true
		o.Err = err.Error()
	}
	if stride != nil {
		o.HasStride = true
		o.To = ToAState(stride.To)
		o.Consumed = stride.Consumed != nil
		if stride.Events != nil {
			for _, e := range stride.Events.Emitted {
				p, ok := fw.FromJSONSafe(fw.Canon(e))
				if !ok {
					p = fw.Canon(e)
				}
				o.Emitted = append(o.Emitted, p)
			}
		}
	}
	return o
}

// looseEq compares an expected value with an observed one; a string that is a
// known failure marker is matched by containment (error texts carry positions
// and prefixes the property does not pin down).
func looseEq(exp, obs interface{}, markers map[string]bool) bool {
	if es, ok := exp.(string); ok {
		if os, ok2 := obs.(string); ok2 {
			if es == os {
				return true
			}
			return markers[es] && strings.Contains(os, es)
		}
		return false
	}
	switch ev := exp.(type) {
	case map[string]interface{}:
		ov, ok := obs.(map[string]interface{})
		if !ok || len(ov) != len(ev) {
			return false
		}
		for k, v := range ev {
			w, have := ov[k]
			if !have || !looseEq(v, w, markers) {
				return false
			}
		}
		return true
	case []interface{}:
		ov, ok := obs.([]interface{})
		if !ok || len(ov) != len(ev) {
			return false
		}
		for i := range ev {
			if !looseEq(ev[i], ov[i], markers) {
				return false
			}
		}
		return true
	}
	return fw.Canon(exp) == fw.Canon(obs)
}

func emittedEq(exp, obs []interface{}) bool {
	if len(exp) != len(obs) {
		return false
	}
	for i := range exp {
		if fw.Canon(exp[i]) != fw.Canon(obs[i]) {
			return false
		}
	}
	return true
}

// Accept decides whether the observation is one of the acceptable outcomes.
// It returns "" or an explanation of the closest mismatch.
func Accept(outs []StepOutcome, obs Observed, given AState, markers map[string]bool) string {
	var why []string
	for _, o := range outs {
		if w := acceptOne(o, obs, given, markers); w == "" {
			return ""
		} else {
			why = append(why, o.Note+": "+w)
		}
	}
	return strings.Join(why, " | ")
}

func acceptOne(o StepOutcome, obs Observed, given AState, markers map[string]bool) string {
	if o.Err {
		if !obs.HasErr {
			// "surfaced one way or the other": an error-node state carrying the text also counts
			if obs.To != nil && obs.To.Node == "error" && o.ErrMarker != "" {
				if s, ok := obs.To.Bs["error"].(string); ok && strings.Contains(s, o.ErrMarker) {
					return ""
				}
			}
			return "expected an error (" + o.ErrMarker + "), none reported"
		}
		if o.ErrMarker != "" && !strings.Contains(obs.Err, o.ErrMarker) {
			return fmt.Sprintf("error %q does not contain %q", obs.Err, o.ErrMarker)
		}
		if obs.HasStride {
			if obs.Consumed != o.Consumed {
				return fmt.Sprintf("consumed=%v, expected %v", obs.Consumed, o.Consumed)
			}
			if !o.EmittedUnjudged && !emittedEq(o.Emitted, obs.Emitted) {
				return fmt.Sprintf("emitted %s, expected %s", fw.Short(obs.Emitted), fw.Short(o.Emitted))
			}
		}
		return ""
	}
	if obs.HasErr {
		return "unexpected error: " + obs.Err
	}
	if !obs.HasStride {
		return "no stride and no error"
	}
	if obs.Consumed != o.Consumed {
		return fmt.Sprintf("consumed=%v, expected %v", obs.Consumed, o.Consumed)
	}
	if !o.EmittedUnjudged && !emittedEq(o.Emitted, obs.Emitted) {
		return fmt.Sprintf("emitted %s, expected %s", fw.Short(obs.Emitted), fw.Short(o.Emitted))
	}
	if o.To == nil {
		if obs.To != nil {
			return "moved to " + obs.To.Node + ", expected to stay"
		}
		return ""
	}
	if obs.To == nil {
		return "stayed, expected to move to " + o.To.Node
	}
	if obs.To.Node != o.To.Node {
		return "moved to " + obs.To.Node + ", expected " + o.To.Node
	}
	if o.ErrorNodeEntry {
		bs := obs.To.Bs
		if s, ok := bs["error"].(string); !ok || !strings.Contains(s, o.ErrMarker) {
			return "error node bindings lack the error text"
		}
		if bs["lastNode"] != given.Node {
			return fmt.Sprintf("lastNode = %v, expected %q", bs["lastNode"], given.Node)
		}
		lb, ok := bs["lastBindings"].(map[string]interface{})
		if !ok {
			return "lastBindings is not a map"
		}
		for k, v := range given.Bs {
			if w, have := lb[k]; !have || !looseEq(fw.Plain(v), w, markers) {
				return "lastBindings lacks given binding " + k
			}
		}
		for k, v := range o.To.Bs {
			if k == "error" || k == "lastNode" || k == "lastBindings" {
				continue
			}
			if w, have := bs[k]; !have || !looseEq(v, w, markers) {
				return "error node bindings differ at " + k
			}
		}
		for k := range bs {
			if _, have := o.To.Bs[k]; !have {
				return "error node has unexpected binding " + k
			}
		}
		return ""
	}
	if !looseEq(map[string]interface{}(o.To.Bs), map[string]interface{}(obs.To.Bs), markers) {
		return fmt.Sprintf("bindings %s, expected %s", fw.Short(obs.To.Bs), fw.Short(o.To.Bs))
	}
	return ""
}

// SpecMarkers collects the failure markers of a spec.
func SpecMarkers(a *ASpec) map[string]bool {
	m := map[string]bool{"timeout": true, "isn't Bindings": true}
	for _, n := range a.Nodes {
		if n.Action != nil {
			for _, s := range n.Action.Markers() {
				m[s] = true
			}
		}
		if n.Branching != nil {
			for _, b := range n.Branching.Branches {
				if b.Guard != nil {
					for _, s := range b.Guard.Markers() {
						m[s] = true
					}
				}
			}
		}
	}
	return m
}
