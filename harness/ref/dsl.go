package ref

// A small deterministic action language with three back ends that must agree:
// a reference evaluator (this file, pure Go over plain JSON values), a native
// core.Action closure, and ECMAScript source text.

import (
	"context"
	"encoding/json"
	"errors"
	"fmt"
	"sort"
	"strings"

	"github.com/Comcast/sheens/core"
	"github.com/Comcast/sheens/match"

	"verif/fw"
)

// Op is one operation of a program.
type Op struct {
	Op   string      `json:"op"`           // set copy copyin del inc push keep emit emitb ifhas ifeq fail loop
	K    string      `json:"k,omitempty"`  // binding name
	K2   string      `json:"k2,omitempty"` // second name (copy)
	V    interface{} `json:"v,omitempty"`  // constant
	Ks   []string    `json:"ks,omitempty"` // keep
	Then []Op        `json:"then,omitempty"`
	Else []Op        `json:"else,omitempty"`
}

// Prog is a program: operations and a return mode.
type Prog struct {
	Ops []Op `json:"ops"`
	// Ret: same | fresh | null | number | string | array | func | nan
	Ret   string                 `json:"ret"`
	Fresh map[string]interface{} `json:"fresh,omitempty"`
	// CondKey (Ret == "cond"): return the bindings if CondKey is bound, else null.
	CondKey string `json:"condKey,omitempty"`
}

// Outcome of evaluating a program.
type Outcome struct {
	Failed  bool
	Marker  string // text that must appear in the error of a failed execution ("" = any)
	Timeout bool   // the failure is non-termination (needs a deadline)
	Null    bool   // completed, returned null (action: empty bindings; guard: reject)
	Bs      map[string]interface{}
	Emitted []interface{}
}

type failure struct {
	marker  string
	timeout bool
	null    bool // not a failure: the raw program completes returning null
}

// Eval is the reference evaluator.  in is not modified.
func (p *Prog) Eval(in map[string]interface{}) Outcome {
	bs := map[string]interface{}{}
	if in != nil {
		bs = fw.Plain(in).(map[string]interface{})
	}
	var emitted []interface{}
	f := runOps(p.Ops, bs, &emitted)
	if f != nil {
		if f.null {
			return Outcome{Null: true, Emitted: emitted}
		}
		return Outcome{Failed: true, Marker: f.marker, Timeout: f.timeout}
	}
	switch p.Ret {
	case "same":
		return Outcome{Bs: bs, Emitted: emitted}
	case "fresh":
		return Outcome{Bs: fw.Plain(p.Fresh).(map[string]interface{}), Emitted: emitted}
	case "null":
		return Outcome{Null: true, Emitted: emitted}
	case "cond":
		if _, have := bs[p.CondKey]; have {
			return Outcome{Bs: bs, Emitted: emitted}
		}
		return Outcome{Null: true, Emitted: emitted}
	default:
		return Outcome{Failed: true, Marker: "isn't Bindings"}
	}
}

func runOps(ops []Op, bs map[string]interface{}, emitted *[]interface{}) *failure {
	for _, op := range ops {
		switch op.Op {
		case "set":
			bs[op.K] = fw.Plain(op.V)
		case "copy":
			if v, have := bs[op.K]; have {
				bs[op.K2] = fw.Plain(v)
			}
		case "copyin":
			// bs[K] = bs[K2][V] if bs[K2] is an object that has V; otherwise K is unbound
			done := false
			if m, ok := bs[op.K2].(map[string]interface{}); ok {
				if v, have := m[op.V.(string)]; have {
					bs[op.K] = fw.Plain(v)
					done = true
				}
			}
			if !done {
				delete(bs, op.K)
			}
		case "del":
			delete(bs, op.K)
		case "inc":
			if v, have := bs[op.K]; !have {
				bs[op.K] = 1.0
			} else if n, ok := v.(float64); ok {
				bs[op.K] = n + 1
			}
		case "push":
			if v, have := bs[op.K]; !have {
				bs[op.K] = []interface{}{fw.Plain(op.V)}
			} else if a, ok := v.([]interface{}); ok {
				bs[op.K] = append(a, fw.Plain(op.V))
			}
		case "keep":
			for k := range bs {
				keep := false
				for _, kk := range op.Ks {
					if kk == k {
						keep = true
					}
				}
				if !keep {
					delete(bs, k)
				}
			}
		case "emit":
			*emitted = append(*emitted, fw.Plain(op.V))
		case "emitb":
			m := fw.Plain(op.V).(map[string]interface{})
			if v, have := bs[op.K]; have {
				m["v"] = fw.Plain(v)
			}
			*emitted = append(*emitted, m)
		case "ifhas":
			branch := op.Else
			if _, have := bs[op.K]; have {
				branch = op.Then
			}
			if f := runOps(branch, bs, emitted); f != nil {
				return f
			}
		case "ifeq":
			branch := op.Else
			if v, have := bs[op.K]; have && scalarEq(v, op.V) {
				branch = op.Then
			}
			if f := runOps(branch, bs, emitted); f != nil {
				return f
			}
		case "fail":
			return &failure{marker: op.V.(string)}
		case "raw":
			// hand-written ECMAScript (V) that fails with marker K, or (K2 == "null") completes returning null
			if op.K2 == "null" {
				return &failure{null: true}
			}
			return &failure{marker: op.K, timeout: op.K2 == "timeout"}
		case "outbad", "outnan":
			// _.out() of a value that cannot be serialised fails the action
			return &failure{marker: ""}
		case "loop":
			return &failure{marker: "timeout", timeout: true}
		default:
			panic("unknown op " + op.Op)
		}
	}
	return nil
}

func scalarEq(a, b interface{}) bool {
	switch av := a.(type) {
	case nil:
		return b == nil
	case bool:
		bv, ok := b.(bool)
		return ok && av == bv
	case float64:
		bv, ok := b.(float64)
		return ok && av == bv
	case string:
		bv, ok := b.(string)
		return ok && av == bv
	}
	return false
}

func js(x interface{}) string {
	b, err := json.Marshal(x)
	if err != nil {
		panic(err)
	}
	return string(b)
}

// JS renders the program as ECMAScript source for the sheens interpreter.
func (p *Prog) JS() string {
	var sb strings.Builder
	sb.WriteString("var bs = _.bindings;\n")
	jsOps(&sb, p.Ops, "")
	switch p.Ret {
	case "same":
		sb.WriteString("return bs;\n")
	case "fresh":
		sb.WriteString("return " + js(p.Fresh) + ";\n")
	case "null":
		sb.WriteString("return null;\n")
	case "cond":
		sb.WriteString("if (bs.hasOwnProperty(" + js(p.CondKey) + ")) { return bs; }\nreturn null;\n")
	case "number":
		sb.WriteString("return 5;\n")
	case "string":
		sb.WriteString("return \"str\";\n")
	case "array":
		sb.WriteString("return [1,2];\n")
	case "func":
		sb.WriteString("return function(){};\n")
	case "nan":
		sb.WriteString("return 0/0;\n")
	case "bool":
		sb.WriteString("return true;\n")
	default:
		panic("unknown ret " + p.Ret)
	}
	return sb.String()
}

func jsOps(sb *strings.Builder, ops []Op, ind string) {
	for _, op := range ops {
		k := js(op.K)
		switch op.Op {
		case "set":
			fmt.Fprintf(sb, "%sbs[%s] = %s;\n", ind, k, js(op.V))
		case "copy":
			fmt.Fprintf(sb, "%sif (bs.hasOwnProperty(%s)) { bs[%s] = JSON.parse(JSON.stringify(bs[%s])); }\n", ind, k, js(op.K2), k)
		case "copyin":
			k2, v := js(op.K2), js(op.V)
			fmt.Fprintf(sb, "%sif (bs[%s] !== null && typeof bs[%s] === 'object' && !Array.isArray(bs[%s]) && bs[%s][%s] !== undefined) { bs[%s] = JSON.parse(JSON.stringify(bs[%s][%s])); } else { delete bs[%s]; }\n", ind, k2, k2, k2, k2, v, k, k2, v, k)
		case "del":
			fmt.Fprintf(sb, "%sdelete bs[%s];\n", ind, k)
		case "inc":
			fmt.Fprintf(sb, "%sif (!bs.hasOwnProperty(%s)) { bs[%s] = 1; } else if (typeof bs[%s] === 'number') { bs[%s] += 1; }\n", ind, k, k, k, k)
		case "push":
			fmt.Fprintf(sb, "%sif (!bs.hasOwnProperty(%s)) { bs[%s] = [%s]; } else if (Array.isArray(bs[%s])) { bs[%s] = bs[%s].concat([%s]); }\n", ind, k, k, js(op.V), k, k, k, js(op.V))
		case "keep":
			fmt.Fprintf(sb, "%s(function(){ var ks = %s; for (var p in bs) { if (ks.indexOf(p) < 0) { delete bs[p]; } } })();\n", ind, js(op.Ks))
		case "emit":
			fmt.Fprintf(sb, "%s_.out(%s);\n", ind, js(op.V))
		case "emitb":
			fmt.Fprintf(sb, "%s(function(){ var m = %s; if (bs.hasOwnProperty(%s)) { m.v = bs[%s]; } _.out(m); })();\n", ind, js(op.V), k, k)
		case "ifhas":
			fmt.Fprintf(sb, "%sif (bs.hasOwnProperty(%s)) {\n", ind, k)
			jsOps(sb, op.Then, ind+"  ")
			fmt.Fprintf(sb, "%s} else {\n", ind)
			jsOps(sb, op.Else, ind+"  ")
			fmt.Fprintf(sb, "%s}\n", ind)
		case "ifeq":
			fmt.Fprintf(sb, "%sif (bs.hasOwnProperty(%s) && bs[%s] === %s) {\n", ind, k, k, js(op.V))
			jsOps(sb, op.Then, ind+"  ")
			fmt.Fprintf(sb, "%s} else {\n", ind)
			jsOps(sb, op.Else, ind+"  ")
			fmt.Fprintf(sb, "%s}\n", ind)
		case "fail":
			fmt.Fprintf(sb, "%sthrow new Error(%s);\n", ind, js(op.V))
		case "raw":
			fmt.Fprintf(sb, "%s%s\n", ind, op.V.(string))
		case "outbad":
			fmt.Fprintf(sb, "%s_.out({\"id\": \"unserialisable\", \"f\": function(){}});\n", ind)
		case "outnan":
			fmt.Fprintf(sb, "%s_.out({\"id\": \"nan\", \"v\": 0/0});\n", ind)
		case "loop":
			fmt.Fprintf(sb, "%swhile (true) { }\n", ind)
		default:
			panic("unknown op " + op.Op)
		}
	}
}

// NativeMode selects how a native rendering reports failure.
type NativeMode int

const (
	NativeNilErr     NativeMode = iota // (nil, err)
	NativePartialErr                   // (execution with events and bindings, err)
)

// Native renders the program as a Go action.  It copies its input first, so
// any write observed in the caller's bindings is the engine's.
func (p *Prog) Native(mode NativeMode) core.Action {
	return &core.FuncAction{F: func(ctx context.Context, bs match.Bindings, props core.StepProps) (*core.Execution, error) {
		var in map[string]interface{}
		if bs != nil {
			in = map[string]interface{}(bs)
		}
		if hasLoop(p.Ops, in) {
			<-ctx.Done()
		}
		o := p.Eval(in)
		if o.Failed {
			msg := o.Marker
			if msg == "" {
				msg = "failure"
			}
			err := errors.New(msg)
			if mode == NativePartialErr {
				exe := core.NewExecution(match.Bindings{"partial": true})
				exe.AddEmitted(map[string]interface{}{"id": "partial-from-failed-native-action"})
				return exe, err
			}
			return nil, err
		}
		var exe *core.Execution
		if o.Null {
			exe = core.NewExecution(nil)
		} else {
			exe = core.NewExecution(match.Bindings(o.Bs))
		}
		for _, e := range o.Emitted {
			exe.AddEmitted(e)
		}
		return exe, nil
	}}
}

// hasLoop reports whether evaluation on `in` reaches a loop op (the native
// rendering then waits for the context instead of spinning).
func hasLoop(ops []Op, in map[string]interface{}) bool {
	o := (&Prog{Ops: ops, Ret: "same"}).Eval(in)
	return o.Failed && o.Timeout
}

// Source renders the program as an ActionSource.
func (p *Prog) Source() *core.ActionSource {
	return &core.ActionSource{Interpreter: "ecmascript", Source: p.JS()}
}

// Permanent returns the names of permanent bindings (ending in '!').
func Permanent(bs map[string]interface{}) []string {
	var ks []string
	for k := range bs {
		if strings.HasSuffix(k, "!") {
			ks = append(ks, k)
		}
	}
	sort.Strings(ks)
	return ks
}

// Markers lists the failure markers a program can raise.
func (p *Prog) Markers() []string {
	var out []string
	var walk func(ops []Op)
	walk = func(ops []Op) {
		for _, op := range ops {
			if op.Op == "fail" {
				out = append(out, op.V.(string))
			}
			walk(op.Then)
			walk(op.Else)
		}
	}
	walk(p.Ops)
	return out
}
