package c05

// Messages that are not JSON (a Go host may hand over any value): floats that
// are NaN or infinite, and nesting deeper than a JSON decoder accepts.  The
// accounting must be the same as for any other message: consumed once, in
// order, the remainder reported truthfully, nothing dropped at a node that
// could consume it.

import (
	"context"
	"fmt"
	"math"

	"github.com/Comcast/sheens/core"
	"github.com/Comcast/sheens/match"

	"verif/fw"
)

func oddMessages(rec *fw.Rec) {
	spec := &core.Spec{Name: "odd-messages", Nodes: map[string]*core.Node{
		"start": {Branches: &core.Branches{Type: "message", Branches: []*core.Branch{{Pattern: map[string]interface{}{"v": "?x"}, Target: "got1"}}}},
		"got1":  {Branches: &core.Branches{Type: "message", Branches: []*core.Branch{{Pattern: map[string]interface{}{"v": "?y"}, Target: "got2"}}}},
		"got2":  {Branches: &core.Branches{Type: "message", Branches: []*core.Branch{{Pattern: map[string]interface{}{"v": "?z"}, Target: "got3"}}}},
		"got3":  {},
	}}
	if err := spec.Compile(context.Background(), nil, true); err != nil {
		rec.Inconclusive("odd-messages spec: " + err.Error())
		return
	}
	deep := func(n int) interface{} {
		var x interface{} = 1.0
		for i := 0; i < n; i++ {
			x = []interface{}{x}
		}
		return x
	}
	odd := map[string]interface{}{
		"nan":          math.NaN(),
		"plus-inf":     math.Inf(1),
		"minus-inf":    math.Inf(-1),
		"nested-nan":   map[string]interface{}{"stats": []interface{}{1.0, math.NaN()}},
		"deep-12000":   deep(12000),
		"go-int":       7,
		"go-int64":     int64(1) << 60,
		"func":         func() {},
		"channel":      make(chan int),
		"struct":       struct{ A int }{3},
		"byte-slice":   []byte("bytes"),
		"nonstringkey": map[int]string{1: "one"},
	}
	for name, v := range odd {
		for _, pos := range []int{0, 1, 2} {
			for _, limit := range []int{1, 2, 3, 100} {
				msgs := []interface{}{map[string]interface{}{"v": 1.0, "uid": "a"}, map[string]interface{}{"v": 2.0, "uid": "b"}, map[string]interface{}{"v": 3.0, "uid": "c"}}
				msgs[pos] = map[string]interface{}{"v": v, "uid": "odd"}
				desc := map[string]interface{}{"odd_value": name, "position": pos, "limit": limit}
				var w *core.Walked
				var err error
				if rec.Guard("C05:odd-message", desc, func() {
					w, err = spec.Walk(context.Background(), &core.State{NodeName: "start", Bs: match.Bindings{}}, append([]interface{}{}, msgs...), &core.Control{Limit: limit}, nil)
				}) {
					return
				}
				rec.Eval(1)
				if err != nil || w == nil {
					rec.Violation("C05:odd-message:walk-error", fmt.Sprintf("Walk returned walked=%v err=%v", w != nil, err), desc)
					return
				}
				// each message matches {"v": variable}: one step per message, in order
				want := limit
				if want > 3 {
					want = 3
				}
				consumed := 0
				for _, s := range w.Strides {
					if s.Consumed != nil {
						// identity: it is the very message handed over
						if fw.MapID(s.Consumed) != fw.MapID(msgs[consumed]) {
							rec.Violation("C05:odd-message:consumption-order", fmt.Sprintf("consumption %d is not message %d of the batch", consumed, consumed), desc)
							return
						}
						consumed++
					}
				}
				node := []string{"start", "got1", "got2", "got3"}[want]
				to := w.To()
				switch {
				case consumed != want:
					rec.Violation("C05:odd-message:consumed-count", fmt.Sprintf("%d of 3 messages consumed in %d strides with limit %d; each message is consumable where it arrives, so %d were expected", consumed, len(w.Strides), limit, want), desc)
					return
				case to == nil || to.NodeName != node:
					rec.Violation("C05:odd-message:final-state", fmt.Sprintf("the walk ended at %v, expected node %s", to, node), desc)
					return
				case len(w.Remaining) != 3-want:
					rec.Violation("C05:odd-message:remaining-wrong", fmt.Sprintf("%d messages reported as remaining after %d were consumed", len(w.Remaining), consumed), desc)
					return
				}
				for k, m := range w.Remaining {
					if fw.MapID(m) != fw.MapID(msgs[want+k]) {
						rec.Violation("C05:odd-message:remaining-wrong", fmt.Sprintf("remaining message %d is not message %d of the batch", k, want+k), desc)
						return
					}
				}
			}
		}
		rec.Bucket("batches_with_a_message_that_is_not_json")
	}
}
