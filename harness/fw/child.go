package fw

import (
	"encoding/json"
	"fmt"
	"os"
	"runtime"
)

// ChildConfig reads the configuration the parent passes in VERIF_CFG.
func ChildConfig() (Config, error) {
	var cfg Config
	s := os.Getenv("VERIF_CFG")
	if s == "" {
		return cfg, fmt.Errorf("VERIF_CFG not set")
	}
	if err := json.Unmarshal([]byte(s), &cfg); err != nil {
		return cfg, err
	}
	if cfg.Workers <= 0 {
		cfg.Workers = runtime.NumCPU()
	}
	return cfg, nil
}

// ChildRun executes one batch and writes the result where the parent expects it.
func ChildRun(cfg Config, run func(cfg Config, rec *Rec)) error {
	rec := NewRec()
	rec.SetCaseLog(os.Stdout)
	run(cfg, rec)
	res := rec.Result(cfg.Prop)
	js, err := json.Marshal(res)
	if err != nil {
		// A sample or replay was not serialisable; degrade rather than lose the verdict.
		for i := range res.Violations {
			res.Violations[i].Replay = fmt.Sprintf("%#v", res.Violations[i].Replay)
		}
		res.Samples = []interface{}{fmt.Sprintf("%#v", res.Samples)}
		js, err = json.Marshal(res)
		if err != nil {
			return err
		}
	}
	out := os.Getenv("VERIF_OUT")
	if out == "" {
		os.Stdout.Write(js)
		return nil
	}
	tmp := out + ".tmp"
	if err := os.WriteFile(tmp, js, 0644); err != nil {
		return err
	}
	return os.Rename(tmp, out)
}
