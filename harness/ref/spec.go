package ref

import (
	"context"
	"encoding/json"
	"fmt"
	"sort"
	"strings"

	"github.com/Comcast/sheens/core"
	"github.com/Comcast/sheens/interpreters"
	_ "github.com/Comcast/sheens/interpreters/ecmascript"
)

// ASpec is an abstract specification from which every concrete
// representation is rendered.
type ASpec struct {
	Name                string            `json:"name"`
	Nodes               map[string]*ANode `json:"nodes"`
	ErrorNode           string            `json:"errorNode,omitempty"`
	NoAutoErrorNode     bool              `json:"noErrorNode,omitempty"`
	ActionErrorBranches bool              `json:"actionErrorBranches,omitempty"`
	ActionErrorNode     string            `json:"actionErrorNode,omitempty"`
	// Interpreter, if set, is the name every source gives for its interpreter, and the
	// spec is compiled with the standard interpreter map (interpreters.Standard()).
	Interpreter string `json:"interpreter,omitempty"`
}

type ANode struct {
	Action *Prog `json:"action,omitempty"`
	// Branching nil = no branching object at all.
	Branching *ABranching `json:"branching,omitempty"`
}

type ABranching struct {
	Type     string     `json:"type,omitempty"` // "", "message", "bindings"
	Branches []*ABranch `json:"branches"`
}

type ABranch struct {
	HasPattern bool        `json:"hasPattern"`
	Pattern    interface{} `json:"pattern,omitempty"`
	Guard      *Prog       `json:"guard,omitempty"`
	Target     string      `json:"target,omitempty"`
}

func (a *ASpec) NodeNames() []string {
	ns := make([]string, 0, len(a.Nodes))
	for n := range a.Nodes {
		ns = append(ns, n)
	}
	sort.Strings(ns)
	return ns
}

// ErrNodeName is the effective error node name.
func (a *ASpec) ErrNodeName() string {
	if a.ErrorNode == "" {
		return "error"
	}
	return a.ErrorNode
}

// Core renders the spec as Go structures.  native: actions and guards are Go
// closures (with the given failure mode); otherwise ECMAScript sources.
func (a *ASpec) Core(native bool, mode NativeMode) *core.Spec {
	s := &core.Spec{
		Name:                a.Name,
		Nodes:               map[string]*core.Node{},
		ErrorNode:           a.ErrorNode,
		NoAutoErrorNode:     a.NoAutoErrorNode,
		ActionErrorBranches: a.ActionErrorBranches,
		ActionErrorNode:     a.ActionErrorNode,
	}
	for name, n := range a.Nodes {
		cn := &core.Node{}
		if n.Action != nil {
			if native {
				cn.Action = n.Action.Native(mode)
			} else {
				cn.ActionSource = n.Action.Source()
			}
		}
		if n.Branching != nil {
			cn.Branches = &core.Branches{Type: n.Branching.Type}
			for _, b := range n.Branching.Branches {
				cb := &core.Branch{Target: b.Target}
				if b.HasPattern {
					cb.Pattern = deepPlain(b.Pattern)
				}
				if b.Guard != nil {
					if native {
						cb.Guard = b.Guard.Native(mode)
					} else {
						cb.GuardSource = b.Guard.Source()
					}
				}
				cn.Branches.Branches = append(cn.Branches.Branches, cb)
			}
		}
		s.Nodes[name] = cn
	}
	if a.Interpreter != "" {
		for _, cn := range s.Nodes {
			if cn.ActionSource != nil {
				cn.ActionSource.Interpreter = a.Interpreter
			}
			if cn.Branches != nil {
				for _, cb := range cn.Branches.Branches {
					if cb.GuardSource != nil {
						cb.GuardSource.Interpreter = a.Interpreter
					}
				}
			}
		}
	}
	return s
}

func deepPlain(x interface{}) interface{} {
	b, _ := json.Marshal(x)
	var y interface{}
	json.Unmarshal(b, &y)
	return y
}

// Compiled renders and compiles.
func (a *ASpec) Compiled(native bool, mode NativeMode) (*core.Spec, error) {
	s := a.Core(native, mode)
	var interps core.Interpreters
	if a.Interpreter != "" {
		interps = interpreters.Standard()
	}
	if err := s.Compile(context.Background(), interps, true); err != nil {
		return nil, err
	}
	return s, nil
}

// JSON renders the spec as a JSON document (ECMAScript sources).
// patternsAsText: patterns are JSON text strings under patternSyntax "json".
func (a *ASpec) JSON(patternsAsText bool) string {
	doc := a.doc(patternsAsText)
	b, err := json.MarshalIndent(doc, "", "  ")
	if err != nil {
		panic(err)
	}
	return string(b)
}

func (a *ASpec) doc(patternsAsText bool) map[string]interface{} {
	doc := map[string]interface{}{"name": a.Name}
	if a.ErrorNode != "" {
		doc["errorNode"] = a.ErrorNode
	}
	if a.NoAutoErrorNode {
		doc["noErrorNode"] = true
	}
	if a.ActionErrorBranches {
		doc["actionErrorBranches"] = true
	}
	if a.ActionErrorNode != "" {
		doc["actionErrorNode"] = a.ActionErrorNode
	}
	if patternsAsText {
		doc["patternSyntax"] = "json"
	}
	nodes := map[string]interface{}{}
	for name, n := range a.Nodes {
		nd := map[string]interface{}{}
		if n.Action != nil {
			nd["action"] = map[string]interface{}{"interpreter": "ecmascript", "source": n.Action.JS()}
		}
		if n.Branching != nil {
			br := map[string]interface{}{}
			if n.Branching.Type != "" {
				br["type"] = n.Branching.Type
			}
			var bl []interface{}
			for _, b := range n.Branching.Branches {
				bd := map[string]interface{}{}
				if b.HasPattern {
					if patternsAsText {
						bd["pattern"] = js(b.Pattern)
					} else {
						bd["pattern"] = deepPlain(b.Pattern)
					}
				}
				if b.Guard != nil {
					bd["guard"] = map[string]interface{}{"interpreter": "ecmascript", "source": b.Guard.JS()}
				}
				if b.Target != "" {
					bd["target"] = b.Target
				}
				bl = append(bl, bd)
			}
			if bl != nil {
				br["branches"] = bl
			}
			nd["branching"] = br
		}
		nodes[name] = nd
	}
	doc["nodes"] = nodes
	return doc
}

// YAML renders the spec as a YAML document (block style, JSON scalars and
// flow collections for patterns; sources as literal blocks).  Keys are the
// ones the hosts' YAML loaders use for core.Spec (lower-cased field names, as
// in specs/*.yaml: "patternsyntax", "actionerrorbranches", ...).
func (a *ASpec) YAML(patternsAsText bool) string {
	var sb strings.Builder
	w := func(ind int, format string, args ...interface{}) {
		sb.WriteString(strings.Repeat("  ", ind))
		fmt.Fprintf(&sb, format, args...)
		sb.WriteString("\n")
	}
	block := func(ind int, src string) {
		for _, l := range strings.Split(strings.TrimRight(src, "\n"), "\n") {
			sb.WriteString(strings.Repeat("  ", ind))
			sb.WriteString(l)
			sb.WriteString("\n")
		}
	}
	w(0, "name: %s", js(a.Name))
	if a.ErrorNode != "" {
		w(0, "errornode: %s", js(a.ErrorNode))
	}
	if a.NoAutoErrorNode {
		w(0, "noautoerrornode: true")
	}
	if a.ActionErrorBranches {
		w(0, "actionerrorbranches: true")
	}
	if a.ActionErrorNode != "" {
		w(0, "actionerrornode: %s", js(a.ActionErrorNode))
	}
	if patternsAsText {
		w(0, "patternsyntax: json")
	}
	if len(a.Nodes) == 0 {
		w(0, "nodes: {}")
		return sb.String()
	}
	w(0, "nodes:")
	for _, name := range a.NodeNames() {
		n := a.Nodes[name]
		if n.Action == nil && n.Branching == nil {
			w(1, "%s: {}", js(name))
			continue
		}
		w(1, "%s:", js(name))
		if n.Action != nil {
			w(2, "action:")
			w(3, "interpreter: ecmascript")
			w(3, "source: |-")
			block(4, n.Action.JS())
		}
		if n.Branching != nil {
			if n.Branching.Type == "" && len(n.Branching.Branches) == 0 {
				w(2, "branching: {}")
				continue
			}
			w(2, "branching:")
			if n.Branching.Type != "" {
				w(3, "type: %s", n.Branching.Type)
			}
			if len(n.Branching.Branches) > 0 {
				w(3, "branches:")
				for _, b := range n.Branching.Branches {
					first := true
					item := func(format string, args ...interface{}) {
						prefix := "  "
						if first {
							prefix = "- "
							first = false
						}
						sb.WriteString(strings.Repeat("  ", 3))
						sb.WriteString(prefix)
						fmt.Fprintf(&sb, format, args...)
						sb.WriteString("\n")
					}
					if b.HasPattern {
						if patternsAsText {
							item("pattern: %s", js(js(b.Pattern)))
						} else {
							item("pattern: %s", js(b.Pattern))
						}
					}
					if b.Guard != nil {
						item("guard:")
						w(5, "interpreter: ecmascript")
						w(5, "source: |-")
						block(6, b.Guard.JS())
					}
					if b.Target != "" {
						item("target: %s", js(b.Target))
					}
					if first {
						item("{}")
					}
				}
			}
		}
	}
	return sb.String()
}
