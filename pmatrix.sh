#!/bin/bash
# Parallel seed matrix.  The checks build from /repo and live in /verif (absolute paths), so N
# private mount namespaces are made, each with its own copy of /repo and /verif bind-mounted over
# the originals and a share of the seeds.  Scratch: /tmp/px (removed at the end).  The originals are
# never touched while it runs; afterwards the recorded signatures are copied back into seeded/*/meta.json
# and the per-seed lines into .work/seedmatrix.out.
#   usage: pmatrix.sh [N]        (default 3)
N=${1:-3}
rm -rf /tmp/px; mkdir -p /tmp/px
if [ -n "$(git -C /repo status --porcelain)" ]; then echo "/repo not clean"; exit 2; fi
# ONLY=<regex> restricts the run to the seeds whose name matches (e.g. ONLY='^(C01|C20)')
ls -d /verif/seeded/C*/ | xargs -n1 basename | grep -E "${ONLY:-.}" > /tmp/px/all
for i in $(seq 0 $((N-1))); do
  cp -a /repo /tmp/px/repo$i
  mkdir -p /tmp/px/verif$i
  rsync -a --exclude .work --exclude replays --exclude .git /verif/ /tmp/px/verif$i/
  awk -v n=$N -v i=$i 'NR%n==i' /tmp/px/all > /tmp/px/list$i
  unshare -m bash -c "mount --bind /tmp/px/repo$i /repo && mount --bind /tmp/px/verif$i /verif && cd /verif && mkdir -p .work && SEEDLIST=/tmp/px/list$i ./seedmatrix.sh > /tmp/px/out$i 2>&1" &
done
wait
mkdir -p /verif/.work
cat /tmp/px/out* | sort > /verif/.work/seedmatrix${ONLY:+.part}.out
# a violation that only the load of the parallel runs produced must not pass for a detection:
# the signatures that fired are compared with those recorded when the seed was last run alone
for i in $(seq 0 $((N-1))); do
  while read -r name; do
    python3 - /verif/seeded/$name/meta.json /tmp/px/verif$i/seeded/$name/meta.json $name <<'PY'
import json,sys
old=json.load(open(sys.argv[1])).get('detected_by',{}).get('signatures',[])
new=json.load(open(sys.argv[2])).get('detected_by',{}).get('signatures',[])
key=lambda s: ':'.join(s.split(':')[:2])
if new and old and not (set(map(key,old)) & set(map(key,new))):
    print("OTHER-SIGNATURES %s: recorded %s, now %s - run it alone (seedrun.sh)" % (sys.argv[3], old, new))
PY
    cp /tmp/px/verif$i/seeded/$name/meta.json /verif/seeded/$name/meta.json
  done < /tmp/px/list$i
done
OUT=/verif/.work/seedmatrix${ONLY:+.part}.out
echo "seeds: $(wc -l < /tmp/px/all)  detected (rc=1): $(grep -c 'rc=1' $OUT)  not detected: $(grep -vc 'rc=1' $OUT)"
grep -v 'rc=1' $OUT
rm -rf /tmp/px
