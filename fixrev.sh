#!/bin/bash
# Reverse one fix commit in /repo's working tree, run the given checks (quick), undo.
#   fixrev.sh <commit> <ID> [ID...]
commit=$1; shift
cd /repo || exit 2
if [ -n "$(git status --porcelain)" ]; then echo "/repo not clean"; exit 2; fi
if ! git show $commit | git apply -R --check 2>/dev/null; then echo "$commit: reversal does not apply cleanly"; exit 3; fi
git show $commit | git apply -R
if ! GOFLAGS=-mod=mod GOPROXY=off GOSUMDB=off GOTOOLCHAIN=local go build ./... 2>/dev/null; then echo "$commit: tree does not build with the fix reversed"; git checkout -- .; exit 4; fi
for id in "$@"; do
  out=$(cd /verif && ./check $id --tier ${TIER:-quick} --seed ${SEED:-1} 2>&1); rc=$?
  echo "$id $commit reversed: rc=$rc $(echo "$out" | grep -- '^--- ' | sed 's/.*sig=//' | sort -u | head -5 | tr '\n' ';')"
done
git checkout -- .
