// Package ref holds the reference models the monitors compare the real code
// against.  fits.go: an independent *checker* for the documented partial
// matching rules (README "Pattern matching", match/match.md, doc/rfc.md).
// It verifies a given assignment; it does not search for one and shares no
// code with match.Match.
package ref

import (
	"strings"

	"verif/fw"
)

func IsVar(s string) bool      { return strings.HasPrefix(s, "?") }
func IsAnon(s string) bool     { return s == "?" }
func IsOptional(s string) bool { return strings.HasPrefix(s, "??") }

// Inequality splits an inequality variable "?<=n" into ("<=", "?n").
func Inequality(v string) (op, counterpart string, ok bool) {
	if len(v) < 3 || v[0] != '?' {
		return "", "", false
	}
	rest := v[1:]
	for _, o := range []string{"<=", ">=", "!=", ">", "<"} {
		if strings.HasPrefix(rest, o) {
			name := rest[len(o):]
			if name == "" {
				return "", "", false
			}
			return o, "?" + name, true
		}
	}
	return "", "", false
}

func rel(op string, a, b float64) bool {
	switch op {
	case "<":
		return a < b
	case "<=":
		return a <= b
	case ">":
		return a > b
	case ">=":
		return a >= b
	case "!=":
		return a != b
	}
	return false
}

// FitOpts configures the checker.
type FitOpts struct {
	// In are the bindings the match was given (pre-bound variables,
	// inequality bounds).
	In map[string]interface{}
	// Exact: a variable that was not pre-bound must equal the fact at each
	// of its occurrences (embedding mode).  Otherwise containment suffices.
	Exact bool
}

// Contains reports whether constant c (no variables) is contained in fact f
// under partial matching: scalars equal, map keys of c present in f with
// contained values, array elements of c matched by distinct elements of f.
func Contains(c, f interface{}) bool {
	switch cv := c.(type) {
	case nil:
		return f == nil
	case bool:
		fv, ok := f.(bool)
		return ok && fv == cv
	case float64:
		fv, ok := f.(float64)
		return ok && fv == cv
	case string:
		fv, ok := f.(string)
		return ok && fv == cv
	case map[string]interface{}:
		fm, ok := f.(map[string]interface{})
		if !ok {
			return false
		}
		for k, v := range cv {
			fv, have := fm[k]
			if !have || !Contains(v, fv) {
				return false
			}
		}
		return true
	case []interface{}:
		fa, ok := f.([]interface{})
		if !ok {
			return false
		}
		adj := make([][]int, len(cv))
		for i, ce := range cv {
			for j, fe := range fa {
				if Contains(ce, fe) {
					adj[i] = append(adj[i], j)
				}
			}
		}
		return injective(adj, len(fa))
	}
	return false
}

// injective decides whether every left vertex can be assigned a distinct right vertex.
func injective(adj [][]int, nRight int) bool {
	matchR := make([]int, nRight)
	for i := range matchR {
		matchR[i] = -1
	}
	var try func(u int, seen []bool) bool
	try = func(u int, seen []bool) bool {
		for _, v := range adj[u] {
			if seen[v] {
				continue
			}
			seen[v] = true
			if matchR[v] < 0 || try(matchR[v], seen) {
				matchR[v] = u
				return true
			}
		}
		return false
	}
	for u := range adj {
		if !try(u, make([]bool, nRight)) {
			return false
		}
	}
	return true
}

// Fits checks that sigma embeds pattern p into message f.  The second result
// explains a failure.  unsupported=true means p is outside the supported
// fragment at a place the checker reached.
func Fits(p interface{}, sigma map[string]interface{}, f interface{}, o FitOpts) (ok bool, why string, unsupported bool) {
	c := &fitter{sigma: sigma, o: o}
	ok = c.fits(p, f, "$")
	return ok, c.why, c.unsupported
}

type fitter struct {
	sigma       map[string]interface{}
	o           FitOpts
	why         string
	unsupported bool
}

func (c *fitter) fail(path, msg string) bool {
	if c.why == "" {
		c.why = path + ": " + msg
	}
	return false
}

func (c *fitter) fitsVar(v string, f interface{}, path string) bool {
	if IsAnon(v) {
		return true
	}
	if op, cp, is := Inequality(v); is {
		if b, numeric := c.o.In[v].(float64); numeric {
			a, fnum := f.(float64)
			if !fnum {
				return c.fail(path, "inequality variable "+v+" against a non-numeric fact")
			}
			if !rel(op, a, b) {
				return c.fail(path, "inequality "+v+" not satisfied")
			}
			if pre, have := c.o.In[cp]; have {
				if _, isnum := pre.(float64); !isnum {
					// counterpart pre-bound to a non-number: nothing more is stated
					return true
				}
			}
			got, have := c.sigma[cp]
			if !have {
				return c.fail(path, "counterpart "+cp+" of "+v+" not bound")
			}
			g, isnum := got.(float64)
			if !isnum || g != a {
				return c.fail(path, "counterpart "+cp+" does not equal the matched number")
			}
			return true
		}
	}
	val, bound := c.sigma[v]
	if !bound {
		if IsOptional(v) {
			return true
		}
		return c.fail(path, "variable "+v+" not bound")
	}
	if _, pre := c.o.In[v]; !pre && c.o.Exact {
		if fw.Canon(val) != fw.Canon(f) {
			return c.fail(path, "variable "+v+" does not equal the fact (exact mode)")
		}
		return true
	}
	if !Contains(val, f) {
		return c.fail(path, "value of "+v+" is not contained in the fact")
	}
	return true
}

func (c *fitter) fits(p, f interface{}, path string) bool {
	switch pv := p.(type) {
	case nil:
		if f != nil {
			return c.fail(path, "null vs non-null")
		}
		return true
	case bool:
		fv, ok := f.(bool)
		if !ok || fv != pv {
			return c.fail(path, "bool mismatch")
		}
		return true
	case float64:
		fv, ok := f.(float64)
		if !ok || fv != pv {
			return c.fail(path, "number mismatch")
		}
		return true
	case string:
		if !IsVar(pv) {
			fv, ok := f.(string)
			if !ok || fv != pv {
				return c.fail(path, "string mismatch")
			}
			return true
		}
		return c.fitsVar(pv, f, path)
	case map[string]interface{}:
		fm, ok := f.(map[string]interface{})
		if !ok {
			return c.fail(path, "map pattern vs non-map")
		}
		if len(pv) == 0 {
			return true
		}
		nvar := 0
		for k := range pv {
			if IsVar(k) {
				nvar++
			}
		}
		if nvar > 0 {
			if len(pv) != 1 {
				c.unsupported = true
				return c.fail(path, "variable key with other keys")
			}
			for k, v := range pv {
				if IsAnon(k) {
					for fk, fv := range fm {
						sub := &fitter{sigma: c.sigma, o: c.o}
						if sub.fits(v, fv, path+"."+fk) {
							return true
						}
					}
					return c.fail(path, "anonymous key: no entry fits")
				}
				kv, bound := c.sigma[k]
				if !bound {
					return c.fail(path, "key variable "+k+" not bound")
				}
				ks, isStr := kv.(string)
				if !isStr {
					return c.fail(path, "key variable "+k+" bound to a non-string")
				}
				fv, have := fm[ks]
				if !have {
					return c.fail(path, "key variable "+k+" names an absent key")
				}
				return c.fits(v, fv, path+"."+ks)
			}
		}
		for k, v := range pv {
			fv, have := fm[k]
			if !have {
				if s, isStr := v.(string); isStr && IsOptional(s) {
					continue
				}
				return c.fail(path, "key "+k+" absent")
			}
			if !c.fits(v, fv, path+"."+k) {
				return false
			}
		}
		return true
	case []interface{}:
		fa, ok := f.([]interface{})
		if !ok {
			return c.fail(path, "array pattern vs non-array")
		}
		nvar := 0
		for _, e := range pv {
			if s, isStr := e.(string); isStr && IsVar(s) {
				nvar++
			}
		}
		if nvar > 1 {
			c.unsupported = true
			return c.fail(path, "more than one variable directly in an array")
		}
		var adj [][]int
		for _, e := range pv {
			if s, isStr := e.(string); isStr && IsOptional(s) {
				if _, bound := c.sigma[s]; !bound {
					continue // lenient: an unbound optional variable needs no element
				}
			}
			var row []int
			for j, fe := range fa {
				sub := &fitter{sigma: c.sigma, o: c.o}
				if sub.fits(e, fe, path) {
					row = append(row, j)
				}
				if sub.unsupported {
					c.unsupported = true
				}
			}
			adj = append(adj, row)
		}
		if !injective(adj, len(fa)) {
			return c.fail(path, "no assignment of pattern elements to distinct message elements")
		}
		return true
	}
	c.unsupported = true
	return c.fail(path, "unknown pattern type")
}

// VarInfo describes the variables of a pattern.
type VarInfo struct {
	Count   map[string]int  // occurrences
	AsKey   map[string]bool // occurs as a property name
	AsValue map[string]bool // occurs in a value / element position
	// Supported: at most one variable directly inside any array; a variable
	// property name only as the sole key of its map.
	Supported bool
	InArray   map[string]bool
}

// Vars analyses a pattern.
func Vars(p interface{}) *VarInfo {
	vi := &VarInfo{Count: map[string]int{}, AsKey: map[string]bool{}, AsValue: map[string]bool{}, InArray: map[string]bool{}, Supported: true}
	var walk func(x interface{})
	walk = func(x interface{}) {
		switch t := x.(type) {
		case string:
			if IsVar(t) {
				vi.Count[t]++
				vi.AsValue[t] = true
			}
		case map[string]interface{}:
			nv := 0
			for k, v := range t {
				if IsVar(k) {
					nv++
					vi.Count[k]++
					vi.AsKey[k] = true
				}
				walk(v)
			}
			if nv > 0 && len(t) > 1 {
				vi.Supported = false
			}
		case []interface{}:
			nv := 0
			for _, e := range t {
				if s, ok := e.(string); ok && IsVar(s) {
					nv++
					vi.InArray[s] = true
				}
				walk(e)
			}
			if nv > 1 {
				vi.Supported = false
			}
		}
	}
	walk(p)
	return vi
}
