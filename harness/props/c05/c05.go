// Package c05: Walk accounting.  A history checker over core.Walked: stride
// chain continuity, ordered exactly-once consumption (unique message ids),
// step bound, truthful stop reason, quiescence probes, agreement of every
// stride with the reference step, and split equivalence.
package c05

import (
	"context"
	"fmt"
	"strings"

	"github.com/Comcast/sheens/core"
	"github.com/Comcast/sheens/match"

	"verif/fw"
	"verif/gen"
	"verif/ref"
)

func coreState(s ref.AState) *core.State {
	var bs match.Bindings
	if s.Bs != nil {
		bs = match.Bindings(fw.Deep(s.Bs).(map[string]interface{}))
	}
	return &core.State{NodeName: s.Node, Bs: bs}
}

func stateCanon(s *core.State) string {
	if s == nil {
		return "nil"
	}
	if s.Bs == nil {
		return s.NodeName + "/{}" // absent bindings are empty bindings
	}
	return s.NodeName + "/" + fw.Canon(s.Bs)
}

// WalkCase is exported for the monitors that reuse the history checker.
type WalkCase = walkCase

// CheckWalk judges one Walk under the given signature prefix and context.
func CheckWalk(ctx context.Context, rec *fw.Rec, prefix string, wc *WalkCase, spec *core.Spec, markers map[string]bool) (bool, *core.Walked) {
	return checkWalkP(ctx, rec, prefix, wc, spec, markers)
}

type walkCase struct {
	Spec       *ref.ASpec     `json:"spec"`
	Native     bool           `json:"native"`
	State      ref.AState     `json:"state"`
	Messages   []interface{}  `json:"messages"`
	Limit      int            `json:"limit"`
	Breakpoint string         `json:"breakpoint,omitempty"` // "" | node:<name> | has:<binding>
	NilControl bool           `json:"nilControl,omitempty"`
	NativeMode ref.NativeMode `json:"nativeMode,omitempty"`
	Props      bool           `json:"props,omitempty"`
	// CancelAt: the context given to Walk ends while the walk is under way - when Walk
	// evaluates its breakpoints for the CancelAt-th time (0: never; -1: before the call).
	CancelAt int `json:"cancelAt,omitempty"`
	cancel   func()
}

func (wc *walkCase) control() *core.Control {
	if wc.NilControl {
		return nil
	}
	c := &core.Control{Limit: wc.Limit}
	if wc.Breakpoint != "" {
		c.Breakpoints = map[string]core.Breakpoint{"bp": bpFunc(wc.Breakpoint)}
	}
	if wc.CancelAt > 0 && wc.cancel != nil {
		// never holds; ends the caller's context on its n-th evaluation
		if c.Breakpoints == nil {
			c.Breakpoints = map[string]core.Breakpoint{}
		}
		calls, cancel, at := 0, wc.cancel, wc.CancelAt
		c.Breakpoints["a-never"] = func(context.Context, *core.State) bool {
			calls++
			if calls == at {
				cancel()
			}
			return false
		}
	}
	return c
}

func bpFunc(spec string) core.Breakpoint {
	return func(ctx context.Context, s *core.State) bool { return bpHolds(spec, s) }
}

func bpHolds(spec string, s *core.State) bool {
	if strings.HasPrefix(spec, "node:") {
		return s.NodeName == spec[5:]
	}
	if strings.HasPrefix(spec, "has:") {
		_, have := s.Bs[spec[4:]]
		return have
	}
	return false
}

func msgsCanon(ms []interface{}) string { return fw.Canon(ms) }

// checkWalk judges one Walk.  It returns false if a violation was recorded.
func checkWalk(rec *fw.Rec, wc *walkCase, spec *core.Spec, markers map[string]bool) (ok bool, walked *core.Walked) {
	return checkWalkP(context.Background(), rec, "C05", wc, spec, markers)
}

func checkWalkP(ctx context.Context, rec *fw.Rec, prefix string, wc *walkCase, spec *core.Spec, markers map[string]bool) (ok bool, walked *core.Walked) {
	given := coreState(wc.State)
	var props core.StepProps
	if wc.Props {
		props = core.StepProps{"p": 1.0}
	}
	msgs := fw.Deep(wc.Messages).([]interface{})
	var err error
	if wc.CancelAt != 0 {
		var cancel context.CancelFunc
		ctx, cancel = context.WithCancel(ctx)
		defer cancel()
		wc.cancel = cancel
		if wc.CancelAt < 0 {
			cancel()
		}
	}
	if rec.Guard(prefix, wc, func() { walked, err = spec.Walk(ctx, given, msgs, wc.control(), props) }) {
		return false, nil
	}
	if wc.CancelAt != 0 {
		// the probes below are calls of their own
		ctx = context.Background()
		if walked != nil && walked.StoppedBecause == core.Done {
			rec.Bucket("walks_done_under_a_context_that_ended_meanwhile")
		}
	}
	rec.Eval(1)
	bad := func(cls, why string) (bool, *core.Walked) {
		rec.Violation(prefix+":"+cls, why, map[string]interface{}{"case": wc, "walked": summarize(walked)})
		return false, walked
	}
	if err != nil {
		return bad("walk-returned-error", "Walk returned an error: "+err.Error())
	}
	if walked == nil {
		return bad("nil-walked", "Walk returned nil")
	}
	// (3) step bound
	limit := wc.Limit
	if wc.NilControl {
		limit = core.DefaultControl.Limit
	}
	if limit < 0 {
		limit = 0
	}
	if len(walked.Strides) > limit {
		return bad("limit-exceeded", fmt.Sprintf("%d strides with limit %d", len(walked.Strides), wc.Limit))
	}
	// (1) chain, (2) consumption, (5) reference step per stride
	cur := coreState(wc.State)
	consumed := 0
	env := ref.Env{Native: wc.Native, NativeMode: wc.NativeMode}
	for i, s := range walked.Strides {
		if s == nil || s.From == nil {
			return bad("nil-stride", fmt.Sprintf("stride %d is nil or has no From", i))
		}
		if stateCanon(s.From) != stateCanon(cur) {
			return bad("chain-break", fmt.Sprintf("stride %d starts from %s but the previous state was %s", i, stateCanon(s.From), stateCanon(cur)))
		}
		var pending interface{}
		if consumed < len(wc.Messages) {
			pending = wc.Messages[consumed]
		}
		if s.Consumed != nil {
			if pending == nil || fw.Canon(s.Consumed) != fw.Canon(pending) {
				return bad("consumption-order", fmt.Sprintf("stride %d consumed %s but the next unconsumed message is %s", i, fw.Short(s.Consumed), fw.Short(pending)))
			}
		}
		from := *ref.ToAState(s.From)
		e := env
		if s.To != nil {
			if t, ok := s.To.Bs["actionError"].(string); ok {
				e.ErrText = t
			}
		}
		outs := ref.Step(wc.Spec, from, pending, e)
		if why := acceptStride(outs, s, from, markers); why != "" {
			return bad("stride-disagrees-with-step-rule:"+outs[0].Note, fmt.Sprintf("stride %d: %s", i, why))
		}
		if s.Consumed != nil {
			consumed++
		}
		if s.To != nil {
			cur = s.To
		}
	}
	rest := wc.Messages[consumed:]
	// (4) truthful stop
	switch walked.StoppedBecause {
	case core.Limited:
		if len(walked.Strides) != limit {
			return bad("limited-before-limit", fmt.Sprintf("stopped as Limited after %d strides, limit %d", len(walked.Strides), wc.Limit))
		}
		if msgsCanon(walked.Remaining) != msgsCanon(rest) && !(len(walked.Remaining) == 0 && len(rest) == 0) {
			return bad("remaining-wrong", fmt.Sprintf("Limited: Remaining %s but unconsumed are %s", fw.Short(walked.Remaining), fw.Short(rest)))
		}
		rec.Bucket("stop_limited")
	case core.BreakpointReached:
		if wc.Breakpoint == "" || !bpHolds(wc.Breakpoint, cur) {
			return bad("breakpoint-untrue", "BreakpointReached but the predicate is false on the current state "+stateCanon(cur))
		}
		if walked.BreakpointId != "bp" {
			return bad("breakpoint-id", "BreakpointReached with id "+walked.BreakpointId)
		}
		if msgsCanon(walked.Remaining) != msgsCanon(rest) && !(len(walked.Remaining) == 0 && len(rest) == 0) {
			return bad("remaining-wrong", fmt.Sprintf("Breakpoint: Remaining %s but unconsumed are %s", fw.Short(walked.Remaining), fw.Short(rest)))
		}
		rec.Bucket("stop_breakpoint")
	case core.Done:
		if len(walked.Remaining) != 0 {
			return bad("done-with-remaining", "Done but Remaining is not empty")
		}
		// quiescence probe: no further step possible without a new message
		var st *core.Stride
		var perr error
		if rec.Guard(prefix+":probe", wc, func() { st, perr = spec.Step(ctx, fw.DeepState(cur), nil, nil, nil) }) {
			return false, walked
		}
		if perr == nil && st != nil && st.To != nil {
			return bad("done-not-quiescent", fmt.Sprintf("Done at %s but a further step without a message leads to %s", stateCanon(cur), stateCanon(st.To)))
		}
		if perr != nil && cur.NodeName != "error" {
			return bad("done-not-quiescent", fmt.Sprintf("Done at %s but a further step reports an error (%v) that Walk would have turned into an error transition", stateCanon(cur), perr))
		}
		if len(rest) > 0 {
			// messages were dropped: the machine must not be at a node able to consume them
			if rec.Guard(prefix+":probe", wc, func() { st, perr = spec.Step(ctx, fw.DeepState(cur), fw.Deep(rest[0]), nil, nil) }) {
				return false, walked
			}
			if st != nil && st.Consumed != nil {
				return bad("dropped-consumable-message", fmt.Sprintf("Done at %s discarding %s, which that node consumes", stateCanon(cur), fw.Short(rest[0])))
			}
			rec.Bucket("done_with_dropped_messages")
		}
		rec.Bucket("stop_done")
	default:
		return bad("stop-reason", fmt.Sprintf("unexpected stop reason %v", walked.StoppedBecause))
	}
	// To()/From() helpers agree with the strides
	if len(walked.Strides) > 0 {
		if stateCanon(walked.From()) != stateCanon(coreState(wc.State)) {
			return bad("from-helper", "Walked.From() differs from the given state")
		}
		to := walked.To()
		moved := false
		for _, s := range walked.Strides {
			if s.To != nil {
				moved = true
			}
		}
		if moved && stateCanon(to) != stateCanon(cur) {
			return bad("to-helper", "Walked.To() differs from the last state reached")
		}
		if !moved && to != nil {
			return bad("to-helper", "Walked.To() non-nil although no stride moved")
		}
	}
	if consumed > 0 {
		rec.Bucket("walks_consuming")
	}
	if consumed > 1 {
		rec.Bucket("walks_consuming_several")
	}
	return true, walked
}

// acceptStride compares a stride recorded by Walk with the reference step;
// Walk turns a step error into a transition to the error node.
func acceptStride(outs []ref.StepOutcome, s *core.Stride, from ref.AState, markers map[string]bool) string {
	var whys []string
	for _, o := range outs {
		if o.Err {
			if from.Node == "error" {
				return "" // "We're already at an error."
			}
			if s.To == nil || s.To.NodeName != "error" {
				whys = append(whys, "step error not turned into an error transition")
				continue
			}
			txt, _ := s.To.Bs["error"].(string)
			if o.ErrMarker != "" && !strings.Contains(txt, o.ErrMarker) {
				whys = append(whys, fmt.Sprintf("error binding %q lacks %q", txt, o.ErrMarker))
				continue
			}
			if s.To.Bs["lastNode"] != from.Node {
				whys = append(whys, "lastNode wrong")
				continue
			}
			return ""
		}
		obs := ref.Observe(s, nil)
		if w := ref.Accept([]ref.StepOutcome{o}, obs, from, markers); w == "" {
			return ""
		} else {
			whys = append(whys, w)
		}
	}
	return strings.Join(whys, " | ")
}

func summarize(w *core.Walked) interface{} {
	if w == nil {
		return nil
	}
	var strides []interface{}
	for _, s := range w.Strides {
		if s == nil {
			strides = append(strides, nil)
			continue
		}
		m := map[string]interface{}{"from": stateCanon(s.From), "to": stateCanon(s.To), "consumed": s.Consumed}
		if s.Events != nil {
			m["emitted"] = s.Events.Emitted
		}
		strides = append(strides, m)
	}
	return map[string]interface{}{"strides": strides, "remaining": w.Remaining, "stopped": w.StoppedBecause.String(), "bp": w.BreakpointId}
}

func emittedOf(w *core.Walked) []string {
	var out []string
	w.DoEmitted(func(x interface{}) error { out = append(out, fw.Canon(x)); return nil })
	return out
}

// splitEquivalence: feeding the messages in consecutive batches gives the same
// final state and emissions as one Walk, if no run is stopped by the limit.
func splitEquivalence(rec *fw.Rec, wc *walkCase, spec *core.Spec, whole *core.Walked, splits [][]int) {
	ctx := context.Background()
	ctl := &core.Control{Limit: wc.Limit}
	if whole.StoppedBecause != core.Done {
		return
	}
	finalWhole := coreState(wc.State)
	if t := whole.To(); t != nil {
		finalWhole = t
	}
	emWhole := emittedOf(whole)
	for _, sp := range splits {
		cur := coreState(wc.State)
		var em []string
		stopped := false
		start := 0
		for _, size := range sp {
			batch := fw.Deep(wc.Messages[start : start+size]).([]interface{})
			start += size
			var w *core.Walked
			var err error
			if rec.Guard("C05:split", wc, func() { w, err = spec.Walk(ctx, fw.DeepState(cur), batch, ctl, nil) }) {
				return
			}
			rec.Eval(1)
			if err != nil || w == nil {
				rec.Violation("C05:walk-returned-error", "Walk returned an error on a batch", wc)
				return
			}
			if w.StoppedBecause != core.Done {
				stopped = true
				break
			}
			em = append(em, emittedOf(w)...)
			if t := w.To(); t != nil {
				cur = t
			}
		}
		if stopped {
			rec.Bucket("split_unjudged_limit")
			continue
		}
		if stateCanon(cur) != stateCanon(finalWhole) {
			rec.Violation("C05:split-final-state", fmt.Sprintf("split %v ends at %s, the single Walk at %s", sp, stateCanon(cur), stateCanon(finalWhole)),
				map[string]interface{}{"case": wc, "split": sp})
			return
		}
		if fw.Canon(em) != fw.Canon(emWhole) {
			rec.Violation("C05:split-emissions", fmt.Sprintf("split %v emits %s, the single Walk %s", sp, fw.Short(em), fw.Short(emWhole)),
				map[string]interface{}{"case": wc, "split": sp})
			return
		}
		rec.Bucket("splits_compared")
	}
}

// compositions of n into consecutive batch sizes (all 2^(n-1)).
func allSplits(n int) [][]int {
	if n == 0 {
		return [][]int{{}}
	}
	var out [][]int
	for first := 1; first <= n; first++ {
		for _, rest := range allSplits(n - first) {
			out = append(out, append([]int{first}, rest...))
		}
	}
	return out
}

// controlReuse: a host hands the same Control to walk after walk and edits its breakpoints in
// between.  What a walk reports - where it stopped, why, the remainder - is decided by the
// breakpoints the control has when the walk is made.
func controlReuse(rec *fw.Rec) {
	spec := &core.Spec{Name: "chain", Nodes: map[string]*core.Node{
		"start": {Branches: &core.Branches{Type: "message", Branches: []*core.Branch{{Pattern: map[string]interface{}{"go": "?g"}, Target: "a"}}}},
		"a":     {Branches: &core.Branches{Type: "bindings", Branches: []*core.Branch{{Target: "b"}}}},
		"b":     {Branches: &core.Branches{Type: "message", Branches: []*core.Branch{{Pattern: map[string]interface{}{"go": "?h"}, Target: "c"}}}},
		"c":     {Branches: &core.Branches{Type: "bindings", Branches: []*core.Branch{{Target: "start"}}}}}}
	if err := spec.Compile(context.Background(), nil, true); err != nil {
		rec.Inconclusive("control reuse: " + err.Error())
		return
	}
	at := func(n string) core.Breakpoint {
		return func(_ context.Context, s *core.State) bool { return s.NodeName == n }
	}
	msgs := []interface{}{map[string]interface{}{"go": 1.0}, map[string]interface{}{"go": 2.0}, map[string]interface{}{"go": 3.0}}
	walk := func(c *core.Control) string {
		w, err := spec.Walk(context.Background(), &core.State{NodeName: "start", Bs: match.Bindings{}}, fw.Deep(msgs).([]interface{}), c, nil)
		rec.Eval(1)
		if err != nil || w == nil {
			return fmt.Sprint("error ", err)
		}
		return fmt.Sprintf("%d strides, %v %q, %d remaining", len(w.Strides), w.StoppedBecause, w.BreakpointId, len(w.Remaining))
	}
	same := true
	for _, edit := range []string{"replace-predicate", "swap-id", "same-ids-new-map"} {
		used := &core.Control{Limit: 20, Breakpoints: map[string]core.Breakpoint{"bp": at("b"), "other": at("nowhere")}}
		walk(used)
		var fresh *core.Control
		switch edit {
		case "replace-predicate":
			used.Breakpoints["bp"] = at("c")
			fresh = &core.Control{Limit: 20, Breakpoints: map[string]core.Breakpoint{"bp": at("c"), "other": at("nowhere")}}
		case "swap-id":
			delete(used.Breakpoints, "bp")
			used.Breakpoints["zz"] = at("a")
			fresh = &core.Control{Limit: 20, Breakpoints: map[string]core.Breakpoint{"zz": at("a"), "other": at("nowhere")}}
		default:
			used.Breakpoints = map[string]core.Breakpoint{"bp": at("nowhere"), "other": at("nowhere")}
			fresh = &core.Control{Limit: 20, Breakpoints: map[string]core.Breakpoint{"bp": at("nowhere"), "other": at("nowhere")}}
		}
		if got, want := walk(used), walk(fresh); got != want {
			rec.Violation("C05:control-used-before", fmt.Sprintf("a walk with a control that an earlier walk had used (%s since) reports %s; the breakpoints it has now call for %s", edit, got, want), "chain start -go-> a -> b -go-> c -> start, three messages, "+edit)
			same = false
		}
	}
	if same {
		rec.Bucket("walks_with_a_control_used_before_and_edited_since")
	}
}

func Run(cfg fw.Config, rec *fw.Rec) {
	controlReuse(rec)
	rec.Rule = "random specs (1-5 nodes incl. cyclic / non-terminating, failing and bad-return actions, guards, @var and missing targets, all error settings, nodes that have an action and message branching; native and ECMAScript) x start states x sequences of 0-8 messages with unique ids (objects and the scalars false, 0, \"\") x limits {0,1,2,3,5,30,60,100,-1} x breakpoints; plus three-message batches in which one message carries a value that is not JSON (NaN, infinities, 12000-deep nesting, Go ints, functions, channels, structs, byte slices, maps with non-string keys) at every position under limits 1, 2, 3, 100: consumed once and in order, by identity; each Walked is checked as a history; a quarter of the native walks are repeated under a context that ends before the call or when Walk evaluates its breakpoints for the k-th time (k up to the number of strides + 1) and judged by the same rules; every split of sequences of <= 6 messages is compared with the single Walk; non-trivial = walk with >= 2 strides; distinct by canonical (spec,state,messages,limit,breakpoint)"
	rec.Required = []string{"stop_done", "stop_limited", "stop_breakpoint", "walks_consuming_several", "done_with_dropped_messages", "splits_compared", "ecma_walks", "scalar_messages", "specs_with_action_and_message_branching_node", "batches_with_a_message_that_is_not_json", "walks_under_a_context_that_ends_meanwhile", "walks_with_a_control_used_before_and_edited_since"}
	rec.Assume = []string{"actions and guards are deterministic; guarded branches have at most one candidate", "stride-level agreement relies on ref.Step (see C04)"}
	oddMessages(rec)
	n := cfg.Pick(30000, 600000)
	limits := []int{0, 1, 2, 3, 5, 30, 30, 60, 100, -1}
	fw.Parallel(cfg.Workers, n, func(w, i int) {
		r := cfg.Rng("c05", i)
		u := &gen.Uid{Prefix: fmt.Sprintf("w%d_", i)}
		native := i%16 != 0
		a := gen.GenSpec(r, gen.SpecOpts{MaxNodes: 5, ActionWithMessageBranching: true, Prog: gen.ProgOpts{Fail: true, BadRet: true, Emit: true}}, u)
		spec, err := a.Compiled(native, ref.NativeNilErr)
		if err != nil {
			rec.Bucket("compile_error")
			return
		}
		names := a.NodeNames()
		wc := &walkCase{Spec: a, Native: native, Limit: limits[r.Intn(len(limits))]}
		wc.State = ref.AState{Node: names[r.Intn(len(names))], Bs: gen.GenBindings(r, names)}
		if r.Intn(3) > 0 {
			wc.State.Node = "start"
		}
		nm := r.Intn(9)
		if r.Intn(3) == 0 {
			nm = r.Intn(4)
		}
		for k := 0; k < nm; k++ {
			switch r.Intn(12) {
			case 0:
				wc.Messages = append(wc.Messages, false)
				rec.Bucket("scalar_messages")
			case 1:
				wc.Messages = append(wc.Messages, 0.0)
				rec.Bucket("scalar_messages")
			case 2:
				wc.Messages = append(wc.Messages, "")
				rec.Bucket("scalar_messages")
			default:
				wc.Messages = append(wc.Messages, gen.GenAnyMessage(r, u.Next("m"), names))
			}
		}
		switch r.Intn(8) {
		case 0:
			wc.Breakpoint = "node:" + names[r.Intn(len(names))]
		case 1:
			wc.Breakpoint = "has:" + gen.BKeys[r.Intn(len(gen.BKeys))]
		}
		markers := ref.SpecMarkers(a)
		ok, walked := checkWalk(rec, wc, spec, markers)
		if !ok {
			return
		}
		if !native {
			rec.Bucket("ecma_walks")
		}
		// the caller's context ends while the walk is under way (native actions do not look
		// at it): whatever Walk then does, what it reports must still be true - completion
		// only of a quiescent machine, otherwise the remainder
		if native && i%4 == 1 && len(walked.Strides) > 0 {
			wc3 := *wc
			wc3.CancelAt = 1 + r.Intn(len(walked.Strides)+1)
			if r.Intn(6) == 0 {
				wc3.CancelAt = -1
			}
			if ok, _ := checkWalkP(context.Background(), rec, "C05:context-ends", &wc3, spec, markers); !ok {
				return
			}
			rec.Bucket("walks_under_a_context_that_ends_meanwhile")
		}
		for _, nd := range a.Nodes {
			if nd.Action != nil && nd.Branching != nil && nd.Branching.Type == "message" {
				rec.Bucket("specs_with_action_and_message_branching_node")
				break
			}
		}
		if len(walked.Strides) >= 2 {
			rec.Nontrivial(fw.Canon(wc))
			if i%15000 == 4 {
				rec.Sample(map[string]interface{}{"case": wc, "walked": summarize(walked)})
			}
		}
		// split equivalence with a generous limit and no breakpoint
		if len(wc.Messages) >= 2 && (native || i%32 == 0) {
			wc2 := *wc
			wc2.Limit = 80
			wc2.Breakpoint = ""
			var whole *core.Walked
			if rec.Guard("C05:split", &wc2, func() {
				whole, _ = spec.Walk(context.Background(), coreState(wc2.State), fw.Deep(wc2.Messages).([]interface{}), wc2.control(), nil)
			}) {
				return
			}
			var splits [][]int
			if len(wc.Messages) <= 6 {
				splits = allSplits(len(wc.Messages))
				rec.Bucket("all_splits_enumerated")
			} else {
				ones := make([]int, len(wc.Messages))
				for k := range ones {
					ones[k] = 1
				}
				splits = append(splits, ones)
				for k := 0; k < 6; k++ {
					var sp []int
					left := len(wc.Messages)
					for left > 0 {
						s := 1 + r.Intn(left)
						sp = append(sp, s)
						left -= s
					}
					splits = append(splits, sp)
				}
			}
			splitEquivalence(rec, &wc2, spec, whole, splits)
		}
	})
}
