package ref

// Reference model of one processing step, transcribed clause by clause from
// README.md "Processing", doc/by-example.md and the doc comments of
// core/step.go and core/spec.go.  It uses the real matcher for pattern
// matching (the matcher has independent oracles in C01-C03) and the DSL
// reference evaluator for actions and guards; it shares no step logic with
// package core.

import (
	"strings"

	"github.com/Comcast/sheens/match"

	"verif/fw"
)

// AState is a machine state in plain form.
type AState struct {
	Node string                 `json:"node"`
	Bs   map[string]interface{} `json:"bs"` // nil = absent bindings
}

// StepOutcome is one acceptable result of a step.
type StepOutcome struct {
	// Err: the step reports an error (returned error; through Walk, a
	// transition to the error node).  ErrMarker, if non-empty, must occur in
	// its text.
	Err       bool
	ErrMarker string
	// To is the next state (nil: the machine stays where it is).
	To *AState
	// Consumed: the pending message was consumed.
	Consumed bool
	// Emitted by the step, in order.
	Emitted []interface{}
	// EmittedUnjudged: emissions are not pinned down (native action that
	// failed with a partial execution).
	EmittedUnjudged bool
	// ErrorNodeEntry: To is the error node entered because of a failure at
	// this step; lastNode/lastBindings must be recorded; exact bindings are
	// judged loosely (must contain Contains, error text contains ErrMarker).
	ErrorNodeEntry bool
	// Note explains which clause produced the outcome.
	Note string
}

// Env tells the reference how actions behave beyond the DSL.
type Env struct {
	Native     bool
	NativeMode NativeMode
	// HaveDeadline: non-terminating programs fail with a timeout; without a
	// deadline they are not evaluated (the generator never produces them then).
	HaveDeadline bool
	// ErrText is the error text observed in the "actionError" binding of
	// the real step, if any.  The documentation pins down only that the
	// bindings carry the error text; the reference uses the observed text
	// (after checking that it contains the failure's marker) so that later
	// comparisons are exact.
	ErrText string
}

func cloneBs(bs map[string]interface{}) map[string]interface{} {
	if bs == nil {
		return map[string]interface{}{}
	}
	return fw.Plain(bs).(map[string]interface{})
}

// withPermanent restores the permanent bindings of `before` into `after`
// (core/actions.go, Exp_PermanentBindings).
func withPermanent(before, after map[string]interface{}) map[string]interface{} {
	for _, k := range Permanent(before) {
		after[k] = fw.Plain(before[k])
	}
	return after
}

// Step returns the set of acceptable outcomes of one step.
func Step(a *ASpec, st AState, pending interface{}, env Env) []StepOutcome {
	n, have := a.Nodes[st.Node]
	if !have {
		// The implicit error node exists unless NoAutoErrorNode.
		if st.Node == a.ErrNodeName() && !a.NoAutoErrorNode {
			n = &ANode{}
		} else {
			// step.go: "Error (with spec)": unknown node
			return []StepOutcome{{Err: true, ErrMarker: "not found", Note: "unknown node"}}
		}
	}
	if n.Action != nil && n.Branching != nil && n.Branching.Type == "message" {
		// spec.go Node.Action: "a node with message-based branching cannot have an Action"
		return []StepOutcome{{Err: true, ErrMarker: "branching", Note: "action with message branching"}}
	}
	bs := cloneBs(st.Bs)
	var emitted []interface{}
	actionFailed := false
	if n.Action != nil {
		// README Processing: "If the current node has an action, it is executed.
		// The bindings returned by the action replace the current bindings."
		o := n.Action.Eval(bs)
		switch {
		case o.Failed:
			actionFailed = true
			marker := o.Marker
			unj := env.Native && env.NativeMode == NativePartialErr
			// step.go: Bind "actionError" (and "error") to the error string.
			text := marker
			if env.ErrText != "" && strings.Contains(env.ErrText, marker) {
				text = env.ErrText
			}
			ebs := cloneBs(st.Bs)
			ebs["actionError"] = text
			ebs["error"] = text
			if !a.ActionErrorBranches {
				if a.ActionErrorNode == "" {
					// spec.go ActionErrorNode: "If no value is given, then Step() will return an error"
					return []StepOutcome{{Err: true, ErrMarker: marker, Note: "action failed; error returned", EmittedUnjudged: unj}}
				}
				return []StepOutcome{{To: &AState{Node: a.ActionErrorNode, Bs: ebs}, ErrMarker: marker, EmittedUnjudged: unj, Note: "action failed; action error node"}}
			}
			// spec.go ActionErrorBranches: branches handle the error via "actionError"
			bs = ebs
			if unj {
				emitted = nil
			}
		case o.Null:
			// step.go: "If the action returned nil bindings, use empty bindings."
			emitted = o.Emitted
			bs = map[string]interface{}{}
			if len(Permanent(st.Bs)) > 0 {
				// Not pinned down by the documentation: a null return either
				// drops everything or keeps the permanent bindings.
				alt := withPermanent(st.Bs, map[string]interface{}{})
				outs := branchesOutcomes(a, n, st, bs, pending, env, emitted, false)
				outs = append(outs, branchesOutcomes(a, n, st, alt, pending, env, emitted, false)...)
				return outs
			}
		default:
			emitted = o.Emitted
			bs = withPermanent(st.Bs, o.Bs)
		}
	}
	outs := branchesOutcomes(a, n, st, bs, pending, env, emitted, actionFailed)
	if actionFailed && env.Native && env.NativeMode == NativePartialErr {
		for i := range outs {
			outs[i].EmittedUnjudged = true
		}
	}
	return outs
}

func branchesOutcomes(a *ASpec, n *ANode, st AState, bs map[string]interface{}, pending interface{}, env Env, emitted []interface{}, actionFailed bool) []StepOutcome {
	haveAction := n.Action != nil
	noBranch := func(consumed bool, note string) StepOutcome {
		o := StepOutcome{Consumed: consumed, Emitted: emitted, Note: note}
		if haveAction {
			// step.go "Important case": an action node that follows no branch goes
			// to the error node with lastNode / lastBindings.
			ebs := cloneBs(bs)
			ebs["error"] = "Action node followed no branch"
			ebs["lastNode"] = st.Node
			ebs["lastBindings"] = cloneBs(st.Bs)
			o.To = &AState{Node: "error", Bs: ebs}
			o.ErrorNodeEntry = true
			o.ErrMarker = "Action node followed no branch"
		}
		return o
	}
	if n.Branching == nil {
		return []StepOutcome{noBranch(false, "no branching")}
	}
	consumer := n.Branching.Type == "message"
	var against interface{}
	if consumer {
		// README: message branching needs a pending message, and does nothing without one.
		if pending == nil {
			return []StepOutcome{noBranch(false, "message branching without a pending message")}
		}
		against = fw.Plain(pending)
	} else {
		against = cloneBs(bs)
	}
	// Branches are tried in their listed order; the first that applies wins.
	for _, b := range n.Branching.Branches {
		var cands []map[string]interface{}
		if b.HasPattern && b.Pattern != nil {
			bss, err := match.Match(fw.Plain(b.Pattern), against, match.Bindings(cloneBs(bs)))
			if err != nil {
				o := StepOutcome{Err: true, ErrMarker: err.Error(), Consumed: consumer, Emitted: emitted, Note: "pattern error"}
				return []StepOutcome{o}
			}
			for _, x := range bss {
				cands = append(cands, map[string]interface{}(x))
			}
		} else {
			cands = []map[string]interface{}{cloneBs(bs)}
		}
		if b.Guard == nil {
			switch len(cands) {
			case 0:
				continue
			case 1:
				return []StepOutcome{{To: &AState{Node: target(b, cands[0]), Bs: cands[0]}, Consumed: consumer, Emitted: emitted, Note: "branch taken"}}
			default:
				return []StepOutcome{{Err: true, ErrMarker: "too many", Consumed: consumer, Emitted: emitted, Note: "several bindings without a guard"}}
			}
		}
		// Guarded branch: the guard is run on candidates until one returns bindings.
		// The order among several candidates is documented as arbitrary.
		var outs []StepOutcome
		anyReject := false
		for _, c := range cands {
			o := b.Guard.Eval(c)
			switch {
			case o.Failed:
				outs = append(outs, StepOutcome{Err: true, ErrMarker: o.Marker, Consumed: consumer, Emitted: emitted, Note: "guard failed"})
			case o.Null:
				anyReject = true
			default:
				nbs := withPermanent(c, o.Bs)
				note := "guarded branch taken"
				if len(cands) > 1 {
					note = "guard chose among several candidates"
				}
				outs = append(outs, StepOutcome{To: &AState{Node: target(b, nbs), Bs: nbs}, Consumed: consumer, Emitted: emitted, Note: note})
			}
		}
		_ = anyReject
		if len(outs) > 0 {
			if len(cands) > 1 {
				// with several candidates a failing guard may or may not be reached
				allFail := true
				for _, o := range outs {
					if !o.Err {
						allFail = false
					}
				}
				if allFail && anyReject {
					// all accepting candidates absent; the failing one is certainly reached
				}
			}
			return outs
		}
	}
	return []StepOutcome{noBranch(consumer, "no branch applies")}
}

// target resolves "@var" branch targets (step.go Exp_BranchTargetVariables).
func target(b *ABranch, bs map[string]interface{}) string {
	if len(b.Target) > 0 && b.Target[0] == '@' && len(bs) > 0 {
		if x, have := bs[b.Target[1:]]; have {
			if s, is := x.(string); is {
				return s
			}
		}
	}
	return b.Target
}
