package c07

// Variable branch targets ("@name") whose variable is bound to something that
// is not a node name: a number, a boolean, null, an object, an array, the
// empty string, a name no node has.  The value arrives through a message, the
// state's bindings, or an action's result.

import (
	"context"
	"encoding/json"
	"fmt"
	"time"

	"github.com/Comcast/sheens/core"
	"github.com/Comcast/sheens/match"

	"verif/fw"
)

func oddTargets(rec *fw.Rec) {
	values := []string{`42`, `1.5`, `true`, `null`, `{"node":"n1"}`, `["n1"]`, `""`, `"no-such-node"`, `"n1"`, `"@t"`}
	doc := func(val string) string {
		return `{"name":"oddtargets","nodes":{
 "start":{"branching":{"type":"message","branches":[
   {"pattern":{"go":"?next"},"target":"@?next"},
   {"pattern":{"viaBindings":"?x"},"target":"s2"},
   {"pattern":{"viaAction":"?x"},"target":"s3"},
   {"pattern":{"viaGuard":"?x"},"target":"s4"}]}},
 "s2":{"branching":{"type":"bindings","branches":[{"target":"@t"}]}},
 "s3":{"action":{"interpreter":"ecmascript","source":"var bs = _.bindings; bs.t = ` + val + `; return bs;"},
       "branching":{"branches":[{"target":"@t"}]}},
 "s4":{"branching":{"type":"bindings","branches":[{"guard":{"interpreter":"ecmascript","source":"var bs = _.bindings; bs.t = ` + val + `; return bs;"},"target":"@t"}]}},
 "n1":{}}}`
	}
	for _, val := range values {
		var v interface{}
		json.Unmarshal([]byte(val), &v)
		var spec core.Spec
		if err := json.Unmarshal([]byte(doc(fmt.Sprintf("%q", val)[1:len(fmt.Sprintf("%q", val))-1])), &spec); err != nil {
			rec.Inconclusive("odd targets: spec document: " + err.Error())
			return
		}
		if err := spec.Compile(context.Background(), nil, true); err != nil {
			rec.Inconclusive("odd targets: compile: " + err.Error())
			return
		}
		for _, via := range []string{"message", "bindings", "action", "guard"} {
			for _, api := range []string{"step", "walk"} {
				desc := map[string]interface{}{"odd_target_value": val, "arrives_via": via, "api": api}
				rec.LogCase(0, desc)
				bs := match.Bindings{}
				var msg interface{}
				switch via {
				case "message":
					msg = map[string]interface{}{"go": v}
				case "bindings":
					bs["t"] = v
					msg = map[string]interface{}{"viaBindings": 1.0}
				case "action":
					msg = map[string]interface{}{"viaAction": 1.0}
				case "guard":
					msg = map[string]interface{}{"viaGuard": 1.0}
				}
				ctx, cancel := context.WithTimeout(context.Background(), 5*time.Second)
				var err error
				var final *core.State
				something := false
				ok := guarded(rec, "C07:odd-target:"+via, desc, 30*time.Second, func() {
					if api == "step" {
						st := &core.State{NodeName: "start", Bs: bs}
						for i := 0; i < 4 && st != nil; i++ {
							var stride *core.Stride
							stride, err = spec.Step(ctx, st, msg, nil, nil)
							if stride != nil || err != nil {
								something = true
							}
							if stride == nil || err != nil {
								break
							}
							msg = nil
							if stride.To != nil {
								final = stride.To
							}
							st = stride.To
						}
						return
					}
					var w *core.Walked
					w, err = spec.Walk(ctx, &core.State{NodeName: "start", Bs: bs}, []interface{}{msg}, nil, nil)
					if w != nil || err != nil {
						something = true
					}
					if w != nil {
						final = w.To()
					}
				})
				cancel()
				if !ok {
					continue
				}
				rec.Eval(1)
				if !something {
					rec.Violation("C07:odd-target:nothing-returned", "neither a result nor an error", desc)
					continue
				}
				// A value that names no node must surface: an error, or the error node with its text.
				if s, isStr := v.(string); api == "walk" && (!isStr || s == "no-such-node") {
					surfaced := err != nil
					if final != nil && final.NodeName == "error" {
						if txt, _ := final.Bs["error"].(string); txt != "" {
							surfaced = true
						}
					}
					if !surfaced {
						rec.Violation("C07:odd-target:not-surfaced", fmt.Sprintf("a branch target variable bound to %s sent the machine to %v without an error", val, final), desc)
						continue
					}
				}
				rec.Bucket("odd_branch_target_values_survived")
			}
		}
	}
}

// hostileMessages: messages (and bindings) that carry strings which look like
// pattern variables.  Whoever can send a message can send these; processing
// must return.  (What such a message matches is not judged here.)
func hostileMessages(rec *fw.Rec) {
	patterns := []string{`{"a":"?y","b":"?y"}`, `{"a":"?x","b":"?y","c":"?x"}`, `{"l":["?x"],"a":"?x"}`, `{"?k":"?v","x":"?v"}`, `{"a":"??o","b":"??o"}`, `{"a":"?x","b":"?<n"}`, `"?m"`, `{"a":{"b":"?x"},"c":"?x"}`}
	looks := []interface{}{"?y", "?x", "?", "??o", "?<n", "?>=n", "?m", "?k", "?v", []interface{}{"?x"}, map[string]interface{}{"b": "?x"}, map[string]interface{}{"?x": "?x"}}
	for pi, p := range patterns {
		doc := `{"name":"hostile-messages","nodes":{"start":{"branching":{"type":"message","branches":[{"pattern":` + p + `,"target":"viaBindings"}]}},
 "viaBindings":{"branching":{"type":"bindings","branches":[{"pattern":` + p + `,"target":"start"},{"target":"start"}]}}}}`
		var spec core.Spec
		if err := json.Unmarshal([]byte(doc), &spec); err != nil {
			rec.Inconclusive("hostile messages: spec document: " + err.Error())
			return
		}
		if err := spec.Compile(context.Background(), nil, true); err != nil {
			rec.Inconclusive("hostile messages: compile: " + err.Error())
			return
		}
		for li, l1 := range looks {
			for _, l2 := range []interface{}{1.0, l1, looks[(li+1)%len(looks)]} {
				msg := map[string]interface{}{"a": l1, "b": l2, "c": l1, "x": l2, "l": []interface{}{l1, l2}, "k": l1}
				for _, pre := range []map[string]interface{}{{}, {"?x": "?y", "?y": "?x"}, {"?x": "?x"}, {"?y": l1, "?v": "?k", "?k": "?v"}} {
					desc := map[string]interface{}{"pattern": p, "message": msg, "bindings": pre, "family": "strings that look like variables"}
					rec.LogCase(0, desc)
					ctx, cancel := context.WithTimeout(context.Background(), 5*time.Second)
					ok := guarded(rec, "C07:hostile-message", desc, 30*time.Second, func() {
						spec.Walk(ctx, &core.State{NodeName: "start", Bs: match.Bindings(fw.Deep(pre).(map[string]interface{}))}, []interface{}{fw.Deep(msg), fw.Deep(msg)}, nil, nil)
					})
					cancel()
					if !ok {
						return
					}
					rec.Eval(1)
				}
			}
		}
		_ = pi
	}
	rec.Bucket("messages_with_variable_lookalikes_survived")
}

// concurrentPropsWriters: machines walked at the same time, without step properties (and
// with empty ones), whose actions write into _.props.  Each execution has its own; a shared
// map would be written concurrently, which the Go runtime answers by killing the process.
func concurrentPropsWriters(rec *fw.Rec) {
	spec := &core.Spec{Name: "props-writers", Nodes: map[string]*core.Node{
		"start": {ActionSource: &core.ActionSource{Interpreter: "ecmascript", Source: `for (var i = 0; i < 50; i++) { _.props["k" + (i % 7)] = i; delete _.props["k" + ((i + 3) % 7)]; } var bs = _.bindings; bs.n = (bs.n || 0) + 1; return bs;`},
			Branches: &core.Branches{Type: "bindings", Branches: []*core.Branch{{GuardSource: &core.ActionSource{Interpreter: "ecmascript", Source: `_.props.seen = true; return _.bindings;`}, Target: "done"}}}},
		"done": {},
	}}
	if err := spec.Compile(context.Background(), nil, true); err != nil {
		rec.Inconclusive("props writers: " + err.Error())
		return
	}
	for _, kind := range []string{"nil", "empty"} {
		desc := map[string]interface{}{"family": "8 goroutines walk machines whose actions write into _.props", "props": kind}
		rec.LogCase(0, desc)
		ok := guarded(rec, "C07:concurrent-props-writers", desc, 60*time.Second, func() {
			done := make(chan struct{}, 8)
			for g := 0; g < 8; g++ {
				go func(g int) {
					defer func() { done <- struct{}{} }()
					for k := 0; k < 60; k++ {
						var props core.StepProps
						if kind == "empty" {
							props = core.StepProps{}
						}
						spec.Walk(context.Background(), &core.State{NodeName: "start", Bs: match.Bindings{"g": float64(g)}}, nil, nil, props)
					}
				}(g)
			}
			for g := 0; g < 8; g++ {
				<-done
			}
		})
		if !ok {
			return
		}
		rec.Eval(480)
	}
	rec.Bucket("concurrent_props_writers_survived")
}
