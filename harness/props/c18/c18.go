// Package c18: permanent bindings.  A before/after comparator on every
// binding whose name ends in '!', across every stride of generated machines
// whose actions and guards delete, overwrite, replace wholesale, fail or reject.
package c18

import (
	"context"
	"fmt"
	"sync"
	"sync/atomic"

	"github.com/Comcast/sheens/core"
	"github.com/Comcast/sheens/match"

	"verif/fw"
	"verif/gen"
	"verif/ref"
)

var permKeys = []string{"cfg!", "p!", "deep!"}
var ordKeys = []string{"a", "b", "n"}

// hostile programs aimed at the permanent keys
func hostileProg(r interface{ Intn(int) int }, u *gen.Uid, guard bool) *ref.Prog {
	p := &ref.Prog{Ret: "same"}
	for k := r.Intn(4); k > 0; k-- {
		key := permKeys[r.Intn(len(permKeys))]
		switch r.Intn(6) {
		case 0:
			p.Ops = append(p.Ops, ref.Op{Op: "del", K: key})
		case 1:
			p.Ops = append(p.Ops, ref.Op{Op: "set", K: key, V: "overwritten"})
		case 2:
			p.Ops = append(p.Ops, ref.Op{Op: "keep", Ks: []string{"a"}})
		case 3:
			p.Ops = append(p.Ops, ref.Op{Op: "set", K: ordKeys[r.Intn(len(ordKeys))], V: float64(r.Intn(3))})
		case 4:
			p.Ops = append(p.Ops, ref.Op{Op: "copy", K: "a", K2: key})
		case 5:
			p.Ops = append(p.Ops, ref.Op{Op: "push", K: key, V: "x"})
		}
	}
	switch r.Intn(10) {
	case 0:
		p.Ret = "fresh"
		p.Fresh = map[string]interface{}{}
	case 1:
		p.Ret = "fresh"
		p.Fresh = map[string]interface{}{"cfg!": "replaced", "z": 1.0}
	case 2:
		p.Ops = append(p.Ops, ref.Op{Op: "fail", V: u.Next("F")})
	case 3:
		p.Ret = "null"
	case 4:
		if guard {
			p.Ret = "cond"
			p.CondKey = ordKeys[r.Intn(len(ordKeys))]
		} else {
			p.Ret = "number"
		}
	}
	return p
}

// inPlace renders a program as a native action that works directly on the
// bindings it is given (core's Bindings.Remove / Extend / DeleteExcept do) and
// returns that same map.
func inPlace(p *ref.Prog) core.Action {
	return &core.FuncAction{F: func(ctx context.Context, bs match.Bindings, props core.StepProps) (*core.Execution, error) {
		if bs == nil {
			bs = match.NewBindings()
		}
		for _, op := range p.Ops {
			switch op.Op {
			case "del":
				bs.Remove(op.K)
			case "set":
				bs.Extend(op.K, fw.Plain(op.V))
			case "keep":
				bs.DeleteExcept(op.Ks...)
			case "copy":
				if v, have := bs[op.K]; have {
					bs[op.K2] = v
				}
			case "push":
				if a, ok := bs[op.K].([]interface{}); ok {
					bs[op.K] = append(a, op.V)
				} else if _, have := bs[op.K]; !have {
					bs[op.K] = []interface{}{op.V}
				}
			case "fail":
				return nil, fmt.Errorf("%v", op.V)
			}
		}
		switch p.Ret {
		case "same":
			return core.NewExecution(bs), nil
		case "fresh":
			return core.NewExecution(match.Bindings(fw.Plain(p.Fresh).(map[string]interface{}))), nil
		case "null":
			return core.NewExecution(nil), nil
		case "cond":
			if _, have := bs[p.CondKey]; have {
				return core.NewExecution(bs), nil
			}
			return core.NewExecution(nil), nil
		}
		return nil, fmt.Errorf("isn't Bindings")
	}}
}

func genState(r interface{ Intn(int) int }) map[string]interface{} {
	bs := map[string]interface{}{}
	vals := []interface{}{"keep", 1.0, map[string]interface{}{"nested": []interface{}{1.0, map[string]interface{}{"x": "y"}}}, []interface{}{"a", "b"}, nil, false}
	for _, k := range permKeys {
		if r.Intn(3) > 0 {
			bs[k] = fw.Deep(vals[r.Intn(len(vals))])
		}
	}
	for _, k := range ordKeys {
		if r.Intn(2) == 0 {
			bs[k] = float64(r.Intn(3))
		}
	}
	return bs
}

// checkStride: permanent bindings of `from` survive into `to`.
func checkStride(rec *fw.Rec, a *ref.ASpec, from, to *core.State, replay interface{}) bool {
	if from == nil || to == nil {
		return true
	}
	perm := ref.Permanent(map[string]interface{}(from.Bs))
	if len(perm) == 0 {
		rec.Bucket("stride_without_permanent")
		return true
	}
	if n, ok := a.Nodes[from.NodeName]; ok && n.Action != nil {
		o := n.Action.Eval(map[string]interface{}(from.Bs))
		if o.Null && !(n.Branching != nil && n.Branching.Type == "message") {
			rec.Bucket("unjudged_action_returned_null")
			return true
		}
		switch {
		case o.Failed:
			rec.Bucket("after_failing_action")
		default:
			rec.Bucket("after_completed_action")
		}
	}
	for _, k := range perm {
		got, have := to.Bs[k]
		if !have {
			rec.Violation("C18:permanent-binding-lost", fmt.Sprintf("binding %q present before the step at %q is absent afterwards (now at %q)", k, from.NodeName, to.NodeName), replay)
			return false
		}
		if fw.Canon(got) != fw.Canon(from.Bs[k]) {
			rec.Violation("C18:permanent-binding-altered", fmt.Sprintf("binding %q changed from %s to %s", k, fw.Short(from.Bs[k]), fw.Short(got)), replay)
			return false
		}
	}
	rec.Bucket("strides_with_permanent_checked")
	return true
}

// concurrent: one compiled spec (its actions and guards are shared by every
// machine of the spec) is walked by many goroutines whose states carry
// different permanent bindings - or none; each result must equal the result
// computed alone, and the race detector must stay silent.
func concurrent(cfg fw.Config, rec *fw.Rec) {
	rounds := cfg.Pick(40, 400)
	for round := 0; round < rounds; round++ {
		r := cfg.Rng("c18-conc", round)
		u := &gen.Uid{Prefix: fmt.Sprintf("k%d_", round)}
		a := &ref.ASpec{Name: "c18conc", Nodes: map[string]*ref.ANode{"n2": {}, "aerr": {}}}
		if round%3 == 1 {
			a.ActionErrorBranches = true
		}
		node := &ref.ANode{Action: hostileProg(r, u, false), Branching: &ref.ABranching{Type: "bindings"}}
		node.Branching.Branches = append(node.Branching.Branches, &ref.ABranch{Target: "n2", Guard: hostileProg(r, u, true)}, &ref.ABranch{Target: "n2"})
		a.Nodes["start"] = node
		render := []string{"native", "native-inplace", "ecma"}[round%3]
		spec, err := a.Compiled(render != "ecma", ref.NativeNilErr)
		if err != nil {
			continue
		}
		if render == "native-inplace" {
			spec.Nodes["start"].Action = inPlace(node.Action)
			spec.Nodes["start"].Branches.Branches[0].Guard = inPlace(node.Branching.Branches[0].Guard)
		}
		G := 16
		states := make([]map[string]interface{}, G)
		solo := make([]string, G)
		walk := func(g int) string {
			st := &core.State{NodeName: "start", Bs: match.Bindings(fw.Deep(states[g]).(map[string]interface{}))}
			w, err := spec.Walk(context.Background(), st, nil, &core.Control{Limit: 6}, nil)
			if err != nil || w == nil {
				return fmt.Sprint("error ", err)
			}
			return fw.Canon(w.To())
		}
		for g := 0; g < G; g++ {
			states[g] = genState(r)
			if g%4 == 0 {
				for _, k := range permKeys {
					delete(states[g], k)
				}
			}
			states[g]["machine"] = float64(g)
			solo[g] = walk(g)
		}
		var wg sync.WaitGroup
		start := make(chan struct{})
		var bad int32
		for g := 0; g < G; g++ {
			wg.Add(1)
			go func(g int) {
				defer wg.Done()
				<-start
				for rep := 0; rep < 8; rep++ {
					var got string
					if rec.Guard("C18:conc", a, func() { got = walk(g) }) {
						atomic.AddInt32(&bad, 1)
						return
					}
					if got != solo[g] {
						if atomic.AddInt32(&bad, 1) == 1 {
							rec.Violation("C18:concurrent-differs", fmt.Sprintf("machine %d walked concurrently with others over the same spec ends at %s; alone at %s", g, fw.Short(got), fw.Short(solo[g])), map[string]interface{}{"spec": a, "render": render, "state": states[g]})
						}
						return
					}
				}
			}(g)
		}
		close(start)
		wg.Wait()
		rec.Eval(G * 8)
		if bad == 0 {
			rec.Bucket("concurrent_rounds_equal_to_solo")
			rec.Nontrivial(fw.Canon(a))
			if round%15 == 2 {
				rec.Sample(map[string]interface{}{"shared_spec": a, "render": render, "goroutines": G})
			}
		}
	}
}

// nestedInPlace: interpreted actions and guards that change what lies BELOW a permanent
// binding - inside arrays of objects, arrays of arrays - and then succeed, fail or reject.
// A script works on a copy, so the value must come out as it went in.
func nestedInPlace(rec *fw.Rec) {
	mut := `function mut(x) { if (Array.isArray(x)) { for (var i = 0; i < x.length; i++) { if (x[i] !== null && typeof x[i] === 'object') { mut(x[i]); } else { x[i] = 'mutated'; } } } else if (x !== null && typeof x === 'object') { for (var k in x) { if (x[k] !== null && typeof x[k] === 'object') { mut(x[k]); } else { x[k] = 'mutated'; } } x.added = 'mutated'; } } var bs = _.bindings; for (var k in bs) { if (k.charAt(k.length - 1) === '!' && bs[k] !== null && typeof bs[k] === 'object') { mut(bs[k]); } } `
	endings := map[string]string{"succeeds": `return bs;`, "throws": `throw new Error("after mutation");`, "returns-null": `return null;`, "returns-fresh": `return {only: 1};`}
	perm := func() map[string]interface{} {
		return map[string]interface{}{
			"routes!": map[string]interface{}{"hops": []interface{}{map[string]interface{}{"w": 1.0}, []interface{}{map[string]interface{}{"v": 2.0}}}, "name": "r"},
			"list!":   []interface{}{[]interface{}{1.0, map[string]interface{}{"deep": []interface{}{map[string]interface{}{"z": 3.0}}}}},
			"plain!":  "keep", "n": 1.0,
		}
	}
	want := fw.Canon(map[string]interface{}{"routes!": perm()["routes!"], "list!": perm()["list!"], "plain!": "keep"})
	permOf := func(bs match.Bindings) string {
		m := map[string]interface{}{}
		for _, k := range []string{"routes!", "list!", "plain!"} {
			if v, have := bs[k]; have {
				m[k] = v
			}
		}
		return fw.Canon(m)
	}
	for ending, tail := range endings {
		for _, position := range []string{"action", "guard"} {
			for settings := 0; settings < 3; settings++ {
				src := &core.ActionSource{Interpreter: "ecmascript", Source: mut + tail}
				spec := &core.Spec{Name: "nested", Nodes: map[string]*core.Node{"next": {}, "other": {}, "aerr": {}}}
				switch settings {
				case 1:
					spec.ActionErrorBranches = true
				case 2:
					spec.ActionErrorNode = "aerr"
				}
				if position == "action" {
					spec.Nodes["start"] = &core.Node{ActionSource: src, Branches: &core.Branches{Type: "bindings", Branches: []*core.Branch{{Target: "next"}}}}
				} else {
					spec.Nodes["start"] = &core.Node{Branches: &core.Branches{Type: "bindings", Branches: []*core.Branch{{GuardSource: src, Target: "next"}, {Target: "other"}}}}
				}
				if err := spec.Compile(context.Background(), nil, true); err != nil {
					rec.Inconclusive("nested spec: " + err.Error())
					return
				}
				desc := map[string]interface{}{"script": "mutate everything below the permanent bindings, then " + ending, "position": position, "settings": settings}
				st := &core.State{NodeName: "start", Bs: match.Bindings(fw.Deep(perm()).(map[string]interface{}))}
				var w *core.Walked
				if rec.Guard("C18:nested", desc, func() { w, _ = spec.Walk(context.Background(), st, nil, &core.Control{Limit: 4}, nil) }) {
					return
				}
				rec.Eval(1)
				if got := permOf(st.Bs); got != want {
					rec.Violation("C18:permanent-binding-altered:nested", "the caller's permanent bindings were changed below the top level: "+fw.Short(got), desc)
					continue
				}
				bad := false
				if w != nil && !(ending == "returns-null" && position == "action") { // what an action's null leaves of the bindings is not documented
					for _, s := range w.Strides {
						if s.To == nil {
							continue
						}
						// (a guard-less fresh return keeps them too: they are restored)
						if got := permOf(s.To.Bs); got != want {
							rec.Violation("C18:permanent-binding-altered:nested", fmt.Sprintf("after a script that changed values below the permanent bindings and then %s (%s), the state at %s carries %s instead of %s", ending, position, s.To.NodeName, fw.Short(got), fw.Short(want)), desc)
							bad = true
							break
						}
					}
				}
				if !bad {
					rec.Bucket("scripts_mutating_below_permanent_bindings")
				}
			}
		}
	}
}

func Run(cfg fw.Config, rec *fw.Rec) {
	if cfg.Part == "conc" {
		rec.Rule = "see the main part; concurrent part: 16 goroutines x 8 walks over one compiled hostile spec (native, native in-place, ECMAScript) from states with different permanent bindings or none, each result compared with the solo result, under -race"
		rec.Required = []string{"concurrent_rounds_equal_to_solo"}
		concurrent(cfg, rec)
		return
	}
	rec.Rule = "two-node machines whose action and guards are hostile programs over the permanent keys (delete, overwrite, keep-only, copy-over, push, return {} / a fresh object / null / a number, fail, reject) run from states with 0-3 permanent bindings (scalar, nested, array, null, false values) and 0-3 ordinary ones, native (two failure modes; and a variant that mutates the bindings it is given in place, as core's Bindings.Remove / Extend / DeleteExcept do) and ECMAScript; plus interpreted scripts that change everything below structured permanent values (objects inside arrays inside objects) and then succeed / throw / return null / return a fresh object, as action and as guard, under 3 error settings; plus random multi-node machines; for every stride the permanent bindings present before must be present and equal after, unless the node's action returned null (recorded, not judged); non-trivial = stride checked with >= 1 permanent binding; distinct by canonical (spec,state)"
	rec.Required = []string{"array_valued_permanent_bindings_resliced_by_native_code", "strides_with_permanent_checked", "after_failing_action", "after_completed_action", "guard_rejected_then_next_branch", "guard_accepted", "render_ecma", "render_native", "render_native-inplace", "structured_permanent_value", "unjudged_action_returned_null", "native_walks_under_a_cancelled_context", "scripts_mutating_below_permanent_bindings"}
	nestedInPlace(rec)
	reslicedPermanent(rec)
	n := cfg.Pick(60000, 3000000)
	fw.Parallel(cfg.Workers, n, func(w, i int) {
		r := cfg.Rng("c18", i)
		u := &gen.Uid{Prefix: fmt.Sprintf("p%d_", i)}
		var a *ref.ASpec
		if i%4 == 3 {
			a = gen.GenSpec(r, gen.SpecOpts{MaxNodes: 4, Prog: gen.ProgOpts{Fail: true, BadRet: true, Emit: true}}, u)
		} else {
			a = &ref.ASpec{Name: "c18", Nodes: map[string]*ref.ANode{"n2": {}, "aerr": {}}}
			switch r.Intn(4) {
			case 1:
				a.ActionErrorBranches = true
			case 2:
				a.ActionErrorNode = "aerr"
			}
			node := &ref.ANode{Branching: &ref.ABranching{Type: "bindings"}}
			if r.Intn(6) > 0 {
				node.Action = hostileProg(r, u, false)
			}
			for k := r.Intn(3); k > 0; k-- {
				b := &ref.ABranch{Target: "n2", Guard: hostileProg(r, u, true)}
				if r.Intn(2) == 0 {
					b.HasPattern = true
					b.Pattern = map[string]interface{}{"a": "?x"}
				}
				node.Branching.Branches = append(node.Branching.Branches, b)
			}
			if r.Intn(3) > 0 {
				node.Branching.Branches = append(node.Branching.Branches, &ref.ABranch{Target: "n2"})
			}
			a.Nodes["start"] = node
		}
		render := "native"
		mode := ref.NativeMode(r.Intn(2))
		if i%10 == 0 {
			render = "ecma"
		}
		if i%4 != 3 && i%10 != 0 && i%3 == 1 {
			render = "native-inplace"
		}
		spec, err := a.Compiled(render != "ecma", mode)
		if err != nil {
			return
		}
		if render == "native-inplace" {
			// the same programs, but mutating the bindings they are given
			for name, n := range a.Nodes {
				if n.Action != nil {
					spec.Nodes[name].Action = inPlace(n.Action)
				}
				if n.Branching != nil {
					for bi, b := range n.Branching.Branches {
						if b.Guard != nil {
							spec.Nodes[name].Branches.Branches[bi].Guard = inPlace(b.Guard)
						}
					}
				}
			}
		}
		bs := genState(r)
		for _, k := range permKeys {
			if v, ok := bs[k]; ok && !gen.IsScalar(v) {
				rec.Bucket("structured_permanent_value")
			}
		}
		st := &core.State{NodeName: "start", Bs: match.Bindings(fw.Deep(bs).(map[string]interface{}))}
		replay := map[string]interface{}{"spec": a, "render": render, "state": bs}
		var msgs []interface{}
		if i%4 == 3 {
			names := a.NodeNames()
			for k := r.Intn(4); k > 0; k-- {
				msgs = append(msgs, gen.GenAnyMessage(r, u.Next("m"), names))
			}
		}
		// Native actions take no notice of the context; a caller whose context is already
		// done (a request that was given up) gets the same guarantees.
		ctx := context.Background()
		if render != "ecma" && i%5 == 2 {
			c, cancel := context.WithCancel(ctx)
			cancel()
			ctx = c
			replay["context"] = "already cancelled"
			rec.Bucket("native_walks_under_a_cancelled_context")
		}
		var walked *core.Walked
		if rec.Guard("C18", replay, func() { walked, err = spec.Walk(ctx, st, msgs, &core.Control{Limit: 12}, nil) }) {
			return
		}
		rec.Eval(1)
		if walked == nil {
			return
		}
		ok := true
		checked := false
		for _, s := range walked.Strides {
			if s.To == nil {
				continue
			}
			// which guards ran? derive from the reference step
			if n, have := a.Nodes[s.From.NodeName]; have && n.Branching != nil && i%4 != 3 && len(n.Branching.Branches) > 0 {
				env := ref.Env{Native: render != "ecma", NativeMode: mode}
				full := ref.Step(a, *ref.ToAState(s.From), nil, env)
				if len(full) == 1 && full[0].Note == "guarded branch taken" {
					rec.Bucket("guard_accepted")
				}
				if n.Branching.Branches[0].Guard != nil && len(n.Branching.Branches) > 1 && len(full) == 1 && (full[0].Note == "branch taken" || full[0].Note == "guarded branch taken") {
					firstOnly := &ref.ASpec{Name: a.Name, Nodes: map[string]*ref.ANode{}, ActionErrorBranches: a.ActionErrorBranches, ActionErrorNode: a.ActionErrorNode}
					for k, v := range a.Nodes {
						firstOnly.Nodes[k] = v
					}
					firstOnly.Nodes[s.From.NodeName] = &ref.ANode{Action: n.Action, Branching: &ref.ABranching{Type: n.Branching.Type, Branches: n.Branching.Branches[:1]}}
					one := ref.Step(firstOnly, *ref.ToAState(s.From), nil, env)
					if len(one) == 1 && one[0].Note == "no branch applies" {
						rec.Bucket("guard_rejected_then_next_branch")
					}
				}
			}
			if !checkStride(rec, a, s.From, s.To, replay) {
				ok = false
				break
			}
			if len(ref.Permanent(map[string]interface{}(s.From.Bs))) > 0 {
				checked = true
			}
		}
		if ok && checked {
			rec.Bucket("render_" + render)
			rec.Nontrivial(fw.Canon([]interface{}{a, bs}))
			if i%12000 == 2 {
				rec.Sample(map[string]interface{}{"case": replay, "final": fw.Canon(walked.To())})
			}
		}
	})
}
