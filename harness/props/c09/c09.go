// Package c09: state is plain data.  Differential twin: the same machine and
// history are run keeping the state in memory, and again with the state
// replaced by Unmarshal(Marshal(state)) at a chosen set of message boundaries;
// the traces must be identical.
package c09

import (
	"io"
	"log"

	"context"
	"encoding/json"
	"fmt"
	"verif/props/c15"

	"github.com/Comcast/sheens/core"
	"github.com/Comcast/sheens/match"

	"verif/fw"
	"verif/gen"
	"verif/ref"
)

func roundTrip(s *core.State) (*core.State, error) {
	js, err := json.Marshal(s)
	if err != nil {
		return nil, err
	}
	var t core.State
	if err := json.Unmarshal(js, &t); err != nil {
		return nil, err
	}
	return &t, nil
}

// run processes the history one message at a time (as a host does) and
// returns the per-message traces.  save[i] = persist-and-reload after message i.
func run(rec *fw.Rec, replay interface{}, spec *core.Spec, start *core.State, msgs []interface{}, save uint) (trace []string, ok bool) {
	st := start
	ctl := &core.Control{Limit: 25}
	for i, m := range msgs {
		var w *core.Walked
		var err error
		if rec.Guard("C09", replay, func() {
			w, err = spec.Walk(context.Background(), st, []interface{}{fw.Deep(m)}, ctl, nil)
		}) {
			return nil, false
		}
		if err != nil || w == nil {
			trace = append(trace, fmt.Sprintf("walk error: %v", err))
			return trace, true
		}
		var ss []interface{}
		for _, s := range w.Strides {
			e := map[string]interface{}{"from": s.From.NodeName, "consumed": s.Consumed != nil, "emitted": fw.Canon(s.Emitted)}
			if s.To != nil {
				e["to"] = s.To.NodeName
				e["bs"] = fw.Canon(s.To.Bs)
			}
			ss = append(ss, e)
		}
		trace = append(trace, fw.Canon(map[string]interface{}{"strides": ss, "stopped": w.StoppedBecause.String()}))
		if to := w.To(); to != nil {
			st = to
		}
		if save&(1<<uint(i)) != 0 {
			nst, err := roundTrip(st)
			if err != nil {
				trace = append(trace, "unserialisable state: "+err.Error())
				return trace, true
			}
			st = nst
		}
	}
	return trace, true
}

func Run(cfg fw.Config, rec *fw.Rec) {
	rec.Rule = "random specs (ECMAScript actions that store integers, fractions, nested arrays/objects, nulls, inequality bounds, or fail; later bindings/message patterns that look inside those values, re-use variables against stored structures, branch on lastBindings/lastNode at a user-defined error node) x histories of 1-6 messages; twin A keeps *State in memory, twin B JSON-round-trips it at a set of message boundaries: every subset for histories of <= 4 messages, every single boundary and all boundaries beyond; per-message traces (nodes, bindings, emissions, stop reason) must be identical; host level: crews wired like sio/siostd (real Stdio coupling, state file) run a prefix of a history, are stopped and started twice without a message in between, then run the suffix: the state file must survive the idle lifetimes and the crew must end like the uninterrupted one; non-trivial = history in which some action ran and at least 2 messages were consumed; distinct by canonical (spec,state,messages)"
	rec.Required = []string{"twins_compared", "all_subsets_enumerated", "error_node_with_diagnostics_reloaded", "int_in_array_stored", "inspecting_pattern_present", "action_failed_in_history", "machines_starting_without_bindings", "stdio_idle_lifetimes_keep_the_state"}
	rec.Assume = []string{"specifications are deterministic (guarded branches have at most one candidate)", "values returned by actions are JSON-representable"}
	// the hosts' own persistence: a crew wired like sio/siostd (real Stdio coupling and state
	// file) stopped and started at a message boundary, twice more without a message in
	// between, must carry on as if uninterrupted
	log.SetOutput(io.Discard)
	fw.Parallel(8, cfg.Pick(16, 200), func(w, i int) { c15.PersistReload(cfg, rec, i, "C09") })
	n := cfg.Pick(4000, 80000)
	fw.Parallel(cfg.Workers, n, func(w, i int) {
		r := cfg.Rng("c09", i)
		u := &gen.Uid{Prefix: fmt.Sprintf("t%d_", i)}
		a := gen.GenSpec(r, gen.SpecOpts{MaxNodes: 5, Inspect: true, Prog: gen.ProgOpts{Fail: true, BadRet: i%3 == 0, Emit: true}}, u)
		// a user-defined error node that branches over the diagnostics
		if r.Intn(2) == 0 {
			a.Nodes["error"] = &ref.ANode{Branching: &ref.ABranching{Type: "bindings", Branches: []*ref.ABranch{
				{HasPattern: true, Pattern: map[string]interface{}{"lastBindings": map[string]interface{}{"n": "?q"}, "lastNode": "?ln"}, Target: "start"},
				{HasPattern: true, Pattern: map[string]interface{}{"lastBindings": map[string]interface{}{"a": []interface{}{1.0}}}, Target: "n1"},
			}}}
		}
		// an action that stores an inequality bound and integers inside arrays
		if r.Intn(2) == 0 {
			a.Nodes["start"] = &ref.ANode{
				Action: &ref.Prog{Ops: []ref.Op{{Op: "set", K: "?<lim", V: float64(1 + r.Intn(3))}, {Op: "set", K: "a", V: []interface{}{1.0, "a"}}, {Op: "inc", K: "n"}, {Op: "set", K: "b", V: map[string]interface{}{"k": float64(r.Intn(3))}}}, Ret: "same"},
				Branching: &ref.ABranching{Type: "bindings", Branches: []*ref.ABranch{
					{HasPattern: true, Pattern: map[string]interface{}{"a": []interface{}{1.0}, "n": 4.0}, Target: "n3"},
					{HasPattern: true, Pattern: map[string]interface{}{"a": []interface{}{1.0}}, Target: "n1"},
					{Target: "n2"},
				}},
			}
			if _, ok := a.Nodes["n1"]; !ok {
				a.Nodes["n1"] = &ref.ANode{Branching: &ref.ABranching{Type: "message", Branches: []*ref.ABranch{{HasPattern: true, Pattern: map[string]interface{}{"k": "?<lim"}, Target: "start"}, {HasPattern: true, Pattern: map[string]interface{}{"uid": "?u"}, Target: "start"}}}}
			}
			rec.Bucket("int_in_array_stored")
		}
		spec, err := a.Compiled(false, ref.NativeNilErr)
		if err != nil {
			return
		}
		names := a.NodeNames()
		bs := gen.GenBindings(r, names)
		nm := 1 + r.Intn(6)
		var msgs []interface{}
		for k := 0; k < nm; k++ {
			msgs = append(msgs, gen.GenAnyMessage(r, u.Next("m"), names))
		}
		replay := map[string]interface{}{"spec": a, "state": bs, "messages": msgs}
		// a tenth of the machines start without bindings ("bs": null), as a host that hands
		// the engine a freshly made State does
		nilStart := i%10 == 9
		if nilStart {
			rec.Bucket("machines_starting_without_bindings")
			// the error node distinguishes the shapes lastBindings can have
			a.Nodes["error"] = &ref.ANode{Branching: &ref.ABranching{Type: "message", Branches: []*ref.ABranch{
				{HasPattern: true, Pattern: map[string]interface{}{"uid": "?u"}, Target: "triage"},
			}}}
			a.Nodes["triage"] = &ref.ANode{Branching: &ref.ABranching{Type: "bindings", Branches: []*ref.ABranch{
				{HasPattern: true, Pattern: map[string]interface{}{"lastBindings": map[string]interface{}{}}, Target: "start"},
				{HasPattern: true, Pattern: map[string]interface{}{"lastBindings": nil}, Target: "n1"},
				{Target: "n2"},
			}}}
			// and the first step fails
			a.Nodes["start"] = &ref.ANode{Branching: &ref.ABranching{Type: "message", Branches: []*ref.ABranch{
				{HasPattern: true, Pattern: map[string]interface{}{"uid": "?u"}, Guard: &ref.Prog{Ops: []ref.Op{{Op: "fail", V: u.Next("F")}}, Ret: "same"}, Target: "n1"},
			}}}
			var err error
			if spec, err = a.Compiled(false, ref.NativeNilErr); err != nil {
				return
			}
		}
		start := func() *core.State {
			if nilStart {
				return &core.State{NodeName: "start"}
			}
			return &core.State{NodeName: "start", Bs: match.Bindings(fw.Deep(bs).(map[string]interface{}))}
		}
		base, ok := run(rec, replay, spec, start(), msgs, 0)
		if !ok {
			return
		}
		rec.Eval(1)
		var saves []uint
		if nm <= 4 {
			for s := uint(1); s < 1<<uint(nm); s++ {
				saves = append(saves, s)
			}
			rec.Bucket("all_subsets_enumerated")
		} else {
			for k := 0; k < nm; k++ {
				saves = append(saves, 1<<uint(k))
			}
			saves = append(saves, (1<<uint(nm))-1)
		}
		for _, save := range saves {
			tr, ok := run(rec, replay, spec, start(), msgs, save)
			if !ok {
				return
			}
			rec.Eval(1)
			if fw.Canon(tr) != fw.Canon(base) {
				first := 0
				for first < len(tr) && first < len(base) && tr[first] == base[first] {
					first++
				}
				a1, b1 := "", ""
				if first < len(base) {
					a1 = base[first]
				}
				if first < len(tr) {
					b1 = tr[first]
				}
				rec.Violation("C09:reload-observable", fmt.Sprintf("persisting and reloading the state at boundaries %b changes behaviour from message %d on:\n in-memory: %s\n reloaded : %s", save, first, fw.Short(a1), fw.Short(b1)),
					map[string]interface{}{"case": replay, "save_mask": save})
				return
			}
			rec.Bucket("twins_compared")
		}
		// coverage classification from the in-memory trace
		joined := fw.Canon(base)
		if containsAll(joined, `lastBindings`) {
			rec.Bucket("error_node_with_diagnostics_reloaded")
		}
		if containsAll(joined, `actionError`) || containsAll(joined, `lastNode`) {
			rec.Bucket("action_failed_in_history")
		}
		if containsAll(fw.Canon(a), `"lastBindings"`) || containsAll(fw.Canon(a), `"?<lim"`) || containsAll(fw.Canon(a), `"?<lim"`) {
			rec.Bucket("inspecting_pattern_present")
		}
		consumed := 0
		for _, t := range base {
			if containsAll(t, `"consumed":true`) {
				consumed++
			}
		}
		if consumed >= 2 {
			rec.Nontrivial(fw.Canon(replay))
			if i%800 == 3 {
				rec.Sample(map[string]interface{}{"case": replay, "boundary_sets": len(saves), "trace_of_first_message": base[0]})
			}
		}
	})
}

func containsAll(s, sub string) bool {
	return len(sub) > 0 && len(s) >= len(sub) && (func() bool {
		for i := 0; i+len(sub) <= len(s); i++ {
			if s[i:i+len(sub)] == sub {
				return true
			}
		}
		return false
	})()
}
