package gen

import (
	"math/rand"
	"sort"

	"verif/fw"
)

// MatchCase is one generated matcher input together with the assignment that
// was planted into the message.
type MatchCase struct {
	Pattern  interface{}            `json:"pattern"`
	Message  interface{}            `json:"message"`
	In       map[string]interface{} `json:"bindings"`
	Planted  map[string]interface{} `json:"planted,omitempty"`  // variables the planted embedding assigns (incl. pre-bound and counterparts)
	Absent   []string               `json:"absent,omitempty"`   // optional variables planted absent
	Kind     string                 `json:"kind"`               // planted | inflated | nearmiss | random
	Features []string               `json:"features,omitempty"` // feature buckets
	Embedded bool                   `json:"embedded"`           // Planted is an exact embedding of Pattern into Message
}

var (
	plainVars = []string{"?x", "?y", "?z", "?w"}
	keyVars   = []string{"?k", "?l"}
	optVars   = []string{"??o", "??p"}
	ineqVars  = []string{"?<n", "?<=m", "?>g", "?>=j", "?!=i"}
)

// PatOpts tunes pattern generation.
type PatOpts struct {
	Depth       int
	Optional    bool // allow optional variables
	Inequality  bool // allow inequality variables (always pre-bound to a number)
	Anonymous   bool
	PropVars    bool // allow property variables
	PreBind     bool // pre-bind some variables in the initial bindings
	RepeatVars  bool // allow a variable to occur more than once (scalar values)
	SubPrebound bool // pre-bind a variable to a sub-structure of the planted fact (soundness only)
}

// PlainOnce is the fragment for which the result set must equal the set of embeddings.
var PlainOnce = PatOpts{Depth: 3, PropVars: true}

// Full enables everything.
var Full = PatOpts{Depth: 4, Optional: true, Inequality: true, Anonymous: true, PropVars: true, PreBind: true, RepeatVars: true}

type pgen struct {
	r        *rand.Rand
	o        PatOpts
	sigma    map[string]interface{}
	in       map[string]interface{}
	used     map[string]int
	absent   []string
	features map[string]bool
	multi    map[string]bool // variables allowed to repeat (scalar values)
	subPre   bool
	amount   int // inflation amount
}

func (g *pgen) feat(s string) { g.features[s] = true }

func sortedKeys(m map[string]interface{}) []string {
	ks := make([]string, 0, len(m))
	for k := range m {
		ks = append(ks, k)
	}
	sort.Strings(ks)
	return ks
}

// pickVar chooses a variable for a value position.  avoid holds the canon
// forms of the other members of the enclosing array (the planted value must differ).
func (g *pgen) pickVar(depth int, avoid map[string]bool) (pat string, inst interface{}, present bool) {
	r := g.r
	for attempt := 0; attempt < 8; attempt++ {
		k := r.Intn(10)
		switch {
		case k == 0 && g.o.Anonymous:
			g.feat("anonymous")
			if avoid != nil {
				g.feat("anonymous_in_array")
			}
			return "?", g.freshValue(depth, avoid), true
		case k == 1 && g.o.Optional:
			v := optVars[r.Intn(len(optVars))]
			if g.used[v] > 0 {
				continue
			}
			g.used[v]++
			g.feat("optional")
			if r.Intn(2) == 0 {
				g.absent = append(g.absent, v)
				g.feat("optional_absent")
				return v, nil, false
			}
			val := g.freshValue(depth, avoid)
			g.sigma[v] = val
			return v, val, true
		case k == 2 && g.o.Inequality:
			v := ineqVars[r.Intn(len(ineqVars))]
			op, cp := splitIneq(v)
			var a float64
			if prev, ok := g.sigma[cp]; ok {
				a = prev.(float64)
			} else {
				a = Numbers[r.Intn(len(Numbers))]
			}
			if avoid != nil && avoid[fw.Canon(a)] {
				continue
			}
			if g.o.PreBind && g.o.SubPrebound && g.used[v] == 0 && r.Intn(6) == 0 {
				if _, have := g.in[v]; !have {
					if _, have := g.sigma[cp]; !have {
						// adversarial: the counterpart is pre-bound to the very number the message
						// carries, but that number does NOT stand in the relation to the bound
						// (soundness only: a correct matcher returns nothing here)
						g.in[v] = violatingBoundFor(r, op, a)
						g.in[cp] = a
						g.sigma[v] = g.in[v]
						g.sigma[cp] = a
						g.used[v]++
						g.subPre = true
						g.feat("inequality_violated_with_prebound_counterpart")
						return v, a, true
					}
				}
			}
			if b, have := g.in[v]; !have {
				g.in[v] = boundFor(r, op, a)
			} else if !relOK(op, a, b.(float64)) {
				continue
			}
			if g.used[v] > 0 {
				g.feat("inequality_twice")
			}
			g.sigma[v] = g.in[v]
			g.sigma[cp] = a
			g.used[v]++
			g.feat("inequality")
			return v, a, true
		default:
			v := plainVars[r.Intn(len(plainVars))]
			if g.used[v] > 0 && !(g.o.RepeatVars && g.multi[v]) {
				continue
			}
			var val interface{}
			if have, ok := g.sigma[v]; ok {
				val = have
				if avoid != nil && avoid[fw.Canon(val)] {
					continue
				}
			} else {
				if g.multi[v] {
					val = g.freshScalar(avoid)
				} else {
					val = g.freshValue(depth, avoid)
				}
				g.sigma[v] = val
			}
			if g.used[v] > 0 {
				g.feat("repeated_variable")
			}
			g.used[v]++
			return v, val, true
		}
	}
	return "", nil, false
}

func (g *pgen) freshScalar(avoid map[string]bool) interface{} {
	for i := 0; i < 20; i++ {
		v := Scalar(g.r)
		if avoid == nil || !avoid[fw.Canon(v)] {
			return v
		}
	}
	return "fresh"
}

func (g *pgen) freshValue(depth int, avoid map[string]bool) interface{} {
	for i := 0; i < 20; i++ {
		v := Value(g.r, depth)
		if avoid == nil || !avoid[fw.Canon(v)] {
			return v
		}
	}
	return "fresh"
}

func splitIneq(v string) (op, cp string) {
	rest := v[1:]
	for _, o := range []string{"<=", ">=", "!=", ">", "<"} {
		if len(rest) >= len(o) && rest[:len(o)] == o {
			return o, "?" + rest[len(o):]
		}
	}
	return "", ""
}

func relOK(op string, a, b float64) bool {
	switch op {
	case "<":
		return a < b
	case "<=":
		return a <= b
	case ">":
		return a > b
	case ">=":
		return a >= b
	case "!=":
		return a != b
	}
	return false
}

// boundFor returns a bound b such that (a op b) holds.
func boundFor(r *rand.Rand, op string, a float64) float64 {
	d := float64(r.Intn(3))
	switch op {
	case "<":
		return a + 1 + d
	case "<=":
		return a + d
	case ">":
		return a - 1 - d
	case ">=":
		return a - d
	default:
		return a + 1 + d
	}
}

// violatingBoundFor returns a bound b such that (a op b) does NOT hold.
func violatingBoundFor(r *rand.Rand, op string, a float64) float64 {
	d := float64(r.Intn(3))
	switch op {
	case "<":
		return a - d
	case "<=":
		return a - 1 - d
	case ">":
		return a + d
	case ">=":
		return a + 1 + d
	default: // "!="
		return a
	}
}

// gen returns a pattern, its instantiation under the planted assignment, and
// an inflated instantiation (extra properties / elements at every depth of
// the constant skeleton; values planted under variables stay atomic).
func (g *pgen) gen(depth int) (pat, inst, inf interface{}) {
	r := g.r
	k := r.Intn(10)
	if depth <= 0 {
		k = r.Intn(4)
	}
	switch {
	case k < 2:
		c := Scalar(r)
		return c, c, c
	case k < 4:
		nAbs := len(g.absent)
		if p, i, present := g.pickVar(depth, nil); p != "" {
			if present {
				return p, i, i
			}
			// an absent optional variable cannot stand here: undo the choice
			g.absent = g.absent[:nAbs]
			g.used[p]--
		}
		c := Scalar(r)
		return c, c, c
	case k < 8:
		return g.genMap(depth)
	default:
		return g.genArray(depth)
	}
}

func (g *pgen) genMap(depth int) (pat, inst, inf interface{}) {
	r := g.r
	if g.o.PropVars && r.Intn(5) == 0 {
		// property variable: the sole key of its map
		if g.o.Anonymous && r.Intn(4) == 0 {
			vp, vi, vf := g.gen(depth - 1)
			g.feat("anonymous_property")
			key := Keys[r.Intn(len(Keys))]
			infm := map[string]interface{}{key: vf}
			g.addKeys(infm, nil)
			return map[string]interface{}{"?": vp}, map[string]interface{}{key: vi}, infm
		}
		kv := keyVars[r.Intn(len(keyVars))]
		if g.used[kv] == 0 || g.o.RepeatVars {
			var key string
			if have, ok := g.sigma[kv]; ok {
				key = have.(string)
				g.feat("repeated_variable")
			} else {
				key = Keys[r.Intn(len(Keys))]
				g.sigma[kv] = key
			}
			g.used[kv]++
			g.feat("property_variable")
			nAbsent := len(g.absent)
			vp, vi, vf := g.gen(depth - 1)
			if s, ok := vp.(string); ok && len(s) > 1 && s[:2] == "??" {
				g.feat("optional_under_property_variable")
			}
			_ = nAbsent
			infm := map[string]interface{}{key: vf}
			g.addKeys(infm, nil)
			return map[string]interface{}{kv: vp}, map[string]interface{}{key: vi}, infm
		}
	}
	n := r.Intn(4)
	pm := map[string]interface{}{}
	im := map[string]interface{}{}
	fm := map[string]interface{}{}
	for i := 0; i < n; i++ {
		key := Keys[r.Intn(len(Keys))]
		if _, dup := pm[key]; dup {
			continue
		}
		if r.Intn(3) == 0 {
			if p, v, present := g.pickVar(depth-1, nil); p != "" {
				pm[key] = p
				if present {
					im[key] = v
					fm[key] = v
				}
				continue
			}
		}
		vp, vi, vf := g.gen(depth - 1)
		pm[key] = vp
		im[key] = vi
		fm[key] = vf
	}
	g.addKeys(fm, pm)
	return pm, im, fm
}

// addKeys adds properties the pattern does not mention.
func (g *pgen) addKeys(fm map[string]interface{}, pm map[string]interface{}) {
	r := g.r
	for i := r.Intn(g.amount + 1); i > 0; i-- {
		key := Keys[r.Intn(len(Keys))]
		if _, have := fm[key]; have {
			continue
		}
		if _, mentioned := pm[key]; mentioned {
			continue // an optional variable planted absent sits here
		}
		if len(fm) > 0 && r.Intn(2) == 0 {
			ks := sortedKeys(fm)
			fm[key] = breakValue(r, fw.Deep(fm[ks[r.Intn(len(ks))]]))
		} else {
			fm[key] = Value(r, 2)
		}
	}
}

func (g *pgen) genArray(depth int) (pat, inst, inf interface{}) {
	r := g.r
	n := r.Intn(4)
	pa, ia, fa := []interface{}{}, []interface{}{}, []interface{}{}
	seen := map[string]bool{} // canon of every member of the instantiated and inflated arrays
	for i := 0; i < n; i++ {
		if r.Intn(2) == 0 {
			c := Scalar(r)
			cc := fw.Canon(c)
			if seen[cc] {
				continue
			}
			seen[cc] = true
			pa, ia, fa = append(pa, c), append(ia, c), append(fa, c)
			continue
		}
		var p, v, f interface{}
		if r.Intn(3) == 0 {
			p, v, f = g.genArray(depth - 1)
			g.feat("nested_array")
		} else {
			p, v, f = g.genMap(depth - 1)
		}
		pa, ia, fa = append(pa, p), append(ia, v), append(fa, f)
		seen[fw.Canon(v)] = true
		seen[fw.Canon(f)] = true
	}
	if r.Intn(2) == 0 {
		if p, v, present := g.pickVar(depth-1, seen); p != "" {
			g.feat("array_variable")
			pa = append(pa, p)
			if present {
				ia, fa = append(ia, v), append(fa, v)
				seen[fw.Canon(v)] = true
			}
		}
	}
	// extra elements
	for i := r.Intn(g.amount + 1); i > 0; i-- {
		var d interface{}
		if len(fa) > 0 && r.Intn(2) == 0 {
			d = breakValue(r, fw.Deep(fa[r.Intn(len(fa))]))
		} else {
			d = Value(r, 2)
		}
		c := fw.Canon(d)
		if seen[c] {
			continue
		}
		seen[c] = true
		fa = append(fa, d)
	}
	Shuffle(r, ia)
	Shuffle(r, fa)
	Shuffle(r, pa)
	return pa, ia, fa
}

// breakValue changes a value in one place.
func breakValue(r *rand.Rand, v interface{}) interface{} {
	switch t := v.(type) {
	case map[string]interface{}:
		if len(t) == 0 {
			return map[string]interface{}{"zz": 1.0}
		}
		ks := sortedKeys(t)
		k := ks[r.Intn(len(ks))]
		switch r.Intn(3) {
		case 0:
			delete(t, k)
		case 1:
			t[k] = breakValue(r, t[k])
		default:
			t[k] = "broken"
		}
		return t
	case []interface{}:
		if len(t) == 0 {
			return []interface{}{"broken"}
		}
		i := r.Intn(len(t))
		if r.Intn(2) == 0 {
			out := append([]interface{}{}, t[:i]...)
			return append(out, t[i+1:]...)
		}
		t[i] = breakValue(r, t[i])
		return t
	case float64:
		return t + 7
	case string:
		return t + "z"
	case bool:
		return !t
	case nil:
		return "notnull"
	}
	return "broken"
}

// GenMatchCase generates one matcher case with a planted embedding.
// mode: 0 planted exactly, 1 inflated, 2 near miss (broken instance), 3 random message.
func GenMatchCase(r *rand.Rand, o PatOpts, mode int) *MatchCase {
	g := &pgen{r: r, o: o, sigma: map[string]interface{}{}, in: map[string]interface{}{}, used: map[string]int{}, features: map[string]bool{}, multi: map[string]bool{}, amount: 2}
	if o.RepeatVars {
		for _, v := range plainVars {
			if r.Intn(2) == 0 {
				g.multi[v] = true
			}
		}
	}
	depth := o.Depth
	if depth <= 0 {
		depth = 3
	}
	var pat, inst, inf interface{}
	switch r.Intn(8) {
	case 0:
		pat, inst, inf = g.gen(depth)
	case 1, 2:
		pat, inst, inf = g.genArray(depth)
	default:
		pat, inst, inf = g.genMap(depth)
	}
	mc := &MatchCase{Pattern: pat, Kind: "planted", Embedded: true}
	in := map[string]interface{}{}
	for k, v := range g.in {
		in[k] = v
	}
	if o.PreBind {
		for _, v := range sortedKeys(g.sigma) {
			val := g.sigma[v]
			if _, isBound := in[v]; isBound {
				continue
			}
			if len(v) > 1 && v[1] == '?' {
				continue // optional variables are not pre-bound
			}
			isCounterpart := false
			for _, iv := range ineqVars {
				if _, cp := splitIneq(iv); cp == v {
					isCounterpart = true
				}
			}
			switch r.Intn(8) {
			case 0:
				in[v] = fw.Deep(val)
				g.feat("prebound_variable")
				if !IsScalar(val) {
					g.feat("prebound_structured")
				}
			case 1:
				if o.SubPrebound && !IsScalar(val) && !isCounterpart && g.used[v] == 1 {
					in[v] = subStructure(r, fw.Deep(val))
					g.subPre = true
					g.feat("prebound_substructure")
				}
			}
		}
		if r.Intn(3) == 0 {
			in["?unrelated"] = Value(r, 2)
			in["plainkey"] = Scalar(r)
			g.feat("unrelated_bindings")
		}
	}
	mc.In = in
	switch mode {
	case 0:
		mc.Message = inst
	case 1:
		mc.Message = inf
		mc.Kind = "inflated"
	case 2:
		mc.Message = breakValue(r, fw.Deep(inf))
		mc.Kind = "nearmiss"
		mc.Embedded = false
	default:
		mc.Message = Value(r, 3)
		mc.Kind = "random"
		mc.Embedded = false
	}
	mc.Planted = map[string]interface{}{}
	for k, v := range g.sigma {
		mc.Planted[k] = v
	}
	for k, v := range in {
		// pre-bound variables keep the given value (possibly a sub-structure)
		mc.Planted[k] = v
	}
	if g.subPre {
		mc.Embedded = false // the planted assignment is contained, not equal
	}
	mc.Absent = g.absent
	if Depth(pat) >= 4 {
		g.feat("depth_ge_4")
	}
	if g.features["nested_array"] && g.features["prebound_variable"] {
		g.feat("nested_array_with_prebound")
	}
	if g.features["optional"] && (g.features["property_variable"] || g.features["anonymous_property"]) {
		g.feat("optional_and_property_variable")
	}
	for f := range g.features {
		mc.Features = append(mc.Features, f)
	}
	sort.Strings(mc.Features)
	return mc
}

// subStructure returns a value contained in v (fewer keys / elements).
func subStructure(r *rand.Rand, v interface{}) interface{} {
	switch t := v.(type) {
	case map[string]interface{}:
		for _, k := range sortedKeys(t) {
			if r.Intn(2) == 0 {
				delete(t, k)
			} else {
				t[k] = subStructure(r, t[k])
			}
		}
		return t
	case []interface{}:
		if len(t) > 0 && r.Intn(2) == 0 {
			return t[:len(t)-1]
		}
		return t
	}
	return v
}
