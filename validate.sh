#!/bin/bash
# Validates MANIFEST.json and every evidence file against the schemas.
python3-vt - <<'PY'
import json,glob,sys
import jsonschema
ms=json.load(open('/root/.vp/MANIFEST.schema.json')); es=json.load(open('/root/.vp/EVIDENCE.schema.json'))
m=json.load(open('/verif/MANIFEST.json'))
jsonschema.validate(m,ms)
ids=[json.loads(l)['id'] for l in open('/verif/properties.jsonl')]
claimed=[c['property_id'] for c in m['checks']]; na=[x['property_id'] for x in m.get('not_applicable',[])]
assert sorted(claimed+na)==sorted(ids),(sorted(set(ids)-set(claimed+na)),)
bad=0
for c in m['checks']:
    f=c['evidence_file']
    try:
        e=json.load(open(f)); jsonschema.validate(e,es)
        assert e['property_id']==c['property_id'] and e['level']==c['level_claimed']['category'],(f,'level/id mismatch')
    except Exception as ex:
        bad+=1; print('BAD',f,str(ex)[:300])
print('manifest ok; evidence bad =',bad)
PY
