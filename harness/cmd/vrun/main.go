// vrun is the parent driver: it builds the child for each part of a property's
// workload from /repo's current working tree, runs the batches under a
// watchdog, aggregates what the monitors observed, matches violations against
// known_findings.txt, writes the evidence file and prints the verdict lines.
package main

import (
	"bufio"
	"encoding/json"
	"fmt"
	"os"
	"os/exec"
	"path/filepath"
	"regexp"
	"sort"
	"strconv"
	"strings"
	"sync"
	"time"

	"verif/fw"
)

const (
	verifDir = "/verif"
	repoDir  = "/repo"
)

func die(code int, format string, a ...interface{}) {
	fmt.Fprintf(os.Stderr, format+"\n", a...)
	os.Exit(code)
}

func goEnv() []string {
	env := os.Environ()
	env = append(env, "GOFLAGS=-mod=mod", "GOPROXY=off", "GOSUMDB=off", "GOTOOLCHAIN=local")
	return env
}

type batchOutcome struct {
	part    fw.Part
	batch   int
	res     *fw.Result
	crashed bool
	hung    bool
	log     string
	exit    int
}

func main() {
	if len(os.Args) < 2 {
		die(2, "usage: vrun <ID> [--tier quick|thorough] [--seed N] [--replay FILE] [--keep] | vrun --warm")
	}
	id := os.Args[1]
	tier := os.Getenv("VERIF_TIER")
	if tier == "" {
		tier = "quick"
	}
	seed := fw.EnvInt("VERIF_SEED", 1)
	replay := ""
	keep := false
	for i := 2; i < len(os.Args); i++ {
		switch os.Args[i] {
		case "--tier":
			i++
			tier = os.Args[i]
		case "--seed":
			i++
			seed, _ = strconv.ParseInt(os.Args[i], 10, 64)
		case "--replay":
			i++
			replay = os.Args[i]
		case "--keep":
			keep = true
		default:
			die(2, "unknown argument %q", os.Args[i])
		}
	}
	if id == "--warm" {
		warm()
		return
	}
	meta, ok := fw.Table[id]
	if !ok {
		die(2, "unknown property %q", id)
	}
	if tier != "quick" && tier != "thorough" {
		die(2, "bad tier %q", tier)
	}
	if replay != "" {
		// A replay file records the seed and tier of the run that found the
		// violation; the case lists are a pure function of (seed, tier).
		var rf struct {
			Seed int64  `json:"seed"`
			Tier string `json:"tier"`
		}
		b, err := os.ReadFile(replay)
		if err != nil {
			die(2, "replay: %v", err)
		}
		if err := json.Unmarshal(b, &rf); err != nil {
			die(2, "replay: %v", err)
		}
		seed, tier = rf.Seed, rf.Tier
	}

	start := time.Now()
	work := filepath.Join(verifDir, ".work", fmt.Sprintf("%s-%d", id, os.Getpid()))
	if err := os.MkdirAll(work, 0755); err != nil {
		die(2, "mkdir: %v", err)
	}
	if !keep {
		defer os.RemoveAll(work)
	}

	var outcomes []batchOutcome
	for _, part := range meta.Parts {
		bin, err := build(work, part)
		if err != nil {
			os.RemoveAll(work)
			die(2, "BUILD-FAILED property=%s part=%s: %v", id, part.Name, err)
		}
		n := part.BQ
		if tier == "thorough" {
			n = part.BT
		}
		outs := make([]batchOutcome, n)
		sem := make(chan struct{}, max(1, part.Parallel))
		var wg sync.WaitGroup
		for b := 0; b < n; b++ {
			wg.Add(1)
			sem <- struct{}{}
			go func(b int) {
				defer wg.Done()
				defer func() { <-sem }()
				workers := 16 / max(1, part.Parallel)
				cfg := fw.Config{Prop: id, Part: part.Name, Tier: tier, Seed: seed, Batch: b, Batches: n,
					Workers: workers, WorkDir: filepath.Join(work, fmt.Sprintf("%s-b%d", part.Name, b))}
				os.MkdirAll(cfg.WorkDir, 0755)
				outs[b] = runBatch(work, bin, part, cfg)
			}(b)
		}
		wg.Wait()
		outcomes = append(outcomes, outs...)
	}

	total := &fw.Result{Prop: id}
	raceReports := 0
	for _, o := range outcomes {
		if o.res != nil {
			fw.Merge(total, o.res)
		}
		if o.res == nil {
			site, msg, cases := crashInfo(o.log)
			switch {
			case o.hung && meta.HangIsViolation:
				total.Violations = append(total.Violations, fw.Violation{
					Sig: "hang:" + o.part.Name, Desc: fmt.Sprintf("batch %d of part %s still running at the hard bound (%ds)", o.batch, o.part.Name, o.part.HardS),
					Replay: map[string]interface{}{"last_cases": cases, "log_tail": tail(o.log, 60)}})
			case o.hung:
				total.Inconclusive = append(total.Inconclusive, fmt.Sprintf("watchdog fired on part %s batch %d", o.part.Name, o.batch))
			default:
				total.Violations = append(total.Violations, fw.Violation{
					Sig: "crash:" + site, Desc: fmt.Sprintf("child process died (exit %d): %s", o.exit, msg),
					Replay: map[string]interface{}{"last_cases": cases, "log_tail": tail(o.log, 60)}})
			}
		}
		if o.part.Race {
			rs := raceViolations(work, o.part, o.batch)
			raceReports += len(rs)
			total.Violations = append(total.Violations, rs...)
		}
	}
	total.FinalizeDistinct()

	for _, b := range total.RequiredBuckets {
		if total.Buckets[b] == 0 {
			total.Inconclusive = append(total.Inconclusive, "required coverage bucket empty: "+b)
		}
	}
	if total.Evaluations == 0 {
		total.Inconclusive = append(total.Inconclusive, "no judged executions")
	}

	// Known findings.
	known := loadKnown(id)
	var knownPrinted []string
	var unknown []fw.Violation
	seenKnown := map[string]bool{}
	for _, v := range total.Violations {
		if k, ok := matchKnown(known, v.Sig); ok {
			if !seenKnown[k.sig] {
				seenKnown[k.sig] = true
				line := fmt.Sprintf("KNOWN-FINDING: property=%s %s", id, k.text)
				knownPrinted = append(knownPrinted, line)
				fmt.Println(line)
			}
			continue
		}
		unknown = append(unknown, v)
	}

	// Replay files.
	os.MkdirAll(filepath.Join(verifDir, "replays"), 0755)
	// replays of an earlier run with this id and seed would read as this run's
	if old, _ := filepath.Glob(filepath.Join(verifDir, "replays", fmt.Sprintf("%s-%d-*.json", id, seed))); old != nil {
		for _, f := range old {
			os.Remove(f)
		}
	}
	bySig := map[string]int{}
	var violLines []string
	for _, v := range unknown {
		bySig[v.Sig]++
		if bySig[v.Sig] > 1 || len(violLines) >= 12 {
			continue
		}
		path := filepath.Join(verifDir, "replays", fmt.Sprintf("%s-%d-%d.json", id, seed, len(violLines)))
		js, _ := json.MarshalIndent(map[string]interface{}{
			"property": id, "seed": seed, "tier": tier, "sig": v.Sig, "desc": v.Desc, "witness": v.Replay,
		}, "", " ")
		os.WriteFile(path, js, 0644)
		violLines = append(violLines, fmt.Sprintf("VIOLATION property=%s replay=%s", id, path))
		fmt.Fprintf(os.Stderr, "--- %s sig=%s\n%s\n", id, v.Sig, v.Desc)
	}
	for _, r := range total.Inconclusive {
		fmt.Printf("INCONCLUSIVE property=%s reason=%s\n", id, r)
	}

	wall := time.Since(start).Seconds()
	writeEvidence(meta, tier, seed, total, raceReports, knownPrinted, len(unknown), wall)

	keys := make([]string, 0, len(total.Buckets))
	for k := range total.Buckets {
		keys = append(keys, k)
	}
	sort.Strings(keys)
	fmt.Printf("OBSERVED property=%s tier=%s seed=%d evaluations=%d distinct_nontrivial=%d race_reports=%d wall_s=%.1f\n",
		id, tier, seed, total.Evaluations, total.DistinctN, raceReports, wall)
	for _, k := range keys {
		fmt.Printf("  bucket %-40s %d\n", k, total.Buckets[k])
	}
	if len(violLines) > 0 {
		for _, l := range violLines {
			fmt.Println(l)
		}
		if !keep {
			os.RemoveAll(work)
		}
		os.Exit(1)
	}
	fmt.Printf("HELD property=%s on everything observed\n", id)
}

func max(a, b int) int {
	if a > b {
		return a
	}
	return b
}

func warm() {
	work := filepath.Join(verifDir, ".work", fmt.Sprintf("warm-%d", os.Getpid()))
	os.MkdirAll(work, 0755)
	defer os.RemoveAll(work)
	seen := map[string]bool{}
	for _, m := range fw.Table {
		for _, p := range m.Parts {
			key := fmt.Sprintf("%v/%s", p.Race, p.InPkg)
			if seen[key] {
				continue
			}
			seen[key] = true
			if p.InPkg != "" {
				if _, err := os.Stat(filepath.Join(verifDir, "harness", "_inpkg", filepath.Base(p.InPkg))); err != nil {
					continue // in-package monitors not present
				}
			}
			if _, err := build(work, p); err != nil {
				die(2, "warm build failed: %v", err)
			}
		}
	}
	fmt.Println("warm: ok")
}

// build compiles the child for a part from /repo's current working tree.
func build(work string, part fw.Part) (string, error) {
	name := "child-plain"
	if part.Race {
		name = "child-race"
	}
	if part.InPkg != "" {
		name = "child-" + strings.ReplaceAll(part.InPkg, "/", "_")
		if part.Race {
			name += "-race"
		}
	}
	bin := filepath.Join(work, name)
	if _, err := os.Stat(bin); err == nil {
		return bin, nil
	}
	var cmd *exec.Cmd
	if part.InPkg == "" {
		args := []string{"build", "-tags", "verif"}
		if part.Race {
			args = append(args, "-race")
		}
		args = append(args, "-o", bin, "./cmd/vchild")
		cmd = exec.Command("go", args...)
		cmd.Dir = filepath.Join(verifDir, "harness")
	} else {
		base := filepath.Base(part.InPkg)
		srcDir := filepath.Join(verifDir, "harness", "_inpkg", base)
		ents, err := os.ReadDir(srcDir)
		if err != nil {
			return "", err
		}
		replace := map[string]string{}
		for _, e := range ents {
			if strings.HasSuffix(e.Name(), ".go") {
				replace[filepath.Join(repoDir, part.InPkg, "zz_verif_"+strings.TrimSuffix(e.Name(), ".go")+"_test.go")] = filepath.Join(srcDir, e.Name())
			}
		}
		ov, _ := json.Marshal(map[string]interface{}{"Replace": replace})
		ovPath := filepath.Join(work, "overlay-"+base+".json")
		os.WriteFile(ovPath, ov, 0644)
		// Alternate go.mod so the in-package monitors can import the framework.
		mod, err := os.ReadFile(filepath.Join(repoDir, "go.mod"))
		if err != nil {
			return "", err
		}
		modPath := filepath.Join(work, "inpkg-"+base+".mod")
		extra := "\nrequire verif v0.0.0\nrequire github.com/anishathalye/porcupine v1.3.0\nreplace verif => /verif/harness\n"
		os.WriteFile(modPath, append(mod, []byte(extra)...), 0644)
		sum1, _ := os.ReadFile(filepath.Join(repoDir, "go.sum"))
		sum2, _ := os.ReadFile(filepath.Join(verifDir, "harness", "go.sum"))
		os.WriteFile(filepath.Join(work, "inpkg-"+base+".sum"), append(append(sum1, '\n'), sum2...), 0644)
		args := []string{"test", "-c", "-vet=off", "-tags", "verif", "-overlay", ovPath, "-modfile", modPath}
		if part.Race {
			args = append(args, "-race")
		}
		args = append(args, "-o", bin, "./"+part.InPkg)
		cmd = exec.Command("go", args...)
		cmd.Dir = repoDir
	}
	cmd.Env = goEnv()
	out, err := cmd.CombinedOutput()
	if err != nil {
		return "", fmt.Errorf("%v\n%s", err, out)
	}
	return bin, nil
}

func runBatch(work, bin string, part fw.Part, cfg fw.Config) batchOutcome {
	o := batchOutcome{part: part, batch: cfg.Batch}
	logPath := filepath.Join(work, fmt.Sprintf("log-%s-%d.txt", part.Name, cfg.Batch))
	outPath := filepath.Join(work, fmt.Sprintf("res-%s-%d.json", part.Name, cfg.Batch))
	o.log = logPath
	cfgJS, _ := json.Marshal(cfg)
	args := []string{"-s", "QUIT", "-k", "20", strconv.Itoa(part.HardS), bin}
	if part.InPkg != "" {
		args = append(args, "-test.run", "^TestVerifChild$", "-test.timeout", "0", "-test.v")
	}
	cmd := exec.Command("timeout", args...)
	lf, err := os.Create(logPath)
	if err != nil {
		o.crashed = true
		return o
	}
	defer lf.Close()
	cmd.Stdout = lf
	cmd.Stderr = lf
	cmd.Dir = cfg.WorkDir
	env := append(os.Environ(), "VERIF_CFG="+string(cfgJS), "VERIF_OUT="+outPath, "GOTRACEBACK=all")
	if part.Race {
		env = append(env, fmt.Sprintf("GORACE=halt_on_error=0 history_size=3 log_path=%s", filepath.Join(work, fmt.Sprintf("race-%s-%d", part.Name, cfg.Batch))))
	}
	cmd.Env = env
	err = cmd.Run()
	if err != nil {
		if ee, ok := err.(*exec.ExitError); ok {
			o.exit = ee.ExitCode()
		} else {
			o.exit = -1
		}
	}
	b, rerr := os.ReadFile(outPath)
	if rerr == nil {
		var res fw.Result
		if json.Unmarshal(b, &res) == nil {
			o.res = &res
			return o
		}
	}
	o.crashed = true
	if o.exit == 124 || o.exit == 137 {
		o.hung = true
	}
	return o
}

// crashInfo extracts the fatal message, the first sheens frame after it, and
// the last CASE line per worker from a child's log.
func crashInfo(path string) (site, msg string, cases []string) {
	f, err := os.Open(path)
	if err != nil {
		return "nolog", "no log", nil
	}
	defer f.Close()
	last := map[string]string{}
	sc := bufio.NewScanner(f)
	sc.Buffer(make([]byte, 1<<20), 1<<26)
	site = "unknown"
	found := false
	for sc.Scan() {
		l := sc.Text()
		if strings.HasPrefix(l, "CASE ") {
			parts := strings.SplitN(l, " ", 3)
			if len(parts) == 3 {
				if len(parts[2]) > 4000 {
					parts[2] = parts[2][:4000]
				}
				last[parts[1]] = parts[2]
			}
			continue
		}
		if msg == "" && (strings.HasPrefix(l, "panic:") || strings.HasPrefix(l, "fatal error:") || strings.HasPrefix(l, "SIGQUIT")) {
			msg = l
			found = true
			continue
		}
		if found && site == "unknown" && (strings.HasPrefix(l, "github.com/Comcast/sheens/") || strings.HasPrefix(l, "main.")) {
			// "pkg.(*T).Method(0x...)": the function name is everything before the argument list
			if i := strings.LastIndex(l, "("); i > 0 {
				s := strings.TrimPrefix(l[:i], "github.com/Comcast/sheens/")
				if !strings.HasPrefix(s, "main.TestVerif") && !strings.HasPrefix(s, "main.main") {
					site = s
				}
			}
		}
	}
	if msg == "" {
		msg = "no panic or fatal line in log"
	}
	for w, c := range last {
		cases = append(cases, w+" "+c)
	}
	sort.Strings(cases)
	if len(cases) > 16 {
		cases = cases[:16]
	}
	return
}

func tail(path string, n int) []string {
	b, err := os.ReadFile(path)
	if err != nil {
		return nil
	}
	lines := strings.Split(string(b), "\n")
	var keep []string
	for _, l := range lines {
		if !strings.HasPrefix(l, "CASE ") {
			if len(l) > 300 {
				l = l[:300]
			}
			keep = append(keep, l)
		}
	}
	if len(keep) > n {
		keep = keep[len(keep)-n:]
	}
	return keep
}

// raceViolations parses the race detector's logs for one batch.
func raceViolations(work string, part fw.Part, batch int) []fw.Violation {
	files, _ := filepath.Glob(filepath.Join(work, fmt.Sprintf("race-%s-%d.*", part.Name, batch)))
	var vs []fw.Violation
	for _, f := range files {
		b, err := os.ReadFile(f)
		if err != nil {
			continue
		}
		blocks := strings.Split(string(b), "==================")
		for _, blk := range blocks {
			if !strings.Contains(blk, "WARNING: DATA RACE") {
				continue
			}
			sig := raceSig(blk)
			if len(blk) > 6000 {
				blk = blk[:6000]
			}
			vs = append(vs, fw.Violation{Sig: "race:" + sig, Desc: "data race reported by the Go race detector", Replay: strings.Split(strings.TrimSpace(blk), "\n")})
		}
	}
	return vs
}

var raceFrameRe = regexp.MustCompile(`^\s+((?:github\.com/Comcast/sheens|main|verif)\S*?)\(\)\s*$`)

// raceSig: innermost sheens (or harness) function of each of the two accesses, sorted.
func raceSig(blk string) string {
	lines := strings.Split(blk, "\n")
	var sites []string
	inAccess := false
	got := false
	for _, l := range lines {
		t := strings.TrimSpace(l)
		if strings.HasPrefix(t, "Write at") || strings.HasPrefix(t, "Read at") || strings.HasPrefix(t, "Previous write at") || strings.HasPrefix(t, "Previous read at") ||
			strings.HasPrefix(t, "Atomic") || strings.HasPrefix(t, "Previous atomic") {
			inAccess = true
			got = false
			continue
		}
		if strings.HasPrefix(t, "Goroutine ") {
			inAccess = false
			continue
		}
		if inAccess && !got {
			if m := raceFrameRe.FindStringSubmatch(l); m != nil {
				sites = append(sites, strings.TrimPrefix(m[1], "github.com/Comcast/sheens/"))
				got = true
			}
		}
	}
	sort.Strings(sites)
	if len(sites) == 0 {
		return "unparsed"
	}
	return strings.Join(sites, "|")
}

type knownEntry struct {
	sig, text string
}

// loadKnown reads "finding:" lines of /verif/known_findings.txt for one property.
func loadKnown(id string) []knownEntry {
	b, err := os.ReadFile(filepath.Join(verifDir, "known_findings.txt"))
	if err != nil {
		return nil
	}
	var ks []knownEntry
	for _, l := range strings.Split(string(b), "\n") {
		l = strings.TrimSpace(l)
		if !strings.HasPrefix(l, "finding:") {
			continue
		}
		rest := strings.TrimSpace(strings.TrimPrefix(l, "finding:"))
		f := strings.Fields(rest)
		if len(f) < 2 || f[0] != "property="+id || !strings.HasPrefix(f[1], "sig=") {
			continue
		}
		sig := strings.TrimPrefix(f[1], "sig=")
		text := strings.TrimSpace(strings.SplitN(rest, f[1], 2)[1])
		ks = append(ks, knownEntry{sig: sig, text: text})
	}
	return ks
}

func matchKnown(ks []knownEntry, sig string) (knownEntry, bool) {
	for _, k := range ks {
		if k.sig == sig {
			return k, true
		}
	}
	return knownEntry{}, false
}

func writeEvidence(meta fw.Meta, tier string, seed int64, r *fw.Result, races int, known []string, violations int, wall float64) {
	cov := map[string]interface{}{
		"evaluations":         r.Evaluations,
		"distinct_nontrivial": r.DistinctN,
		"rule":                r.Rule,
		"samples":             r.Samples,
		"buckets":             r.Buckets,
		"inconclusive":        r.Inconclusive,
		"known_findings":      known,
	}
	if r.Exhaustive {
		cov["exhaustive"] = true
	}
	raceParts := false
	for _, p := range meta.Parts {
		raceParts = raceParts || p.Race
	}
	if raceParts {
		cov["race_reports"] = races
	}
	for k, v := range r.Extra {
		if _, clash := cov[k]; !clash {
			cov[k] = v
		}
	}
	if r.Samples == nil {
		cov["samples"] = []interface{}{}
	}
	if r.Inconclusive == nil {
		cov["inconclusive"] = []string{}
	}
	if known == nil {
		cov["known_findings"] = []string{}
	}
	ev := map[string]interface{}{
		"property_id": meta.ID,
		"tier":        tier,
		"seed":        seed,
		"level":       meta.Level,
		"coverage":    cov,
		"assumptions": r.Assumptions,
		"wall_s":      wall,
		"violations":  violations,
	}
	if r.Assumptions == nil {
		ev["assumptions"] = []string{}
	}
	js, _ := json.MarshalIndent(ev, "", " ")
	os.MkdirAll(filepath.Join(verifDir, "evidence"), 0755)
	os.WriteFile(filepath.Join(verifDir, "evidence", meta.ID+".json"), js, 0644)
}
