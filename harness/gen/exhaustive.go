package gen

import "verif/fw"

// Terms enumerates every JSON term with at most maxNodes nodes over the given
// leaves; maps use the given constant keys (every non-empty subset, plus the
// empty map) and, for patterns, a single variable key from varKeys; arrays are
// enumerated as multisets in canonical order (order is irrelevant to set
// semantics), without duplicate members when distinctOnly is set.
func Terms(maxNodes int, leaves []interface{}, keys []string, varKeys []string, distinctOnly bool) []interface{} {
	bySize := make([][]interface{}, maxNodes+1)
	for n := 1; n <= maxNodes; n++ {
		var out []interface{}
		if n == 1 {
			out = append(out, leaves...)
			out = append(out, map[string]interface{}{}, []interface{}{})
		}
		// maps over constant keys: choose a non-empty subset of keys, distribute n-1 nodes
		if n >= 2 {
			for mask := 1; mask < 1<<uint(len(keys)); mask++ {
				var ks []string
				for i, k := range keys {
					if mask&(1<<uint(i)) != 0 {
						ks = append(ks, k)
					}
				}
				for _, parts := range compositions(n-1, len(ks)) {
					var build func(i int, m map[string]interface{})
					build = func(i int, m map[string]interface{}) {
						if i == len(ks) {
							cp := make(map[string]interface{}, len(m))
							for k, v := range m {
								cp[k] = v
							}
							out = append(out, cp)
							return
						}
						for _, v := range bySize[parts[i]] {
							m[ks[i]] = v
							build(i+1, m)
						}
						delete(m, ks[i])
					}
					build(0, map[string]interface{}{})
				}
			}
			for _, vk := range varKeys {
				for _, v := range bySize[n-1] {
					out = append(out, map[string]interface{}{vk: v})
				}
			}
			// arrays: multisets of terms with total size n-1, in non-decreasing (size, canon) order
			var all []interface{}
			for s := 1; s <= n-1; s++ {
				all = append(all, bySize[s]...)
			}
			var buildA func(start, remaining int, cur []interface{})
			buildA = func(start, remaining int, cur []interface{}) {
				if remaining == 0 {
					out = append(out, append([]interface{}{}, cur...))
					return
				}
				for i := start; i < len(all); i++ {
					sz := Size(all[i])
					if sz > remaining {
						continue
					}
					next := i
					if distinctOnly {
						next = i + 1
					}
					buildA(next, remaining-sz, append(cur, all[i]))
				}
			}
			buildA(0, n-1, nil)
		}
		bySize[n] = out
	}
	var res []interface{}
	for n := 1; n <= maxNodes; n++ {
		res = append(res, bySize[n]...)
	}
	return res
}

// Size counts nodes.
func Size(x interface{}) int {
	switch t := x.(type) {
	case map[string]interface{}:
		n := 1
		for _, v := range t {
			n += Size(v)
		}
		return n
	case []interface{}:
		n := 1
		for _, v := range t {
			n += Size(v)
		}
		return n
	}
	return 1
}

func compositions(total, parts int) [][]int {
	if parts == 0 {
		if total == 0 {
			return [][]int{{}}
		}
		return nil
	}
	var out [][]int
	for first := 1; first <= total-(parts-1); first++ {
		for _, rest := range compositions(total-first, parts-1) {
			out = append(out, append([]int{first}, rest...))
		}
	}
	return out
}

var _ = fw.Canon
