package c08

// A crew run whose context ends in the middle: machine A's action succeeds and emits, the
// emitted message is fed back and makes machine B spin until the deadline.  B's action is a
// failed action (and B is where a failed action takes it); A's action completed, so what it
// emitted is reported, with A's change.

import (
	"context"
	"fmt"
	"strings"
	"time"

	"github.com/Comcast/sheens/sio"

	"verif/fw"
	"verif/siox"
)

func emissionsSurviveALaterTimeout(rec *fw.Rec) {
	specA := `{"name":"a","nodes":{"start":{"branching":{"type":"message","branches":[{"pattern":{"go":"?g"},"target":"emit"}]}},
 "emit":{"action":{"interpreter":"ecmascript","source":"_.out({to:'b', spin: _.bindings['?g']}); _.out({to:'nobody', id:'kept'}); return {sent: true};"},"branching":{"branches":[{"target":"start"}]}}}}`
	specB := `{"name":"b","nodes":{"start":{"branching":{"type":"message","branches":[{"pattern":{"spin":"?s"},"target":"spin"}]}},
 "spin":{"action":{"interpreter":"ecmascript","source":"for (;;) { }"},"branching":{"branches":[{"target":"start"}]}}}}`
	for _, ms := range []int{60, 150} {
		func() {
			base, cancelBase := context.WithCancel(context.Background())
			defer cancelBase()
			c, _, err := siox.NewCrew(base, 50, 4, 4)
			if err != nil {
				rec.Inconclusive("crew: " + err.Error())
				return
			}
			for id, doc := range map[string]string{"a": specA, "b": specB} {
				src, err := siox.Inline(doc)
				if err == nil {
					err = c.SetMachine(base, id, src, nil)
				}
				if err != nil {
					rec.Inconclusive("machine: " + err.Error())
					return
				}
			}
			c.GetChanged(base)
			replay := map[string]interface{}{"scenario": "machine a emits to machine b, whose action spins until the deadline of the request", "deadline_ms": ms}
			ctx, cancel := context.WithTimeout(base, time.Duration(ms)*time.Millisecond)
			defer cancel()
			var res *sio.Result
			var perr error
			done := make(chan bool, 1)
			go func() {
				done <- rec.Guard("C08:deadline", replay, func() { res, perr = c.ProcessMsg(ctx, map[string]interface{}{"to": "a", "go": 1.0}) })
			}()
			select {
			case p := <-done:
				if p {
					return
				}
			case <-time.After(60 * time.Second):
				rec.Violation("C08:deadline:hang", "ProcessMsg did not return within 60 s of a deadline of "+fmt.Sprint(ms)+" ms", replay)
				return
			}
			rec.Eval(1)
			// machine a's action completed (its state says so): its emissions count
			am := c.Machines["a"]
			if am == nil || am.State == nil || am.State.Bs["sent"] != true {
				rec.Inconclusive("deadline scenario: machine a did not complete its action")
				return
			}
			emitted := ""
			if res != nil {
				emitted = fw.Canon(res.Emitted)
			}
			if res == nil || !strings.Contains(emitted, `"id":"kept"`) || !strings.Contains(emitted, `"spin":1`) {
				rec.Violation("C08:completed-actions-emissions-lost", fmt.Sprintf("machine a's action completed and emitted two messages; the request's context then ended while machine b handled one of them; the host was told: result=%v err=%v emitted=%s", res != nil, perr, emitted), replay)
				return
			}
			if _, have := res.Changed["a"]; !have {
				rec.Violation("C08:completed-actions-emissions-lost", "machine a changed state, but the result does not report its change", replay)
				return
			}
			rec.Bucket("emissions_reported_although_a_later_action_of_the_run_timed_out")
		}()
	}
}
