// Package c19: the expectation tool's verdict is sound.  Sessions are run
// against a `cat` subprocess, so the stream of emitted lines is exactly the
// concatenation of the session's inputs; a reference verdict model decides
// whether a pass is justified.
package c19

import (
	"context"
	"encoding/json"
	"fmt"
	"io"
	"log"
	"strings"
	"time"

	"github.com/Comcast/sheens/core"
	"github.com/Comcast/sheens/match"
	"github.com/Comcast/sheens/tools/expect"

	"verif/fw"
)

type outSpec struct {
	Pattern  string `json:"pattern"` // JSON text
	Guard    string `json:"guard"`   // none accept reject acceptif1
	Inverted bool   `json:"inverted,omitempty"`
}

type stepSpec struct {
	Inputs  []string  `json:"inputs"`
	Outputs []outSpec `json:"outputs"`
}

type sessionSpec struct {
	Steps []stepSpec `json:"steps"`
}

var patterns = []string{`{"a":"?x"}`, `{"a":1}`, `{"b":"?y"}`, `{"a":1,"b":2}`, `{"c":"?z"}`, `{"a":2}`, `{"?k":"v"}`, `{"?k":1}`, `{"?":7}`, `{"l":["?e"]}`, `{"a":"?x","opt":"??o"}`, `{"b":1,"zz":"??z","yy":"??y"}`}
var lines = []string{`{"a":1}`, `{"a":2}`, `{"b":1}`, `{"a":1,"b":2}`, `{"c":3}`, `{"d":4}`, `not json at all`, `{"a":1}`, `{"b":2,"a":2}`,
	`{"k":"v"}`, `{"l":[1,2]}`, `{"l":[]}`, `{"l":[2,1]}`, `{"l":[3,2,1]}`,
	// not JSON, although a prefix is
	`{"a":1}}`, `{"b":1} ] junk`, `[{"a":1}]]`, `{"c":3}]`, `{"a":1} {"b":1}`, `{"a":1},`}

func guardAccepts(kind string, bs match.Bindings) bool {
	switch kind {
	case "reject":
		return false
	case "acceptif1":
		for _, v := range bs {
			if f, ok := v.(float64); ok && f == 1 {
				return true
			}
		}
		return false
	}
	return true
}

func mkGuard(kind string) core.Action {
	if kind == "none" {
		return nil
	}
	return &core.FuncAction{F: func(ctx context.Context, bs match.Bindings, props core.StepProps) (*core.Execution, error) {
		if guardAccepts(kind, bs) {
			return core.NewExecution(bs.Copy()), nil
		}
		return core.NewExecution(nil), nil
	}}
}

// satisfied: does line satisfy the output (pattern matches and guard accepts some / the first binding)?
func satisfies(o outSpec, msg interface{}) bool {
	var p interface{}
	json.Unmarshal([]byte(o.Pattern), &p)
	bss, err := match.Match(p, msg, match.NewBindings())
	if err != nil || len(bss) == 0 {
		return false
	}
	// a pattern can match a message in several ways (an array is a set); the guard
	// accepts the message if it accepts one of them
	for _, bs := range bss {
		if guardAccepts(o.Guard, bs) {
			return true
		}
	}
	return false
}

// justified is the reference verdict: is there a resolution under which every
// step's expectations are met by the stream?
func justified(s *sessionSpec) bool {
	var stream []interface{}
	for _, st := range s.Steps {
		for _, in := range st.Inputs {
			var m interface{}
			if json.Unmarshal([]byte(in), &m) == nil {
				stream = append(stream, m)
			}
		}
	}
	var ok func(k, pos int) bool
	ok = func(k, pos int) bool {
		if k == len(s.Steps) {
			return true
		}
		outs := s.Steps[k].Outputs
		need := 0
		for _, o := range outs {
			if !o.Inverted {
				need++
			}
		}
		invertedHit := func(m interface{}) bool {
			for _, o := range outs {
				if o.Inverted && satisfies(o, m) {
					return true
				}
			}
			return false
		}
		if need == 0 {
			// the text leaves open whether such a step consumes a line
			if ok(k+1, pos) {
				return true
			}
			return pos < len(stream) && !invertedHit(stream[pos]) && ok(k+1, pos+1)
		}
		matched := make([]bool, len(outs))
		for i := pos; i < len(stream); i++ {
			if invertedHit(stream[i]) {
				return false
			}
			for j, o := range outs {
				if !o.Inverted && !matched[j] && satisfies(o, stream[i]) {
					matched[j] = true
					need--
				}
			}
			if need == 0 {
				return ok(k+1, i+1)
			}
		}
		return false
	}
	return ok(0, 0)
}

func (s *sessionSpec) session() *expect.Session {
	sess := &expect.Session{ParsePatterns: true, DefaultTimeout: 120 * time.Millisecond}
	for _, st := range s.Steps {
		io := expect.IO{}
		for _, in := range st.Inputs {
			io.Inputs = append(io.Inputs, in)
		}
		for _, o := range st.Outputs {
			io.OutputSet = append(io.OutputSet, expect.Output{Pattern: o.Pattern, Guard: mkGuard(o.Guard), Inverted: o.Inverted})
		}
		sess.IOs = append(sess.IOs, io)
	}
	return sess
}

func Run(cfg fw.Config, rec *fw.Rec) {
	log.SetOutput(io.Discard)
	rec.Rule = "sessions of 1-3 steps, 0-3 expected outputs per step over 6 patterns, inverted outputs, guards {none, accept, reject, accept-if}, run with /bin/cat as the subprocess so that the emitted stream is exactly the session's inputs (duplicates of one expected message while another never arrives, never-arriving messages with 120 ms timeouts, non-JSON noise, messages and noise lines of 4080-70000 bytes around the 4096-byte buffer boundaries; patterns whose source is a JSON string literal ('42', 'true', '[1]', ...), numbers, booleans, arrays against streams of such scalars and their string look-alikes); outputs whose guards are ECMAScript sources that are replaced between two runs of one session (or accompanied by a native Guard): the source the output has when it runs decides; a third of the passing sessions are run a second time - their outputs now carry recorded bindings - on a stream that meets no expectation and must fail; oracle: Run()==nil implies the reference window model justifies a pass under some resolution; non-trivial = session with >= 2 expected outputs in some step that the tool passed, or any session the tool failed; distinct by session"
	rec.Required = []string{"tool_passed_and_justified", "tool_failed", "family_duplicate_instead_of_other", "family_rejecting_guard", "family_inverted", "family_never_arrives", "family_noise", "family_long_lines", "family_scalar_patterns", "forbidden_pattern_matching_in_several_ways", "guard_sources_replaced_between_runs", "rerun_with_recorded_bindings_failed_as_it_must", "rerun_with_bindings_on_an_inverted_output_failed_as_it_must"}
	rec.Assume = []string{"slowness can only turn a pass into a timeout failure, never the reverse, so load cannot cause a false alarm", "the reference is at least as permissive as the documentation: windows may extend into later steps' lines, a step without positive expectations may or may not consume a line"}
	guardSources(rec)
	n := cfg.Pick(1500, 20000)
	fw.Parallel(cfg.Workers, n, func(w, i int) {
		r := cfg.Rng("c19", i)
		s := &sessionSpec{}
		family := "random"
		fam := i % 6
		if fam == 4 && i%12 != 4 {
			fam = 5 // random
			if i%12 == 10 {
				fam = 6
			}
		}
		switch fam {
		case 0:
			// expected {A,B}; the stream has A twice and never B
			family = "duplicate_instead_of_other"
			pa, pb := `{"a":"?x"}`, `{"b":"?y"}`
			if r.Intn(2) == 0 {
				pa, pb = `{"a":1}`, `{"c":"?z"}`
			}
			s.Steps = []stepSpec{{Inputs: []string{`{"a":1}`, `{"a":1}`, `{"d":4}`}, Outputs: []outSpec{{Pattern: pa, Guard: "none"}, {Pattern: pb, Guard: "none"}}}}
			if r.Intn(2) == 0 {
				s.Steps[0].Inputs = []string{`{"a":1}`, `not json`, `{"a":1}`, `{"a":1}`}
			}
		case 1:
			family = "rejecting_guard"
			s.Steps = []stepSpec{{Inputs: []string{`{"a":1}`, `{"a":2}`}, Outputs: []outSpec{{Pattern: `{"a":"?x"}`, Guard: "reject"}}}}
			if r.Intn(2) == 0 {
				s.Steps[0].Outputs = []outSpec{{Pattern: `{"a":"?x"}`, Guard: "acceptif1"}}
				s.Steps[0].Inputs = []string{`{"a":2}`, `{"a":3}`}
			}
		case 2:
			family = "inverted"
			s.Steps = []stepSpec{{Inputs: []string{`{"b":1}`, `{"a":1}`}, Outputs: []outSpec{{Pattern: `{"a":"?x"}`, Guard: "none"}, {Pattern: `{"b":"?y"}`, Guard: "none", Inverted: true}}}}
			if r.Intn(2) == 0 {
				s.Steps[0].Inputs = []string{`{"a":1,"b":2}`}
			}
			if r.Intn(3) == 0 {
				// the forbidden pattern matches in several ways; its guard accepts one of them,
				// not the first
				s.Steps = []stepSpec{{Inputs: []string{[]string{`{"l":[2,1]}`, `{"l":[3,2,1]}`, `{"l":[2,3,1,4]}`}[r.Intn(3)], `{"a":1}`},
					Outputs: []outSpec{{Pattern: `{"a":"?x"}`, Guard: "none"}, {Pattern: `{"l":["?e"]}`, Guard: "acceptif1", Inverted: true}}}}
				rec.Bucket("forbidden_pattern_matching_in_several_ways")
			}
		case 4:
			// a forbidden pattern with an optional variable matches a message that lacks the
			// optional property (and so has fewer properties than the pattern)
			family = "inverted"
			s.Steps = []stepSpec{{Inputs: []string{`{"status":"failed"}`, `{"a":1}`},
				Outputs: []outSpec{{Pattern: `{"a":"?x"}`, Guard: "none"}, {Pattern: `{"status":"failed","reason":"??r"}`, Guard: "none", Inverted: true}}}}
			if r.Intn(2) == 0 {
				s.Steps[0].Inputs = []string{`{"a":1}`, `{"b":2}`}
				s.Steps[0].Outputs = []outSpec{{Pattern: `{"a":"?x","more":"??m","evenmore":"??n"}`, Guard: "none"}, {Pattern: `{"b":"?y","opt":"??o"}`, Guard: "none"}}
			}
		case 6:
			// patterns and messages that are not objects: a pattern whose source is a JSON
			// string literal is that string, whatever the string's content looks like
			family = "scalar_patterns"
			sp := []string{`"42"`, `"true"`, `"null"`, `"[1]"`, `"\"x\""`, `"{\"a\":1}"`, `"done"`, `42`, `true`, `[1]`}
			sl := []string{`42`, `"42"`, `true`, `"true"`, `null`, `"null"`, `[1]`, `"[1]"`, `"x"`, `"\"x\""`, `{"a":1}`, `"{\"a\":1}"`, `"done"`, `{"status":"starting"}`, `noise`}
			ns := 1 + r.Intn(2)
			for k := 0; k < ns; k++ {
				st := stepSpec{Inputs: []string{`{"status":"starting"}`}}
				for j := 1 + r.Intn(4); j > 0; j-- {
					st.Inputs = append(st.Inputs, sl[r.Intn(len(sl))])
				}
				for j := 1 + r.Intn(2); j > 0; j-- {
					o := outSpec{Pattern: sp[r.Intn(len(sp))], Guard: "none"}
					if r.Intn(4) == 0 {
						o.Inverted = true
					}
					st.Outputs = append(st.Outputs, o)
				}
				s.Steps = append(s.Steps, st)
			}
		case 3:
			// lines longer than a reader's buffer (4096 bytes is bufio's default): a long
			// message is one message, and a long noise line is noise whatever its tail says
			family = "long_lines"
			lens := []int{4080, 4089, 4090, 4095, 4096, 4097, 5000, 8185, 8192, 8200, 20000, 70000}
			pad := func(n int, c string) string { return strings.Repeat(c, n) }
			n := lens[r.Intn(len(lens))]
			switch r.Intn(4) {
			case 0: // a forbidden message that is long
				s.Steps = []stepSpec{{Inputs: []string{`{"b":1,"pad":"` + pad(n, "x") + `"}`, `{"a":1}`},
					Outputs: []outSpec{{Pattern: `{"a":"?x"}`, Guard: "none"}, {Pattern: `{"b":"?y"}`, Guard: "none", Inverted: true}}}}
			case 1: // noise whose tail, cut at a buffer boundary, would be a message
				k := []int{4096, 8192, 4096 * 3}[r.Intn(3)]
				s.Steps = []stepSpec{{Inputs: []string{pad(k, "#") + `{"a":1}`, `{"d":4}`}, Outputs: []outSpec{{Pattern: `{"a":"?x"}`, Guard: "none"}}}}
			case 2: // the same with the tail anywhere
				s.Steps = []stepSpec{{Inputs: []string{pad(n, "#") + `{"a":1}`}, Outputs: []outSpec{{Pattern: `{"a":"?x"}`, Guard: "none"}}}}
			default: // a long message that is expected, and a long one that is forbidden after it
				s.Steps = []stepSpec{{Inputs: []string{`{"a":1,"pad":"` + pad(n, "y") + `"}`}, Outputs: []outSpec{{Pattern: `{"a":"?x"}`, Guard: "none"}}},
					{Inputs: []string{`{"pad":"` + pad(n, "z") + `","b":2}`, `{"c":3}`}, Outputs: []outSpec{{Pattern: `{"c":"?z"}`, Guard: "none"}, {Pattern: `{"b":"?y"}`, Guard: "none", Inverted: true}}}}
			}
		default:
			ns := 1 + r.Intn(3)
			for k := 0; k < ns; k++ {
				st := stepSpec{}
				for j := r.Intn(5); j > 0; j-- {
					st.Inputs = append(st.Inputs, lines[r.Intn(len(lines))])
				}
				for j := r.Intn(4); j > 0; j-- {
					o := outSpec{Pattern: patterns[r.Intn(len(patterns))], Guard: []string{"none", "none", "accept", "reject", "acceptif1"}[r.Intn(5)]}
					if r.Intn(5) == 0 {
						o.Inverted = true
					}
					st.Outputs = append(st.Outputs, o)
				}
				s.Steps = append(s.Steps, st)
			}
		}
		rec.LogCase(w, s)
		sess := s.session()
		ctx, cancel := context.WithTimeout(context.Background(), 20*time.Second)
		var err error
		panicked := rec.Guard("C19", s, func() { err = sess.Run(ctx, "", "/bin/cat") })
		cancel()
		if panicked {
			return
		}
		rec.Eval(1)
		want := justified(s)
		if err == nil && !want {
			rec.Violation("C19:unjustified-pass:"+family, "the tool passed a session whose expectations the emitted stream does not meet", s)
			return
		}
		// Leftovers: the outputs of a session that has been run keep the bindings that were
		// recorded ("bs"), and a session file can carry them too.  Run the same Session again
		// with inputs that cannot satisfy it: it must not pass.
		if err == nil && i%6 >= 4 {
			for k := range sess.IOs {
				sess.IOs[k].Inputs = []interface{}{`{"unrelated":1}`, `noise`, `{"unrelated":2}`}
			}
			s2 := &sessionSpec{}
			for _, st := range s.Steps {
				s2.Steps = append(s2.Steps, stepSpec{Inputs: []string{`{"unrelated":1}`, `noise`, `{"unrelated":2}`}, Outputs: st.Outputs})
			}
			positives := 0
			for _, st := range s.Steps {
				for _, o := range st.Outputs {
					if !o.Inverted {
						positives++
					}
				}
			}
			if positives > 0 && !justified(s2) {
				ctx2, cancel2 := context.WithTimeout(context.Background(), 20*time.Second)
				var err2 error
				p2 := rec.Guard("C19:rerun", s, func() { err2 = sess.Run(ctx2, "", "/bin/cat") })
				cancel2()
				if p2 {
					return
				}
				rec.Eval(1)
				if err2 == nil {
					rec.Violation("C19:unjustified-pass:session-with-recorded-bindings", "a session whose outputs carry bindings recorded by an earlier run passed on a stream that meets none of its expectations", map[string]interface{}{"session": s, "second_stream": s2.Steps[0].Inputs})
					return
				}
				rec.Bucket("rerun_with_recorded_bindings_failed_as_it_must")
			}
		}
		// ... and the other way round: a session that failed because a forbidden message
		// arrived (its inverted output now carries the bindings of that match), or whose
		// file already carries bindings on an inverted output, fails again on the same stream
		if family == "inverted" && err != nil && !want {
			for pre := 0; pre < 2; pre++ {
				s3 := s.session()
				if pre == 1 {
					for k := range s3.IOs {
						for j := range s3.IOs[k].OutputSet {
							if s3.IOs[k].OutputSet[j].Inverted {
								s3.IOs[k].OutputSet[j].Bindingss = []match.Bindings{{"?y": 1.0}}
							}
						}
					}
				} else {
					s3 = sess
				}
				ctx3, cancel3 := context.WithTimeout(context.Background(), 20*time.Second)
				var err3 error
				p3 := rec.Guard("C19:rerun-inverted", s, func() { err3 = s3.Run(ctx3, "", "/bin/cat") })
				cancel3()
				if p3 {
					return
				}
				rec.Eval(1)
				if err3 == nil {
					rec.Violation("C19:unjustified-pass:inverted-output-with-recorded-bindings", "a session whose forbidden message arrives passed because its inverted output already carried bindings (recorded by an earlier run, or given in the session)", map[string]interface{}{"session": s, "bindings_given_in_the_session": pre == 1})
					return
				}
				rec.Bucket("rerun_with_bindings_on_an_inverted_output_failed_as_it_must")
			}
		}
		hasNoise, never, inverted := false, false, false
		for _, st := range s.Steps {
			for _, in := range st.Inputs {
				var m interface{}
				if json.Unmarshal([]byte(in), &m) != nil {
					hasNoise = true
				}
			}
			for _, o := range st.Outputs {
				if o.Inverted {
					inverted = true
				}
			}
		}
		if !want {
			never = true
		}
		if err == nil {
			rec.Bucket("tool_passed_and_justified")
		} else {
			rec.Bucket("tool_failed")
			if want {
				rec.Bucket("tool_failed_although_reference_would_accept")
			}
		}
		if family != "random" {
			rec.Bucket("family_" + family)
		}
		if hasNoise {
			rec.Bucket("family_noise")
		}
		if never && err != nil {
			rec.Bucket("family_never_arrives")
		}
		if inverted {
			rec.Bucket("family_inverted")
		}
		rec.Nontrivial(fw.Canon(s))
		if i%400 == 5 {
			rec.Sample(map[string]interface{}{"session": s, "tool_error": fmt.Sprint(err), "reference_justifies_pass": want})
		}
	})
}
