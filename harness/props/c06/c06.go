// Package c06: the engine holds no state.  Deep snapshots of every argument
// before and after Step / Walk, identity of returned bindings maps, and a
// second identical call.
package c06

import (
	"context"
	"encoding/json"
	"fmt"
	"runtime"
	"sort"
	"strings"
	"sync"
	"time"

	"github.com/Comcast/sheens/core"
	"github.com/Comcast/sheens/match"

	"verif/fw"
	"verif/gen"
	"verif/props/c04"
	"verif/ref"
)

// identityAction returns the bindings map it was given, unmodified.
func identityAction() core.Action {
	return &core.FuncAction{F: func(ctx context.Context, bs match.Bindings, props core.StepProps) (*core.Execution, error) {
		return core.NewExecution(bs), nil
	}}
}

type inputs struct {
	st      *core.State
	pending []interface{}
	ctl     *core.Control
	props   core.StepProps
}

// goNumbers gives whole numbers inside arrays the types Go code (or a script's result that
// never went through JSON) gives them: int64 and int.  The snapshots are type-sensitive.
func goNumbers(x interface{}, inArray bool, k int) interface{} {
	switch t := x.(type) {
	case float64:
		if inArray && t == float64(int64(t)) {
			if k%2 == 0 {
				return int64(t)
			}
			return int(t)
		}
		return t
	case map[string]interface{}:
		m := make(map[string]interface{}, len(t))
		for key, v := range t {
			m[key] = goNumbers(v, false, k)
		}
		return m
	case []interface{}:
		a := make([]interface{}, len(t))
		for i, v := range t {
			a[i] = goNumbers(v, true, k+i)
		}
		return a
	}
	return x
}

func mkInputs(st ref.AState, pending []interface{}, limit int, withBP bool) *inputs {
	in := &inputs{}
	var bs match.Bindings
	if st.Bs != nil {
		bs = match.Bindings(fw.Deep(st.Bs).(map[string]interface{}))
	}
	in.st = &core.State{NodeName: st.Node, Bs: bs}
	if pending != nil {
		in.pending = fw.Deep(pending).([]interface{})
	}
	// every third case (by content): Go-typed numbers in the arrays of state and messages
	if len(fw.Canon(st.Bs))%3 == 1 {
		if bs != nil {
			in.st.Bs = match.Bindings(goNumbers(map[string]interface{}(bs), false, 0).(map[string]interface{}))
		}
		if in.pending != nil {
			in.pending = goNumbers(in.pending, false, 1).([]interface{})
			for i, p := range in.pending { // (the list of messages is not itself a value)
				if f, ok := p.(int64); ok {
					in.pending[i] = float64(f)
				} else if f, ok := p.(int); ok {
					in.pending[i] = float64(f)
				}
			}
		}
	}
	in.ctl = &core.Control{Limit: limit}
	if withBP {
		in.ctl.Breakpoints = map[string]core.Breakpoint{"never": func(context.Context, *core.State) bool { return false }}
	}
	in.props = core.StepProps{"p": map[string]interface{}{"nested": []interface{}{1.0, 2.0}}, "q": "s"}
	return in
}

type snap struct {
	node    string
	bs      interface{}
	pending interface{}
	limit   int
	bps     []string
	props   interface{}
	spec    interface{}
	ctlAll  string // every field of the control, unexported ones included, as fmt prints them
}

func takeSnap(in *inputs, spec *core.Spec) *snap {
	s := &snap{node: in.st.NodeName, bs: fw.Deep(in.st.Bs), pending: fw.Deep(in.pending), limit: in.ctl.Limit, props: fw.Deep(in.props), spec: ref.SnapSpec(spec)}
	for id := range in.ctl.Breakpoints {
		s.bps = append(s.bps, id)
	}
	sort.Strings(s.bps)
	s.ctlAll = fmt.Sprintf("%+v", *in.ctl)
	return s
}

func (s *snap) compare(in *inputs, spec *core.Spec) (cls, why string) {
	if in.st.NodeName != s.node {
		return "state-node-modified", "the given state's node name changed"
	}
	if d := fw.Diff(s.bs, fw.Deep(in.st.Bs)); d != "" {
		return "state-bindings-modified", "the given state's bindings changed: " + d
	}
	if d := fw.Diff(s.pending, fw.Deep(in.pending)); d != "" {
		return "messages-modified", "the given messages changed: " + d
	}
	if in.ctl.Limit != s.limit {
		return "control-modified", "the control's limit changed"
	}
	var bps []string
	for id := range in.ctl.Breakpoints {
		bps = append(bps, id)
	}
	sort.Strings(bps)
	if fw.Canon(bps) != fw.Canon(s.bps) {
		return "control-modified", "the control's breakpoints changed"
	}
	if now := fmt.Sprintf("%+v", *in.ctl); now != s.ctlAll {
		return "control-modified", "the control changed (all its fields, as fmt prints them): before " + s.ctlAll + ", after " + now
	}
	if d := fw.Diff(s.props, fw.Deep(in.props)); d != "" {
		return "props-modified", "the step properties changed: " + d
	}
	if d := fw.Diff(s.spec, ref.SnapSpec(spec)); d != "" {
		return "spec-modified", "the specification changed: " + d
	}
	return "", ""
}

// holdsMap: where below x (x itself excluded) is the map with the given identity?  "" = nowhere.
func holdsMap(x interface{}, id uintptr, depth int) string {
	if depth > 40 {
		return ""
	}
	each := func(k string, v interface{}) string {
		if fw.MapID(v) == id {
			return k
		}
		if p := holdsMap(v, id, depth+1); p != "" {
			return k + "." + p
		}
		return ""
	}
	switch t := x.(type) {
	case map[string]interface{}:
		for k, v := range t {
			if p := each(k, v); p != "" {
				return p
			}
		}
	case match.Bindings:
		for k, v := range t {
			if p := each(k, v); p != "" {
				return p
			}
		}
	case []interface{}:
		for i, v := range t {
			if p := each(fmt.Sprint(i), v); p != "" {
				return p
			}
		}
	}
	return ""
}

func inputMapIDs(in *inputs) map[uintptr]string {
	ids := map[uintptr]string{}
	add := func(x interface{}, what string) {
		if id := fw.MapID(x); id != 0 {
			ids[id] = what
		}
	}
	add(in.st.Bs, "the given state's bindings")
	add(in.props, "the step properties")
	for _, p := range in.pending {
		add(p, "a given message")
	}
	return ids
}

func strideCanon(s *core.Stride) interface{} {
	if s == nil {
		return nil
	}
	m := map[string]interface{}{"consumed": fw.Canon(s.Consumed)}
	if s.From != nil {
		m["from"] = s.From.NodeName + "/" + fw.Canon(s.From.Bs)
	}
	if s.To != nil {
		m["to"] = s.To.NodeName + "/" + fw.Canon(s.To.Bs)
	}
	if s.Events != nil {
		m["emitted"] = fw.Canon(s.Events.Emitted)
	}
	return m
}

func walkedCanon(w *core.Walked, err error) string {
	m := map[string]interface{}{}
	if err != nil {
		m["err"] = err.Error()
	}
	if w != nil {
		var ss []interface{}
		for _, s := range w.Strides {
			ss = append(ss, strideCanon(s))
		}
		m["strides"] = ss
		m["remaining"] = fw.Canon(w.Remaining)
		m["stopped"] = w.StoppedBecause.String()
	}
	return fw.Canon(m)
}

type caseDesc struct {
	Spec    *ref.ASpec    `json:"spec"`
	Render  string        `json:"render"`
	State   ref.AState    `json:"state"`
	Pending []interface{} `json:"pending"`
	Limit   int           `json:"limit"`
	Op      string        `json:"op"`
}

// judge runs Step or Walk twice on (copies of) the same inputs and checks snapshots, identities and equality.
func judge(rec *fw.Rec, cd *caseDesc, spec *core.Spec, deadline bool) bool {
	run := func(in *inputs) (res string, maps []interface{}, panicked bool) {
		ctx := context.Background()
		if deadline {
			var cancel context.CancelFunc
			ctx, cancel = context.WithTimeout(ctx, 100*time.Millisecond)
			defer cancel()
		}
		panicked = rec.Guard("C06", cd, func() {
			if cd.Op == "step" {
				var p interface{}
				if len(in.pending) > 0 {
					p = in.pending[0]
				}
				st, err := spec.Step(ctx, in.st, p, in.ctl, in.props)
				m := map[string]interface{}{"stride": strideCanon(st)}
				if err != nil {
					m["err"] = err.Error()
				}
				res = fw.Canon(m)
				if st != nil {
					if st.From != nil {
						maps = append(maps, st.From.Bs)
					}
					if st.To != nil {
						maps = append(maps, st.To.Bs)
					}
				}
			} else {
				w, err := spec.Walk(ctx, in.st, in.pending, in.ctl, in.props)
				res = walkedCanon(w, err)
				if w != nil {
					for _, s := range w.Strides {
						if s == nil {
							continue
						}
						if s.From != nil {
							maps = append(maps, s.From.Bs)
						}
						if s.To != nil {
							maps = append(maps, s.To.Bs)
						}
					}
					if f := w.From(); f != nil {
						maps = append(maps, f.Bs)
					}
					if t := w.To(); t != nil {
						maps = append(maps, t.Bs)
					}
				}
			}
		})
		return
	}
	in := mkInputs(cd.State, cd.Pending, cd.Limit, true)
	sn := takeSnap(in, spec)
	ids := inputMapIDs(in)
	res1, maps, panicked := run(in)
	if panicked {
		return false
	}
	rec.Eval(1)
	if cls, why := sn.compare(in, spec); cls != "" {
		rec.Violation("C06:"+cls+":"+cd.Op, why, cd)
		return false
	}
	givenBs := fw.MapID(in.st.Bs)
	for _, m := range maps {
		if what, shared := ids[fw.MapID(m)]; shared {
			rec.Violation("C06:result-shares-input-map:"+cd.Op, "a returned state's bindings map is the same object as "+what, cd)
			return false
		}
		// ... nor may the given bindings map sit anywhere inside a returned state (say as
		// "lastBindings"): editing the result would then edit the caller's state
		// (Only what the engine itself puts there is judged: a bindings-branch pattern that
		// is a bare variable legitimately binds the whole bindings value it is matched against.)
		var bookkeeping interface{}
		switch t := m.(type) {
		case match.Bindings:
			bookkeeping = map[string]interface{}{"lastBindings": t["lastBindings"]}
		case map[string]interface{}:
			bookkeeping = map[string]interface{}{"lastBindings": t["lastBindings"]}
		}
		if at := holdsMap(bookkeeping, givenBs, 0); givenBs != 0 && at != "" && !strings.Contains(at, "?") {
			rec.Violation("C06:result-holds-input-bindings-map:"+cd.Op, "the given state's bindings map itself (not a copy) is stored inside a returned state's bindings, at "+at, cd)
			return false
		}
	}
	// second call on the very same (unchanged) objects
	res2, _, panicked := run(in)
	if panicked {
		return false
	}
	rec.Eval(1)
	// Under a deadline that has already expired, a terminating script may either complete
	// or time out (both are legitimate), so repeated results are compared only for cases
	// that run without a deadline.
	if res1 != res2 && !deadline {
		rec.Violation("C06:repeat-differs:"+cd.Op, fmt.Sprintf("a second identical call gave a different result:\n first: %s\nsecond: %s", fw.Short(res1), fw.Short(res2)), cd)
		return false
	}
	if cls, why := sn.compare(in, spec); cls != "" {
		rec.Violation("C06:"+cls+":"+cd.Op, "after the second call: "+why, cd)
		return false
	}
	rec.Bucket("op_" + cd.Op)
	return true
}

// mutatorJS changes every value reachable from _.bindings in place (array
// elements, array order and length, object members) and returns fresh bindings.
const mutatorJS = `function mut(x) { if (Array.isArray(x)) { for (var i = 0; i < x.length; i++) { if (x[i] !== null && typeof x[i] === 'object') { mut(x[i]); } else { x[i] = 'mutated'; } } x.reverse(); if (x.length > 0) { x.shift(); } x.push('pushed'); } else if (x !== null && typeof x === 'object') { for (var k in x) { if (x[k] !== null && typeof x[k] === 'object') { mut(x[k]); } else { x[k] = 'mutated'; } } x.added = 'mutated'; } } mut(_.bindings); mut(_.props); return {done: true};`

// mutatorStates: bindings of varied shapes (flat with arrays only, arrays of
// arrays, arrays of objects, nested objects, Go-typed numbers).
var mutatorStates = []map[string]interface{}{
	{"queue": []interface{}{"a", "b", "c"}, "owner": "alice"},
	{"q": []interface{}{1.0, 2.0, 3.0}, "n": 1.0, "s": "x"},
	{"grid": []interface{}{[]interface{}{1.0, 2.0}, []interface{}{3.0}}, "flag": true},
	{"items": []interface{}{map[string]interface{}{"id": 1.0}, map[string]interface{}{"id": 2.0}}},
	{"cfg": map[string]interface{}{"deep": map[string]interface{}{"list": []interface{}{"x", "y"}}}, "queue": []interface{}{"a"}},
	{"ints": []interface{}{int64(1), int64(2)}, "i": int64(7)},
	{"only": "scalars", "k": 2.0, "z": nil},
	{"tags": []string{"a", "b"}, "attrs": map[string]string{"k": "v"}, "n": 1.0},
	{"?order": map[string]interface{}{"items": []map[string]interface{}{{"sku": "x"}}, "nums": []int{1, 2}}},
}

// tallyJS keeps a tally in a built-in object: if anything of one execution
// survives into the next, a repeated call gives a different result.
const tallyJS = `Math.tally = (Math.tally || 0) + 1; Object.prototype.seen = (Object.prototype.seen || 0) + 1; var G = Function("return this")(); G.counter = (G.counter || 0) + 1; return {tally: Math.tally, seen: ({}).seen, counter: G.counter};`

func mutatorSpec(position string, settings int) *ref.ASpec {
	return scriptSpec(mutatorJS, position, settings)
}

func scriptSpec(src string, position string, settings int) *ref.ASpec {
	mut := &ref.Prog{Ops: []ref.Op{{Op: "raw", V: src, K: "", K2: "weak"}}, Ret: "same"}
	a := &ref.ASpec{Name: "mutator", Nodes: map[string]*ref.ANode{"n2": {}, "aerr": {}}}
	switch settings {
	case 1:
		a.ActionErrorBranches = true
	case 2:
		a.ActionErrorNode = "aerr"
	}
	if position == "action" {
		a.Nodes["start"] = &ref.ANode{Action: mut, Branching: &ref.ABranching{Type: "bindings", Branches: []*ref.ABranch{{Target: "n2"}}}}
	} else {
		a.Nodes["start"] = &ref.ANode{Branching: &ref.ABranching{Type: "bindings", Branches: []*ref.ABranch{{Guard: mut, Target: "n2"}, {Target: "n2"}}}}
	}
	return a
}

func renderSpec(a *ref.ASpec, render string) (*core.Spec, error) {
	switch render {
	case "native-nilerr":
		return a.Compiled(true, ref.NativeNilErr)
	case "native-partial":
		return a.Compiled(true, ref.NativePartialErr)
	case "native-identity":
		s, err := a.Compiled(true, ref.NativeNilErr)
		if err != nil {
			return nil, err
		}
		for _, n := range s.Nodes {
			if n.Action != nil {
				n.Action = identityAction()
			}
		}
		return s, nil
	default:
		return a.Compiled(false, ref.NativeNilErr)
	}
}

// readers: a call that does not modify what it is given can run while others read it.  Many
// goroutines step and walk from ONE state object (with permanent bindings), with ONE message
// object and ONE props object, while readers serialise them - under the race detector, which
// reports any write to what was given.
func readers(cfg fw.Config, rec *fw.Rec) {
	rec.Rule = "8 goroutines step and walk (ECMAScript, native identity, failing and rejecting programs) from one shared *State with permanent and structured bindings, one shared message and one shared StepProps while 3 readers serialise and iterate those objects; child built with -race: any report is a write to a given object (or an unsynchronised read of engine state)"
	rec.Required = []string{"shared_input_rounds", "shared_input_rounds_action_without_function", "shared_input_rounds_identity_action", "shared_input_rounds_control_with_breakpoints"}
	progs := []*ref.Prog{
		{Ops: []ref.Op{{Op: "inc", K: "n"}, {Op: "set", K: "seen", V: "yes"}}, Ret: "same"},
		{Ops: []ref.Op{{Op: "del", K: "cfg!"}, {Op: "inc", K: "n"}}, Ret: "same"},
		{Ops: []ref.Op{{Op: "fail", V: "F"}}, Ret: "same"},
		{Ret: "null"},
		{Ret: "fresh", Fresh: map[string]interface{}{"only": 1.0}},
	}
	for round := 0; round < cfg.Pick(12, 60); round++ {
		native := round%2 == 1
		a := &ref.ASpec{Name: "readers", Nodes: map[string]*ref.ANode{
			"start": {Branching: &ref.ABranching{Type: "message", Branches: []*ref.ABranch{{HasPattern: true, Pattern: map[string]interface{}{"l": []interface{}{"?e", "p"}, "uid": "?u"}, Target: "act"}}}},
			"act":   {Action: progs[round%len(progs)], Branching: &ref.ABranching{Type: "bindings", Branches: []*ref.ABranch{{Guard: progs[(round+1)%len(progs)], Target: "done"}, {HasPattern: true, Pattern: map[string]interface{}{"cfg!": map[string]interface{}{"k": "?k"}}, Target: "done"}, {Target: "done"}}}},
			"done":  {}, "aerr": {},
		}}
		if round%3 == 1 {
			a.ActionErrorBranches = true
		}
		spec, err := a.Compiled(native, ref.NativeNilErr)
		if err != nil {
			rec.Inconclusive("readers spec: " + err.Error())
			return
		}
		// an action that hands back the very map it was given: a nil *FuncAction
		// and one whose function returns its argument
		switch round % 6 {
		case 2:
			spec.Nodes["act"].Action = (*core.FuncAction)(nil) // Exec on a nil *FuncAction returns the bindings given
			rec.Bucket("shared_input_rounds_action_without_function")
		case 4:
			spec.Nodes["act"].Action = identityAction()
			rec.Bucket("shared_input_rounds_identity_action")
		}
		st := &core.State{NodeName: "start", Bs: match.Bindings{"cfg!": map[string]interface{}{"k": 1.0, "deep": []interface{}{map[string]interface{}{"v": 1.0}}}, "name!": "keep", "n": 1.0, "arr": []interface{}{1.0, 2.0}}}
		atAct := &core.State{NodeName: "act", Bs: st.Bs} // the same bindings map, at the action node
		msg := map[string]interface{}{"uid": "m", "l": []interface{}{"q", "p"}, "k": 1.0}
		props := core.StepProps{"p": map[string]interface{}{"k": "v"}, "l": []interface{}{1.0}}
		ctl := &core.Control{Limit: 6}
		if round%2 == 0 {
			// a control with breakpoints, first used by all the walks at once
			ctl.Breakpoints = map[string]core.Breakpoint{
				"never":   func(context.Context, *core.State) bool { return false },
				"at-done": func(_ context.Context, s *core.State) bool { return s.NodeName == "done" },
			}
			rec.Bucket("shared_input_rounds_control_with_breakpoints")
		}
		stop := make(chan struct{})
		var rwg, wg sync.WaitGroup
		for k := 0; k < 3; k++ {
			rwg.Add(1)
			go func() {
				defer rwg.Done()
				for {
					select {
					case <-stop:
						return
					default:
					}
					json.Marshal(st)
					json.Marshal(msg)
					json.Marshal(props)
					for range st.Bs {
					}
					runtime.Gosched()
				}
			}()
		}
		for g := 0; g < 8; g++ {
			wg.Add(1)
			go func(g int) {
				defer wg.Done()
				for k := 0; k < 40; k++ {
					rec.Guard("C06:readers", a, func() {
						switch (g + k) % 3 {
						case 0:
							spec.Walk(context.Background(), st, []interface{}{msg}, ctl, props)
						case 1:
							spec.Step(context.Background(), atAct, nil, ctl, props)
						default:
							spec.Step(context.Background(), st, msg, ctl, props)
						}
					})
				}
			}(g)
		}
		wg.Wait()
		close(stop)
		rwg.Wait()
		rec.Eval(320)
		rec.Bucket("shared_input_rounds")
		rec.Nontrivial(fmt.Sprintf("readers-%d", round))
	}
}

func Run(cfg fw.Config, rec *fw.Rec) {
	if cfg.Part == "readers" {
		readers(cfg, rec)
		return
	}
	rec.Rule = "(a) every enumerated single-node configuration of C04's full vocabulary (failing / null-returning actions, rejecting / failing guards, invalid patterns, missing and @var targets, 4 error settings) x 5 states x 5 pendings, Step and Walk (limits 0,1,100), rendered with native actions (nil,err), native (partial,err), native identity action, and ECMAScript (sampled); (b) random multi-node specs with message sequences; deep snapshots of state, messages, control, props and spec are compared before/after, result maps are checked for identity with input maps, and the call is repeated; non-trivial = case whose result has a next state, an error, or emissions; distinct by canonical case"
	rec.Required = []string{"op_step", "op_walk", "render_native-nilerr", "render_native-partial", "render_native-identity", "render_ecma", "path_action_failed", "path_error_node", "path_limit", "random_walks", "inplace_mutator_scripts", "builtin_state_scripts_repeated", "result_with_getters_exported_the_same_way_every_time", "walks_with_several_holding_breakpoints_repeated", "walks_over_a_refused_pattern_repeated", "walks_with_a_control_used_before_and_edited_since", "props_tally_scripts_without_step_properties_repeated"}
	rec.Assume = []string{"native actions copy their input before modifying it (except the identity action, which returns it untouched), so a write into caller-owned data is the engine's", "equality of repeated results is claimed for guarded branches with at most one candidate"}
	cs := c04.Configs(true)
	states := c04.States()
	pendings := c04.Pendings()
	renders := []string{"native-nilerr", "native-partial", "native-identity", "ecma"}
	every := cfg.Pick(12, 1)
	fw.Parallel(cfg.Workers, len(cs), func(w, i int) {
		r := cfg.Rng("c06", i)
		c := cs[i]
		// lists of length <= 1 are always run; two-branch lists are sampled in the quick tier
		if nb := len(c.Describe().([]interface{})[2].([]interface{})); nb == 2 && every > 1 && r.Intn(every) != 0 {
			return
		}
		a := c.Spec()
		render := renders[r.Intn(3)]
		if r.Intn(cfg.Pick(40, 10)) == 0 {
			render = "ecma"
		}
		spec, err := renderSpec(a, render)
		if err != nil {
			return
		}
		ok := true
		for _, st := range states {
			for _, p := range pendings {
				var pend []interface{}
				if p != nil {
					pend = []interface{}{p, map[string]interface{}{"a": 1.0, "second": true}}
				}
				for _, op := range []string{"step", "walk"} {
					limit := []int{0, 1, 100}[r.Intn(3)]
					cd := &caseDesc{Spec: a, Render: render, State: st, Pending: pend, Limit: limit, Op: op}
					if !judge(rec, cd, spec, false) {
						ok = false
					}
					if limit <= 1 && op == "walk" {
						rec.Bucket("path_limit")
					}
				}
			}
		}
		if ok {
			rec.Bucket("render_" + render)
			d := c.Describe().([]interface{})
			if d[0] == "fail" {
				rec.Bucket("path_action_failed")
			}
			if d[0] != "" && (d[1] == "absent" || len(d[2].([]interface{})) == 0) {
				rec.Bucket("path_error_node")
			}
			rec.Nontrivial(fw.Canon([]interface{}{d, render}))
			if i%30000 == 9 {
				rec.Sample(map[string]interface{}{"configuration": a, "render": render})
			}
		}
	})
	// scripts that mutate their bindings (and props) in place, on bindings of varied shapes
	for _, position := range []string{"action", "guard"} {
		for settings := 0; settings < 3; settings++ {
			a := mutatorSpec(position, settings)
			spec, err := a.Compiled(false, ref.NativeNilErr)
			if err != nil {
				rec.Inconclusive("mutator spec: " + err.Error())
				continue
			}
			for si, bs := range mutatorStates {
				for _, op := range []string{"step", "walk"} {
					cd := &caseDesc{Spec: a, Render: "ecma-inplace-mutator", State: ref.AState{Node: "start", Bs: bs}, Limit: 5, Op: op}
					if judge(rec, cd, spec, false) {
						rec.Bucket("inplace_mutator_scripts")
						rec.Nontrivial(fmt.Sprintf("mutator-%s-%d-%d-%s", position, settings, si, op))
					}
				}
			}
		}
	}
	// a script that keeps state in built-in objects: repeating the call must give the same result
	for _, position := range []string{"action", "guard"} {
		a := scriptSpec(tallyJS, position, 0)
		spec, err := a.Compiled(false, ref.NativeNilErr)
		if err != nil {
			rec.Inconclusive("tally spec: " + err.Error())
			continue
		}
		for rep := 0; rep < 20; rep++ {
			for _, op := range []string{"step", "walk"} {
				cd := &caseDesc{Spec: a, Render: "ecma-builtin-tally", State: ref.AState{Node: "start", Bs: map[string]interface{}{"a": 1.0}}, Limit: 5, Op: op}
				if judge(rec, cd, spec, false) {
					rec.Bucket("builtin_state_scripts_repeated")
				}
			}
		}
	}
	// a script whose result has a getter that takes a moment: the result is exported after
	// the program has returned, and every call must export it the same way (no spurious
	// "timeout" when nobody cancelled anything)
	const getterJS = `return {n: 1, get busy() { var k = 0; for (var i = 0; i < 30000; i++) { k += i % 7; } return k; }, nested: [{get inner() { return "v"; }}]};`
	for _, position := range []string{"action", "guard"} {
		a := scriptSpec(getterJS, position, 0)
		spec, err := a.Compiled(false, ref.NativeNilErr)
		if err != nil {
			rec.Inconclusive("getter spec: " + err.Error())
			continue
		}
		var first string
		for rep := 0; rep < 60; rep++ {
			w, err := spec.Walk(context.Background(), &core.State{NodeName: "start", Bs: match.Bindings{"a": 1.0}}, nil, &core.Control{Limit: 5}, nil)
			rec.Eval(1)
			got := walkedCanon(w, err)
			if rep == 0 {
				first = got
				if strings.Contains(got, "timeout") || !strings.Contains(got, `busy`) {
					rec.Violation("C06:repeat-differs:getter", "a result with a getter is not exported although the context was never cancelled: "+fw.Short(got), "getter script as "+position)
					break
				}
				continue
			}
			if got != first {
				rec.Violation("C06:repeat-differs:getter", fmt.Sprintf("a script that returns an object with a getter gives different results for identical calls under a context that is never cancelled:\n first: %s\n later: %s", fw.Short(first), fw.Short(got)), "getter script as "+position)
				break
			}
			if rep == 59 {
				rec.Bucket("result_with_getters_exported_the_same_way_every_time")
			}
		}
	}
	// a script that keeps a tally in _.props: without step properties (nil, or an empty map)
	// every call starts from nothing, whichever machine or spec ran before
	{
		const tallyJS = `var n = (_.props.tally || 0) + 1; _.props.tally = n; _.props["seen_" + n] = true; var ks = []; for (var k in _.props) { ks.push(k); } ks.sort(); return {n: n, keys: ks.join(",")};`
		same := true
		first := ""
		for _, position := range []string{"action", "guard"} {
			a := scriptSpec(tallyJS, position, 0)
			spec, err := renderSpec(a, "ecma")
			if err != nil {
				rec.Inconclusive("tally spec: " + err.Error())
				same = false
				break
			}
			for rep := 0; rep < 12 && same; rep++ {
				var props core.StepProps
				if rep%2 == 1 {
					props = core.StepProps{}
				}
				w, err := spec.Walk(context.Background(), &core.State{NodeName: "start", Bs: match.Bindings{}}, []interface{}{map[string]interface{}{"uid": "m"}}, &core.Control{Limit: 10}, props)
				rec.Eval(1)
				got := walkedCanon(w, err)
				if first == "" && position == "action" && rep == 0 {
					first = got
				}
				if rep == 0 {
					first = got
				} else if got != first {
					rec.Violation("C06:repeat-differs:props-tally", fmt.Sprintf("a script that keeps a tally in _.props, called without step properties (nil / empty), sees what an earlier call left there:\n first: %s\n later: %s", fw.Short(first), fw.Short(got)), "tally script as "+position)
					same = false
				}
			}
		}
		if same {
			rec.Bucket("props_tally_scripts_without_step_properties_repeated")
		}
	}
	// several breakpoints that all hold: the same walk reports the same one every time
	{
		spec := &core.Spec{Name: "bp", Nodes: map[string]*core.Node{"start": {Branches: &core.Branches{Type: "message", Branches: []*core.Branch{{Pattern: map[string]interface{}{"uid": "?u"}, Target: "start"}}}}}}
		if err := spec.Compile(context.Background(), nil, true); err == nil {
			bps := map[string]core.Breakpoint{}
			for _, id := range []string{"b3", "b1", "b4", "b2", "b0"} {
				bps[id] = func(context.Context, *core.State) bool { return true }
			}
			first, same := "", true
			for rep := 0; rep < 80; rep++ {
				w, err := spec.Walk(context.Background(), &core.State{NodeName: "start", Bs: match.Bindings{}}, []interface{}{map[string]interface{}{"uid": "m"}}, &core.Control{Limit: 10, Breakpoints: bps}, nil)
				rec.Eval(1)
				if err != nil || w == nil {
					same = false
					break
				}
				got := fmt.Sprint(w.StoppedBecause, w.BreakpointId)
				if rep == 0 {
					first = got
				} else if got != first {
					rec.Violation("C06:repeat-differs:breakpoint", fmt.Sprintf("identical walks with several breakpoints that all hold report %s and then %s", first, got), "five breakpoints that all hold")
					same = false
					break
				}
			}
			if same {
				rec.Bucket("walks_with_several_holding_breakpoints_repeated")
			}
		}
	}
	// a control that is used again after the host replaced a predicate under the same id (or
	// swapped one id for another) gives what a new control with the same settings gives
	{
		chain := &core.Spec{Name: "chain", Nodes: map[string]*core.Node{
			"start": {Branches: &core.Branches{Type: "bindings", Branches: []*core.Branch{{Target: "a"}}}},
			"a":     {Branches: &core.Branches{Type: "bindings", Branches: []*core.Branch{{Target: "b"}}}},
			"b":     {Branches: &core.Branches{Type: "bindings", Branches: []*core.Branch{{Target: "c"}}}},
			"c":     {}}}
		if err := chain.Compile(context.Background(), nil, true); err == nil {
			at := func(n string) core.Breakpoint {
				return func(_ context.Context, s *core.State) bool { return s.NodeName == n }
			}
			walk := func(c *core.Control) string {
				w, err := chain.Walk(context.Background(), &core.State{NodeName: "start", Bs: match.Bindings{}}, nil, c, nil)
				rec.Eval(1)
				if err != nil || w == nil {
					return fmt.Sprint("error ", err)
				}
				return fmt.Sprintf("%d strides, %v %q", len(w.Strides), w.StoppedBecause, w.BreakpointId)
			}
			same := true
			for _, edit := range []string{"replace-predicate", "swap-id", "clear-and-refill"} {
				used := &core.Control{Limit: 10, Breakpoints: map[string]core.Breakpoint{"bp": at("b"), "other": at("nowhere")}}
				walk(used)
				var fresh *core.Control
				switch edit {
				case "replace-predicate":
					used.Breakpoints["bp"] = at("a")
					fresh = &core.Control{Limit: 10, Breakpoints: map[string]core.Breakpoint{"bp": at("a"), "other": at("nowhere")}}
				case "swap-id":
					delete(used.Breakpoints, "bp")
					used.Breakpoints["zz"] = at("c")
					fresh = &core.Control{Limit: 10, Breakpoints: map[string]core.Breakpoint{"zz": at("c"), "other": at("nowhere")}}
				default:
					used.Breakpoints = map[string]core.Breakpoint{"x": at("a"), "y": at("nowhere")}
					fresh = &core.Control{Limit: 10, Breakpoints: map[string]core.Breakpoint{"x": at("a"), "y": at("nowhere")}}
				}
				if got, want := walk(used), walk(fresh); got != want {
					rec.Violation("C06:repeat-differs:control-used-before", fmt.Sprintf("a walk with a control that an earlier walk had used (%s since) reports %s; the same walk with a new control of the same settings reports %s", edit, got, want), "chain start->a->b->c, "+edit)
					same = false
				}
			}
			if same {
				rec.Bucket("walks_with_a_control_used_before_and_edited_since")
			}
		}
	}
	// a pattern the matcher refuses (variables as property names next to other keys): the
	// refusal ends up in the error state's bindings, the same one every time
	for _, pat := range []map[string]interface{}{
		{"?a": 1.0, "?b": 2.0, "?c": 3.0, "?d": 4.0},
		{"?zz": "?v", "k": 1.0, "?aa": "?w", "?mm": 1.0},
	} {
		for _, typ := range []string{"message", "bindings"} {
			spec := &core.Spec{Name: "badpat", Nodes: map[string]*core.Node{"start": {Branches: &core.Branches{Type: typ, Branches: []*core.Branch{{Pattern: pat, Target: "start"}}}}}}
			if err := spec.Compile(context.Background(), nil, true); err != nil {
				continue
			}
			first, same := "", true
			for rep := 0; rep < 80 && same; rep++ {
				w, err := spec.Walk(context.Background(), &core.State{NodeName: "start", Bs: match.Bindings{"k": 1.0}}, []interface{}{map[string]interface{}{"k": 1.0}}, &core.Control{Limit: 10}, nil)
				rec.Eval(1)
				got := walkedCanon(w, err)
				if rep == 0 {
					first = got
				} else if got != first {
					rec.Violation("C06:repeat-differs:refused-pattern", fmt.Sprintf("identical walks over a branch whose pattern the matcher refuses end differently:\n first: %s\n later: %s", fw.Short(first), fw.Short(got)), map[string]interface{}{"pattern": pat, "branching": typ})
					same = false
				}
			}
			if same {
				rec.Bucket("walks_over_a_refused_pattern_repeated")
			}
		}
	}
	// random multi-node specs
	n := cfg.Pick(15000, 200000)
	fw.Parallel(cfg.Workers, n, func(w, i int) {
		r := cfg.Rng("c06-rand", i)
		u := &gen.Uid{Prefix: fmt.Sprintf("r%d_", i)}
		a := gen.GenSpec(r, gen.SpecOpts{MaxNodes: 4, Prog: gen.ProgOpts{Fail: true, BadRet: true, Emit: true, Loop: i%50 == 0}}, u)
		render := renders[r.Intn(3)]
		if i%20 == 0 || i%50 == 0 {
			render = "ecma"
		}
		spec, err := renderSpec(a, render)
		if err != nil {
			return
		}
		names := a.NodeNames()
		var msgs []interface{}
		for k := r.Intn(5); k > 0; k-- {
			msgs = append(msgs, gen.GenAnyMessage(r, u.Next("m"), names))
		}
		cd := &caseDesc{Spec: a, Render: render, State: ref.AState{Node: "start", Bs: gen.GenBindings(r, names)}, Pending: msgs, Limit: []int{1, 3, 50}[r.Intn(3)], Op: "walk"}
		if r.Intn(4) == 0 {
			cd.Op = "step"
		}
		if judge(rec, cd, spec, i%50 == 0) {
			rec.Bucket("random_walks")
			rec.Nontrivial(fw.Canon(cd))
			if i%7000 == 1 {
				rec.Sample(cd)
			}
		}
	})
}
