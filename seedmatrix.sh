#!/bin/bash
# Runs each seeded change in /verif/seeded against its property's check (quick) and records which signatures fired.
#   SEEDLIST=<file with one seed name per line> restricts the run (used by pmatrix.sh)
cd /verif
for d in seeded/C*/; do
  name=$(basename $d); id=${name%%-*}
  if [ -n "$SEEDLIST" ] && ! grep -qx "$name" "$SEEDLIST"; then continue; fi
  out=$(/verif/seedrun.sh /verif/$d/patch.diff $id 2>&1)
  sigs=$(echo "$out" | grep -- '--- ' | sed 's/.*sig=//' | tr '\n' ';')
  echo "$name: $(echo "$out" | grep '^==' | tr '\n' ' ') $sigs"
  python3 - "$d" "$sigs" <<'PY'
import json,sys
d,sigs=sys.argv[1],sys.argv[2]
m=json.load(open(d+'meta.json'))
m['detected_by']={'check':m['property'],'tier':'quick','signatures':[s for s in sigs.split(';') if s]}
json.dump(m,open(d+'meta.json','w'),indent=1)
PY
done
