package c13

// Patterns that are typed nils: a Go structure can say "no pattern" as a nil map or a nil
// slice (what a decoder or a zero value leaves behind); in JSON and YAML that is null.

import (
	"context"
	"encoding/json"
	"fmt"

	"github.com/Comcast/sheens/core"

	"verif/fw"
)

func typedNilPatterns(rec *fw.Rec) {
	var nilMap map[string]interface{}
	var nilList []interface{}
	var nilStrings []string
	var nilStringMap map[string]string
	kinds := []struct {
		name string
		pat  interface{}
	}{
		{"nil map", nilMap}, {"nil list", nilList}, {"nil []string", nilStrings}, {"nil map[string]string", nilStringMap},
		{"nil map below a key", map[string]interface{}{"a": nilMap}}, {"nil list below a key", map[string]interface{}{"a": nilList}},
		{"nil list in a list", []interface{}{nilList}},
	}
	for _, k := range kinds {
		for _, typ := range []string{"message", "bindings"} {
			for _, syntax := range []string{"", "none"} {
				mk := func() *core.Spec {
					return &core.Spec{Name: "typednil", PatternSyntax: syntax, Nodes: map[string]*core.Node{
						"start": {Branches: &core.Branches{Type: typ, Branches: []*core.Branch{{Pattern: k.pat, Target: "first"}, {Target: "second"}}}},
						"first": {}, "second": {}}}
				}
				goSpec := mk()
				js, err := json.Marshal(mk())
				var plain core.Spec
				if err == nil {
					err = json.Unmarshal(js, &plain)
				}
				if err != nil {
					rec.Inconclusive("typed nil patterns: rendering: " + err.Error())
					return
				}
				replay := map[string]interface{}{"pattern": k.name, "branching": typ, "patternSyntax": syntax, "json_rendering": string(js)}
				e1 := goSpec.Compile(context.Background(), nil, true)
				e2 := plain.Compile(context.Background(), nil, true)
				rec.Eval(2)
				if (e1 == nil) != (e2 == nil) {
					rec.Violation("C13:typed-nil-pattern:compile", fmt.Sprintf("a spec whose pattern is a %s: as Go structures compile error %v, as its JSON rendering %v", k.name, e1, e2), replay)
					continue
				}
				if e1 != nil {
					continue
				}
				p1, p2 := fw.Canon(goSpec.Nodes["start"].Branches.Branches[0].Pattern), fw.Canon(plain.Nodes["start"].Branches.Branches[0].Pattern)
				same := true
				if p1 != p2 {
					rec.Violation("C13:typed-nil-pattern:patterns", fmt.Sprintf("a pattern that is a %s compiles to %s as Go structures and to %s as JSON", k.name, p1, p2), replay)
					same = false
				}
				for _, msg := range []interface{}{"x", 5.0, map[string]interface{}{"a": 1.0}, map[string]interface{}{"a": map[string]interface{}{}}, []interface{}{1.0}, []interface{}{}, true} {
					for _, bs := range []map[string]interface{}{{}, {"a": 1.0}, {"a": []interface{}{}}} {
						t1, ok1 := trace(rec, replay, goSpec, bs, []interface{}{msg})
						t2, ok2 := trace(rec, replay, &plain, bs, []interface{}{msg})
						if ok1 && ok2 && t1 != t2 && same {
							rec.Violation("C13:typed-nil-pattern:behaviour", fmt.Sprintf("pattern %s, %s branching, message %s, bindings %s: as Go structures %s, as JSON %s", k.name, typ, fw.Short(msg), fw.Short(bs), fw.Short(t1), fw.Short(t2)), replay)
							same = false
						}
					}
				}
				if same {
					rec.Bucket("typed_nil_patterns_agree_with_their_rendering")
				}
			}
		}
	}
}
