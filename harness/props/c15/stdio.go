package c15

// End-to-end variant through the real Stdio coupling (sio/stdio.go,
// sio/jsonstore.go), the way sio/siostd/main.go wires a crew: input lines in,
// "emit" / "update" lines out, the state file rewritten after every message.
// After the history the state file must equal the live crew, and a second
// Stdio crew started from that file (Read + SetMachine per entry, as siostd
// does) must behave like the first on a suffix of messages.

import (
	"bytes"
	"context"
	"encoding/json"
	"fmt"
	"os"
	"path/filepath"
	"strings"
	"sync"
	"time"

	"github.com/Comcast/sheens/core"
	"github.com/Comcast/sheens/crew"
	"github.com/Comcast/sheens/sio"

	"verif/fw"
)

type lockedBuf struct {
	mu sync.Mutex
	b  bytes.Buffer
}

func (l *lockedBuf) Write(p []byte) (int, error) {
	l.mu.Lock()
	defer l.mu.Unlock()
	return l.b.Write(p)
}

func (l *lockedBuf) String() string {
	l.mu.Lock()
	defer l.mu.Unlock()
	return l.b.String()
}

// runStdio feeds the lines to a Stdio-coupled crew and returns the output, the
// live crew's canonical form and the content of the state file.
func runStdio(rec *fw.Rec, replay interface{}, dir string, tag string, stateIn string, lines []string) (out string, live string, stateFile string, ok bool) {
	stateOut := filepath.Join(dir, tag+"-state.json")
	marker := fmt.Sprintf("done-%s", tag)
	// a sentinel machine that reacts only to messages carrying a "sentinel" field and echoes it
	const sentinelSpec = `{"name":"sentinel","nodes":{"start":{"branching":{"type":"message","branches":[{"pattern":{"sentinel":"?s"},"target":"echo"}]}},"echo":{"action":{"interpreter":"ecmascript","source":"_.out({to: 'nobody', sentinelEcho: _.bindings['?s']}); return {};"},"branching":{"branches":[{"target":"start"}]}}}}`
	input := strings.Join(lines, "\n") + "\n" +
		fmt.Sprintf(`{"to":"captain","update":{"zz-sentinel":{"spec":{"inline":%s}}}}`, sentinelSpec) + "\n" +
		fmt.Sprintf(`{"to":"zz-sentinel","sentinel":"%s"}`, marker) + "\n"
	io := sio.NewStdio(false)
	io.In = strings.NewReader(input)
	buf := &lockedBuf{}
	io.Out = buf
	io.StateOutputFilename = stateOut
	io.StateInputFilename = stateIn
	io.WriteStatePerMsg = true
	ctx, cancel := context.WithCancel(context.Background())
	defer cancel()
	conf := &sio.CrewConf{Ctl: &core.Control{Limit: 50}}
	var c *sio.Crew
	var err error
	failed := ""
	if rec.Guard("C15:stdio", replay, func() {
		c, err = sio.NewCrew(ctx, conf, io)
		if err != nil {
			failed = "NewCrew: " + err.Error()
			return
		}
		if err = io.Start(ctx); err != nil {
			failed = "Start: " + err.Error()
			return
		}
		ms, err := io.Read(ctx)
		if err != nil {
			failed = "Read: " + err.Error()
			return
		}
		for mid, m := range ms {
			if err := c.SetMachine(ctx, mid, m.SpecSource, m.State); err != nil {
				failed = "boot SetMachine " + mid + ": " + err.Error()
				return
			}
		}
	}) {
		return "", "", "", false
	}
	if failed != "" {
		rec.Violation("C15:stdio:restart-fails", "a Stdio crew cannot be started from the state file: "+failed, replay)
		return "", "", "", false
	}
	loopDone := make(chan struct{})
	go func() {
		defer close(loopDone)
		c.Loop(ctx)
	}()
	// wait (bounded) until the sentinel machine has emitted its second message: every earlier
	// line has then been processed and its result handled by Stdio's output goroutine
	deadline := time.Now().Add(60 * time.Second)
	for !strings.Contains(buf.String(), `"sentinelEcho":"`+marker+`"`) {
		if time.Now().After(deadline) {
			rec.Inconclusive("Stdio crew did not reach the sentinel within 60 s")
			cancel()
			return "", "", "", false
		}
		time.Sleep(time.Millisecond)
	}
	cancel()
	stopped := make(chan struct{})
	go func() {
		<-loopDone
		io.Stop(context.Background())
		close(stopped)
	}()
	select {
	case <-stopped:
	case <-time.After(20 * time.Second):
		rec.Inconclusive("Stdio crew did not shut down within 20 s of cancellation")
		return "", "", "", false
	}
	b, rerr := os.ReadFile(stateOut)
	if rerr != nil {
		rec.Violation("C15:stdio:no-state-file", "no state file was written: "+rerr.Error(), replay)
		return "", "", "", false
	}
	return buf.String(), crewCanon(c), string(b), true
}

func mustJSON(x interface{}) string {
	js, err := json.Marshal(x)
	if err != nil {
		panic(err)
	}
	return string(js)
}

// storeCanon renders a state file like crewCanon renders a live crew.
func storeCanon(stateFile string) (string, error) {
	var ms map[string]*crew.Machine
	if err := json.Unmarshal([]byte(stateFile), &ms); err != nil {
		return "", err
	}
	m := map[string]string{}
	for mid, mach := range ms {
		if service(mid) {
			continue
		}
		m[mid] = specName(mach.SpecSource) + "@" + stateCanon(mach.State)
	}
	return fw.Canon(m), nil
}

func stripSentinel(canon string) string {
	var m map[string]string
	if json.Unmarshal([]byte(canon), &m) != nil {
		return canon
	}
	delete(m, "zz-sentinel")
	return fw.Canon(m)
}

func emitLines(out string) []string {
	var ls []string
	for _, l := range strings.Split(out, "\n") {
		if strings.HasPrefix(l, "emit ") && !strings.Contains(l, "sentinelEcho") {
			// drop the batch indices
			if i := strings.Index(l, "{"); i >= 0 {
				ls = append(ls, l[i:])
			}
		}
	}
	return ls
}

// stdioHistory: one history through the real Stdio coupling, then a restart from the state file.
func stdioHistory(cfg fw.Config, rec *fw.Rec, idx int) {
	r := cfg.Rng("c15-stdio", idx)
	var h []op
	for _, o := range genHistory(r, 100000+idx) {
		if o.Via == "direct" {
			continue // only what can be typed into siostd
		}
		h = append(h, o)
	}
	if len(h) < 3 {
		return
	}
	var lines []string
	for _, o := range h {
		lines = append(lines, mustJSON(o.message()))
	}
	dir := filepath.Join(cfg.WorkDir, fmt.Sprintf("stdio-%d", idx))
	os.MkdirAll(dir, 0755)
	defer os.RemoveAll(dir)
	replay := map[string]interface{}{"stdio_history": h}
	outA, liveA, fileA, ok := runStdio(rec, replay, dir, "A", "", lines)
	if !ok {
		return
	}
	rec.Eval(1)
	sc, err := storeCanon(fileA)
	if err != nil {
		rec.Violation("C15:stdio:state-file-unreadable", err.Error(), replay)
		return
	}
	if stripSentinel(sc) != stripSentinel(liveA) {
		rec.Violation("C15:stdio:state-file-differs-from-crew", fmt.Sprintf("after the history the state file holds %s but the live crew is %s", fw.Short(stripSentinel(sc)), fw.Short(stripSentinel(liveA))), replay)
		return
	}
	rec.Bucket("stdio_state_file_equals_crew")
	// restart at a boundary: prefix in one process, suffix in a process started from the state file
	k := 1 + r.Intn(len(lines)-1)
	outA1, _, fileA1, ok := runStdio(rec, replay, dir, "A1", "", lines[:k])
	if !ok {
		return
	}
	stateIn := filepath.Join(dir, "restart-state.json")
	os.WriteFile(stateIn, []byte(fileA1), 0644)
	outB, liveB, _, ok := runStdio(rec, replay, dir, "B", stateIn, lines[k:])
	if !ok {
		return
	}
	rec.Eval(2)
	if stripSentinel(liveB) != stripSentinel(liveA) {
		rec.Violation("C15:stdio:restarted-crew-differs", fmt.Sprintf("restart after %d of %d lines: the restarted crew ends as %s, the uninterrupted one as %s", k, len(lines), fw.Short(stripSentinel(liveB)), fw.Short(stripSentinel(liveA))), map[string]interface{}{"stdio_history": h, "restart_after": k})
		return
	}
	whole := emitLines(outA)
	parts := append(emitLines(outA1), emitLines(outB)...)
	sortStrings(whole)
	sortStrings(parts)
	if fw.Canon(whole) != fw.Canon(parts) {
		rec.Violation("C15:stdio:restarted-crew-emits-differently", fmt.Sprintf("restart after %d of %d lines: emissions %s, uninterrupted %s", k, len(lines), fw.Short(parts), fw.Short(whole)), map[string]interface{}{"stdio_history": h, "restart_after": k})
		return
	}
	rec.Bucket("stdio_restarts_compared")
	rec.Nontrivial("stdio:" + fw.Canon(h))
	if idx%40 == 3 {
		rec.Sample(map[string]interface{}{"stdio_history_lines": lines, "restart_after_line": k, "state_file_bytes": len(fileA)})
	}
}

func sortStrings(a []string) {
	for i := 1; i < len(a); i++ {
		for j := i; j > 0 && a[j] < a[j-1]; j-- {
			a[j], a[j-1] = a[j-1], a[j]
		}
	}
}

// idleStdio: one lifetime of a Stdio-coupled crew in which no message arrives: start from
// the state file, run, stop (which writes the state file).  Returns the file written.
func idleStdio(rec *fw.Rec, prefix string, replay interface{}, dir, tag, stateIn string) (stateFile string, ok bool) {
	stateOut := filepath.Join(dir, tag+"-state.json")
	io := sio.NewStdio(false)
	pr, pw, perr := os.Pipe() // an input that stays open and silent
	if perr != nil {
		rec.Inconclusive("pipe: " + perr.Error())
		return "", false
	}
	defer pr.Close()
	defer pw.Close()
	io.In = pr
	io.Out = &lockedBuf{}
	io.StateOutputFilename = stateOut
	io.StateInputFilename = stateIn
	io.WriteStatePerMsg = true
	ctx, cancel := context.WithCancel(context.Background())
	defer cancel()
	var c *sio.Crew
	failed := ""
	if rec.Guard(prefix+":stdio:idle", replay, func() {
		var err error
		c, err = sio.NewCrew(ctx, &sio.CrewConf{Ctl: &core.Control{Limit: 50}}, io)
		if err != nil {
			failed = "NewCrew: " + err.Error()
			return
		}
		if err = io.Start(ctx); err != nil {
			failed = "Start: " + err.Error()
			return
		}
		ms, err := io.Read(ctx)
		if err != nil {
			failed = "Read: " + err.Error()
			return
		}
		for mid, m := range ms {
			if err := c.SetMachine(ctx, mid, m.SpecSource, m.State); err != nil {
				failed = "boot SetMachine " + mid + ": " + err.Error()
				return
			}
		}
	}) {
		return "", false
	}
	if failed != "" {
		rec.Violation(prefix+":stdio:restart-fails", "a Stdio crew cannot be started from the state file: "+failed, replay)
		return "", false
	}
	loopDone := make(chan struct{})
	go func() {
		defer close(loopDone)
		c.Loop(ctx)
	}()
	time.Sleep(15 * time.Millisecond)
	pw.Write([]byte("quit\n")) // what the user of siostd types to end a session
	select {
	case <-io.InputEOF:
	case <-time.After(20 * time.Second):
		rec.Inconclusive("idle Stdio crew did not react to 'quit' within 20 s")
		return "", false
	}
	cancel()
	stopped := make(chan struct{})
	go func() {
		<-loopDone
		io.Stop(context.Background())
		close(stopped)
	}()
	select {
	case <-stopped:
	case <-time.After(20 * time.Second):
		rec.Inconclusive("idle Stdio crew did not shut down within 20 s of cancellation")
		return "", false
	}
	b, rerr := os.ReadFile(stateOut)
	if rerr != nil {
		// nothing written: the host keeps the file it started from
		b, rerr = os.ReadFile(stateIn)
		if rerr != nil {
			rec.Inconclusive("no state file: " + rerr.Error())
			return "", false
		}
	}
	return string(b), true
}

// PersistReload: persist - reload - persist - reload without a message in between, then
// carry on: a host may stop and start as often as it likes at a message boundary.  The
// violations are reported under the given prefix (C15 and C09 both claim this).
func PersistReload(cfg fw.Config, rec *fw.Rec, idx int, prefix string) {
	r := cfg.Rng("persist-reload", idx)
	var h []op
	for _, o := range genHistory(r, 200000+idx) {
		if o.Via == "direct" || o.Kind == "replaceSpecBad" {
			continue
		}
		h = append(h, o)
	}
	if len(h) < 4 {
		return
	}
	// every history also has a machine whose spec relies on a spec-level option
	// (actionErrorBranches), deployed and used before the restarts and used after them
	gspec := fmt.Sprintf("guarded-%d-0", idx)
	h = append([]op{{Kind: "create", Via: "captain", Mid: "gm", Spec: gspec}, {Kind: "msg", Via: "captain", Mid: "gm", Uid: "g1"}, {Kind: "msg", Via: "captain", Mid: "gm", Uid: "g2"}}, h...)
	h = append(h, op{Kind: "msg", Via: "captain", Mid: "gm", Uid: "g3"}, op{Kind: "msg", Via: "captain", Mid: "gm", Uid: "g4"}, op{Kind: "msg", Via: "captain", Mid: "gm", Uid: "g5"})
	// ... and a machine that is created, deleted and created again in just the same way
	// (three messages) before the restarts, in every second history without having moved in
	// between; it is used after them
	again := []op{{Kind: "create", Via: "captain", Mid: "again", Spec: gspec}, {Kind: "delete", Via: "captain", Mid: "again"}, {Kind: "create", Via: "captain", Mid: "again", Spec: gspec}}
	if idx%2 == 1 {
		again = append([]op{again[0], {Kind: "msg", Via: "captain", Mid: "again", Uid: "a0"}}, again[1:]...)
	}
	// ... and a machine whose spec has a null node, where it parks before the restarts
	pspec := fmt.Sprintf("parking-%d-0", idx)
	h = append([]op{{Kind: "create", Via: "captain", Mid: "pm", Spec: pspec}, {Kind: "msg", Via: "captain", Mid: "pm", Uid: "p1"}, {Kind: "msg", Via: "captain", Mid: "pm", Uid: "p2"}}, h...)
	h = append(h, op{Kind: "msg", Via: "captain", Mid: "pm", Uid: "p3"}, op{Kind: "msg", Via: "captain", Mid: "pm", Uid: "p4"})
	h = append(again, h...)
	h = append(h, op{Kind: "msg", Via: "captain", Mid: "again", Uid: "a1"}, op{Kind: "msg", Via: "captain", Mid: "again", Uid: "a2"})
	var lines []string
	for _, o := range h {
		lines = append(lines, mustJSON(o.message()))
	}
	dir := filepath.Join(cfg.WorkDir, fmt.Sprintf("persist-%s-%d", prefix, idx))
	os.MkdirAll(dir, 0755)
	defer os.RemoveAll(dir)
	replay := map[string]interface{}{"stdio_history": h, "lifetimes": "prefix | idle | idle | suffix"}
	_, liveA, _, ok := runStdio(rec, replay, dir, "A", "", lines)
	if !ok {
		return
	}
	k := 8 + r.Intn(len(lines)-14)
	_, _, file1, ok := runStdio(rec, replay, dir, "P1", "", lines[:k])
	if !ok {
		return
	}
	want, err := storeCanon(file1)
	if err != nil {
		rec.Inconclusive("state file unreadable: " + err.Error())
		return
	}
	stateIn := filepath.Join(dir, "carry.json")
	cur := file1
	for life := 2; life <= 3; life++ {
		os.WriteFile(stateIn, []byte(cur), 0644)
		next, ok := idleStdio(rec, prefix, replay, dir, fmt.Sprintf("P%d", life), stateIn)
		if !ok {
			return
		}
		rec.Eval(1)
		got, err := storeCanon(next)
		if err != nil || stripSentinel(got) != stripSentinel(want) {
			rec.Violation(prefix+":stdio:idle-lifetime-changes-the-state-file", fmt.Sprintf("lifetime %d (started from the state file, no message, stopped): the state file now holds %s, before it held %s (%v)", life, fw.Short(stripSentinel(got)), fw.Short(stripSentinel(want)), err), replay)
			return
		}
		cur = next
	}
	os.WriteFile(stateIn, []byte(cur), 0644)
	_, liveB, _, ok := runStdio(rec, replay, dir, "P4", stateIn, lines[k:])
	if !ok {
		return
	}
	rec.Eval(1)
	if stripSentinel(liveB) != stripSentinel(liveA) {
		rec.Violation(prefix+":stdio:restarted-crew-differs", fmt.Sprintf("stopped and started three times after %d of %d lines (twice without a message in between): the crew ends as %s, the uninterrupted one as %s", k, len(lines), fw.Short(stripSentinel(liveB)), fw.Short(stripSentinel(liveA))), replay)
		return
	}
	rec.Bucket("stdio_idle_lifetimes_keep_the_state")
}
