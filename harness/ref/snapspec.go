package ref

import (
	"fmt"

	"github.com/Comcast/sheens/core"

	"verif/fw"
)

// SnapSpec takes a structural snapshot of a compiled spec: every field that
// influences processing, patterns deep-copied, functions by identity.
func SnapSpec(s *core.Spec) interface{} {
	if s == nil {
		return nil
	}
	nodes := map[string]interface{}{}
	for name, n := range s.Nodes {
		if n == nil {
			nodes[name] = nil
			continue
		}
		nd := map[string]interface{}{"doc": n.Doc, "action": fmt.Sprintf("%p", n.Action)}
		if n.ActionSource != nil {
			nd["actionSource"] = fw.Canon(n.ActionSource)
			nd["actionSourcePtr"] = fmt.Sprintf("%p", n.ActionSource)
		}
		if n.Branches != nil {
			nd["type"] = n.Branches.Type
			nd["modes"] = fw.Canon(n.Branches.Modes)
			var bl []interface{}
			for _, b := range n.Branches.Branches {
				if b == nil {
					bl = append(bl, nil)
					continue
				}
				bd := map[string]interface{}{
					"ptr":     fmt.Sprintf("%p", b),
					"pattern": fw.Deep(b.Pattern),
					"target":  b.Target,
					"guard":   fmt.Sprintf("%p", b.Guard),
				}
				if b.GuardSource != nil {
					bd["guardSource"] = fw.Canon(b.GuardSource)
				}
				bl = append(bl, bd)
			}
			nd["branches"] = bl
			nd["branchesPtr"] = fmt.Sprintf("%p", n.Branches)
		}
		nd["ptr"] = fmt.Sprintf("%p", n)
		nodes[name] = nd
	}
	return map[string]interface{}{
		"name": s.Name, "version": s.Version, "id": s.Id, "doc": s.Doc,
		"errorNode": s.ErrorNode, "noAuto": s.NoAutoErrorNode, "aeb": s.ActionErrorBranches, "aen": s.ActionErrorNode,
		"patternSyntax": s.PatternSyntax, "noNew": s.NoNewMachines,
		"boot": fmt.Sprintf("%p", s.Boot), "toob": fmt.Sprintf("%p", s.Toob),
		"paramSpecs": fw.Canon(s.ParamSpecs), "uses": fw.Canon(s.Uses),
		"nodes": nodes,
	}
}
