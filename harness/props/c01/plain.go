package c01

// A Matcher of the host's own.  With the inequality feature switched off, "?<n" is a variable
// like any other - at every depth of the pattern, not only at the top.  Oracle: renaming such
// variables to plain names (in pattern and bindings) and matching with the default matcher
// must give the same sets of bindings (names mapped back).

import (
	"fmt"
	"sort"
	"strings"

	"github.com/Comcast/sheens/match"

	"verif/fw"
	"verif/gen"
	"verif/ref"
)

var ineqPrefixes = []struct{ from, to string }{{"?<=", "?LE_"}, {"?>=", "?GE_"}, {"?!=", "?NE_"}, {"?<", "?LT_"}, {"?>", "?GT_"}}

func plainName(s string) string {
	for _, p := range ineqPrefixes {
		if strings.HasPrefix(s, p.from) {
			return p.to + s[len(p.from):]
		}
	}
	return s
}

func inequalityName(s string) string {
	for _, p := range ineqPrefixes {
		if strings.HasPrefix(s, p.to) {
			return p.from + s[len(p.to):]
		}
	}
	return s
}

// renamed rewrites inequality-named variables in a pattern (keys and string values).
func renamed(x interface{}, f func(string) string) interface{} {
	switch t := x.(type) {
	case string:
		return f(t)
	case map[string]interface{}:
		m := make(map[string]interface{}, len(t))
		for k, v := range t {
			m[f(k)] = renamed(v, f)
		}
		return m
	case []interface{}:
		l := make([]interface{}, len(t))
		for i, v := range t {
			l[i] = renamed(v, f)
		}
		return l
	}
	return x
}

func hostMatcher(cfg fw.Config, rec *fw.Rec) {
	plain := &match.Matcher{AllowPropertyVariables: true, CheckForBadPropertyVariables: true, Inequalities: false}
	n := cfg.Pick(60000, 1000000)
	opts := gen.Full
	fw.Parallel(cfg.Workers, n, func(w, idx int) {
		r := cfg.Rng("c01-host-matcher", idx)
		mc := gen.GenMatchCase(r, opts, []int{0, 1, 1, 2}[idx%4])
		if !ref.Vars(mc.Pattern).Supported {
			return
		}
		uses := false
		for _, f := range mc.Features {
			if strings.HasPrefix(f, "inequality") {
				uses = true
			}
		}
		if !uses {
			return
		}
		// bound values are values, not patterns: only the names are rewritten
		in := map[string]interface{}{}
		in2 := map[string]interface{}{}
		for k, v := range mc.In {
			in[k] = fw.Deep(v)
			in2[plainName(k)] = fw.Deep(v)
		}
		var got, want []match.Bindings
		var e1, e2 error
		if rec.Guard("C01:host-matcher", mc, func() {
			got, e1 = plain.Match(fw.Deep(mc.Pattern), fw.Deep(mc.Message), match.Bindings(in))
			want, e2 = match.Match(renamed(fw.Deep(mc.Pattern), plainName), fw.Deep(mc.Message), match.Bindings(in2))
		}) {
			return
		}
		rec.Eval(1)
		if (e1 == nil) != (e2 == nil) {
			rec.Violation("C01:host-matcher:error-differs", fmt.Sprintf("a Matcher without the inequality feature: error %v; the default matcher on the same case with those variables renamed: %v", e1, e2), mc)
			return
		}
		canon := func(bss []match.Bindings, back bool) string {
			var l []string
			for _, bs := range bss {
				m := map[string]interface{}{}
				for k, v := range bs {
					if back {
						k = inequalityName(k)
					}
					m[k] = v
				}
				l = append(l, fw.Canon(m))
			}
			sort.Strings(l)
			return fw.Canon(l)
		}
		if g, w := canon(got, false), canon(want, true); g != w {
			rec.Violation("C01:host-matcher:results-differ", fmt.Sprintf("a Matcher with Inequalities off returns %s; with the inequality-named variables renamed to plain names the default matcher returns %s (names mapped back)", fw.Short(g), fw.Short(w)), map[string]interface{}{"case": mc})
			return
		}
		rec.Bucket("host_matcher_without_inequalities_agrees_with_renaming")
		if len(got) > 0 {
			rec.Bucket("host_matcher_without_inequalities_matched")
		}
	})
}
