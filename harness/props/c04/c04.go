// Package c04: a step follows the documented transition rule.  An executable
// reference step (ref.Step) is compared with core.Spec.Step on an enumerated
// space of single-node configurations (Step looks only at the current node and
// the spec-level error settings) and on strides of random multi-node specs,
// for native and ECMAScript renderings of one action language.
package c04

import (
	"context"
	"fmt"
	"time"

	"github.com/Comcast/sheens/core"
	"github.com/Comcast/sheens/match"

	"verif/fw"
	"verif/gen"
	"verif/ref"
)

type shape struct {
	pat    string // "", or JSON text
	guard  string // none accept reject acceptif set fail
	target string
}

func mkGuard(kind, marker string) *ref.Prog {
	switch kind {
	case "accept":
		return &ref.Prog{Ret: "same"}
	case "reject":
		return &ref.Prog{Ret: "null"}
	case "acceptif":
		return &ref.Prog{Ret: "cond", CondKey: "a"}
	case "set":
		return &ref.Prog{Ops: []ref.Op{{Op: "set", K: "b", V: 1.0}, {Op: "del", K: "cfg!"}}, Ret: "same"}
	case "fail":
		return &ref.Prog{Ops: []ref.Op{{Op: "fail", V: marker}}, Ret: "same"}
	}
	return nil
}

func mkAction(kind string) *ref.Prog {
	switch kind {
	case "set":
		return &ref.Prog{Ops: []ref.Op{{Op: "set", K: "a", V: 2.0}}, Ret: "same"}
	case "delemit":
		return &ref.Prog{Ops: []ref.Op{{Op: "del", K: "a"}, {Op: "emit", V: map[string]interface{}{"id": "e1"}}}, Ret: "same"}
	case "fail":
		return &ref.Prog{Ops: []ref.Op{{Op: "emit", V: map[string]interface{}{"id": "e-before-fail"}}, {Op: "fail", V: "ACTFAIL"}}, Ret: "same"}
	case "null":
		return &ref.Prog{Ops: []ref.Op{{Op: "emit", V: map[string]interface{}{"id": "e2"}}}, Ret: "null"}
	case "loop":
		return &ref.Prog{Ops: []ref.Op{{Op: "emit", V: map[string]interface{}{"id": "e-before-loop"}}, {Op: "loop"}}, Ret: "same"}
	case "target":
		return &ref.Prog{Ops: []ref.Op{{Op: "set", K: "t", V: "n2"}, {Op: "emit", V: map[string]interface{}{"id": "e3"}}}, Ret: "same"}
	}
	return nil
}

// Config is one enumerated single-node configuration.
type Config = config

type config struct {
	action    string
	branching string // absent message bindings
	branches  []shape
	settings  int
}

// Spec builds the abstract spec of a configuration.
func (c config) Spec() *ref.ASpec { return c.spec() }

// Describe returns a compact description.
func (c config) Describe() interface{} {
	bl := []interface{}{}
	for _, b := range c.branches {
		bl = append(bl, []string{b.pat, b.guard, b.target})
	}
	return []interface{}{c.action, c.branching, bl, c.settings}
}

func (c config) spec() *ref.ASpec {
	a := &ref.ASpec{Name: "c04", Nodes: map[string]*ref.ANode{"n2": {}, "aerr": {}}}
	switch c.settings {
	case 1:
		a.ActionErrorBranches = true
	case 2:
		a.ActionErrorNode = "aerr"
	case 3:
		a.NoAutoErrorNode = true
	}
	n := &ref.ANode{Action: mkAction(c.action)}
	if c.branching != "absent" {
		n.Branching = &ref.ABranching{Type: c.branching}
		for i, s := range c.branches {
			b := &ref.ABranch{Target: s.target}
			if s.pat != "" {
				b.HasPattern = true
				b.Pattern = fw.FromJSON(s.pat)
			}
			b.Guard = mkGuard(s.guard, fmt.Sprintf("GFAIL%d", i))
			n.Branching.Branches = append(n.Branching.Branches, b)
		}
	}
	a.Nodes["start"] = n
	return a
}

var states = []ref.AState{
	{Node: "nowhere", Bs: map[string]interface{}{}},
	{Node: "start", Bs: map[string]interface{}{}},
	{Node: "start", Bs: map[string]interface{}{"a": 1.0}},
	{Node: "start", Bs: map[string]interface{}{"t": "n2", "a": 2.0}},
	{Node: "start", Bs: map[string]interface{}{"a": 1.0, "cfg!": "keep"}},
}

var pendings = []interface{}{
	nil,
	map[string]interface{}{"a": 1.0},
	map[string]interface{}{"a": 2.0, "t": "n2"},
	"str",
	map[string]interface{}{"b": 1.0},
}

func shapes(full bool) []shape {
	pats := []string{"", `{"a":"?x"}`, `{"a":1}`, `"?m"`}
	guards := []string{"none", "reject", "acceptif", "fail"}
	targets := []string{"n2", "@t"}
	if full {
		pats = append(pats, `{"t":"?t"}`, `{"a":["?x","?y"]}`)
		guards = append(guards, "accept", "set")
		targets = append(targets, "missing")
	}
	var out []shape
	for _, p := range pats {
		for _, g := range guards {
			for _, t := range targets {
				out = append(out, shape{p, g, t})
			}
		}
	}
	return out
}

// Configs enumerates node configurations; lists of length 0..2.
func Configs(full bool) []Config { return configs(full) }

// States and Pendings of the enumerated space.
func States() []ref.AState    { return states }
func Pendings() []interface{} { return pendings }

func configs(full bool) []config {
	sh := shapes(full)
	actions := []string{"", "set", "delemit", "fail", "null"}
	if full {
		actions = append(actions, "target")
	}
	var lists [][]shape
	lists = append(lists, nil)
	for _, s := range sh {
		lists = append(lists, []shape{s})
	}
	for _, s := range sh {
		for _, t := range sh {
			lists = append(lists, []shape{s, t})
		}
	}
	var out []config
	for _, a := range actions {
		for st := 0; st < 4; st++ {
			out = append(out, config{action: a, branching: "absent", settings: st})
			for _, bt := range []string{"message", "bindings"} {
				for _, l := range lists {
					out = append(out, config{action: a, branching: bt, branches: l, settings: st})
				}
			}
		}
	}
	return out
}

func toCoreState(s ref.AState) *core.State {
	var bs match.Bindings
	if s.Bs != nil {
		bs = match.Bindings(fw.Deep(s.Bs).(map[string]interface{}))
	}
	return &core.State{NodeName: s.Node, Bs: bs}
}

// checkStep runs one step and compares it with the reference.
func checkStep(rec *fw.Rec, tag string, a *ref.ASpec, cs *core.Spec, env ref.Env, markers map[string]bool, st ref.AState, pending interface{}, ctl *core.Control) (ok bool, stride *core.Stride) {
	return checkStepCtx(rec, tag, a, cs, env, markers, st, pending, ctl, "")
}

// checkStepCtx: ctxMode "" = no deadline (150 ms if the environment has one), "deadline" = 40 ms,
// "cancelled" = a context that has ended before the call.
func checkStepCtx(rec *fw.Rec, tag string, a *ref.ASpec, cs *core.Spec, env ref.Env, markers map[string]bool, st ref.AState, pending interface{}, ctl *core.Control, ctxMode string) (ok bool, stride *core.Stride) {
	replay := map[string]interface{}{"spec": a, "native": env.Native, "state": st, "pending": pending}
	if ctxMode != "" {
		replay["context"] = ctxMode
	}
	var err error
	ctx := context.Background()
	var cancel context.CancelFunc
	switch {
	case ctxMode == "cancelled":
		ctx, cancel = context.WithCancel(ctx)
		cancel()
	case ctxMode == "deadline":
		ctx, cancel = context.WithTimeout(ctx, 40*time.Millisecond)
		defer cancel()
	case env.HaveDeadline:
		ctx, cancel = context.WithTimeout(ctx, 150*time.Millisecond)
		defer cancel()
	}
	if rec.Guard("C04:"+tag, replay, func() {
		stride, err = cs.Step(ctx, toCoreState(st), fw.Deep(pending), ctl, nil)
	}) {
		return false, nil
	}
	rec.Eval(1)
	obs := ref.Observe(stride, err)
	if obs.To != nil {
		if s, ok := obs.To.Bs["actionError"].(string); ok {
			env.ErrText = s
		}
	}
	outs := ref.Step(a, st, pending, env)
	if why := ref.Accept(outs, obs, st, markers); why != "" {
		cls := outs[0].Note
		rec.Violation("C04:"+tag+":"+cls, "step disagrees with the documented rule: "+why,
			map[string]interface{}{"case": replay, "observed": obs, "acceptable": outs})
		return false, stride
	}
	rec.Bucket("clause_" + outs[0].Note)
	return true, stride
}

func runConfigs(cfg fw.Config, rec *fw.Rec, full, native bool, sampleEvery int, tag string) {
	cs := configs(full)
	rec.SetExtra("configs_"+tag, len(cs))
	fw.Parallel(cfg.Workers, len(cs), func(w, i int) {
		if sampleEvery > 1 {
			r := cfg.Rng("c04-sample-"+tag, i)
			if r.Intn(sampleEvery) != 0 {
				return
			}
		}
		c := cs[i]
		a := c.spec()
		spec, err := a.Compiled(native, ref.NativeNilErr)
		if err != nil {
			rec.Violation("C04:compile", "enumerated configuration does not compile: "+err.Error(), a)
			return
		}
		env := ref.Env{Native: native}
		markers := ref.SpecMarkers(a)
		allOK := true
		for _, st := range states {
			for _, p := range pendings {
				ok, _ := checkStep(rec, tag, a, spec, env, markers, st, p, nil)
				allOK = allOK && ok
			}
		}
		if allOK {
			rec.Nontrivial(fw.Canon([]interface{}{tag, c.action, c.branching, c.branches, c.settings}))
			rec.Bucket("configs_checked_" + tag)
			if i%50000 == 17 {
				rec.Sample(map[string]interface{}{"configuration": a, "native": native, "states": len(states), "pendings": len(pendings)})
			}
		}
	})
}

// endedContexts: an action that fails because its time is up - the documented action timeout -
// or that fails on its own after the caller's context has ended is a failed action like any
// other: routed by the spec's error settings.
func endedContexts(cfg fw.Config, rec *fw.Rec) {
	sh := shapes(false)
	var lists [][]shape
	lists = append(lists, nil)
	for _, s := range sh {
		lists = append(lists, []shape{s})
	}
	type job struct {
		c       config
		native  bool
		ctxMode string
	}
	var jobs []job
	for _, act := range []string{"loop", "fail"} {
		for st := 0; st < 4; st++ {
			var cs []config
			cs = append(cs, config{action: act, branching: "absent", settings: st})
			for _, bt := range []string{"message", "bindings"} {
				for _, l := range lists {
					cs = append(cs, config{action: act, branching: bt, branches: l, settings: st})
				}
			}
			for _, c := range cs {
				if act == "loop" {
					jobs = append(jobs, job{c, true, "deadline"}, job{c, true, "cancelled"})
					// interpreted: once the action has used up the time, a guard of an error
					// branch runs under the ended context too and is itself interrupted (or
					// not) - only branch lists without guards have one outcome
					guarded := false
					for _, b := range c.branches {
						if b.guard != "none" {
							guarded = true
						}
					}
					if !guarded {
						jobs = append(jobs, job{c, false, "deadline"})
					}
				} else {
					jobs = append(jobs, job{c, true, "cancelled"})
				}
			}
		}
	}
	rec.SetExtra("configs_ended-contexts", len(jobs))
	fw.Parallel(cfg.Workers, len(jobs), func(w, i int) {
		j := jobs[i]
		a := j.c.spec()
		spec, err := a.Compiled(j.native, ref.NativeNilErr)
		if err != nil {
			rec.Violation("C04:compile", "enumerated configuration does not compile: "+err.Error(), a)
			return
		}
		env := ref.Env{Native: j.native, HaveDeadline: true}
		markers := ref.SpecMarkers(a)
		allOK := true
		for si, st := range states {
			for pi, p := range pendings[:2] {
				if !j.native && (si+pi)%2 == 1 {
					continue
				}
				ok, _ := checkStepCtx(rec, "ended-context", a, spec, env, markers, st, p, nil, j.ctxMode)
				allOK = allOK && ok
			}
		}
		if allOK {
			rec.Nontrivial(fw.Canon([]interface{}{"ended-context", j.ctxMode, j.native, j.c.action, j.c.branching, j.c.branches, j.c.settings}))
			rec.Bucket("configs_checked_ended-context_" + j.ctxMode)
			rec.Bucket(fmt.Sprintf("ended-context_settings_%d", j.c.settings))
		}
	})
}

// multiCandidates: a guarded branch whose pattern matches in several ways - the guard is
// offered the candidates and the first it accepts decides ("try each set of bindings").
func multiCandidates(rec *fw.Rec) {
	accept := func(v interface{}) *ref.Prog {
		return &ref.Prog{Ops: []ref.Op{{Op: "ifeq", K: "?e", V: v, Then: []ref.Op{{Op: "set", K: "ok", V: true}}}}, Ret: "cond", CondKey: "ok"}
	}
	for _, native := range []bool{true, false} {
		for _, want := range []interface{}{"q", "p", 2.0, "absent"} {
			a := &ref.ASpec{Name: "multi", Nodes: map[string]*ref.ANode{
				"start": {Branching: &ref.ABranching{Type: "message", Branches: []*ref.ABranch{
					{HasPattern: true, Pattern: map[string]interface{}{"l": []interface{}{"?e"}}, Guard: accept(want), Target: "chosen"},
					{Target: "fallback"}}}},
				"viaBindings": {Action: &ref.Prog{Ops: []ref.Op{{Op: "del", K: "ok"}}, Ret: "same"}, Branching: &ref.ABranching{Type: "bindings", Branches: []*ref.ABranch{
					{HasPattern: true, Pattern: map[string]interface{}{"log": []interface{}{"?e"}}, Guard: accept(want), Target: "chosen"},
					{HasPattern: true, Pattern: map[string]interface{}{"?k": "?e"}, Guard: accept(want), Target: "chosenByProperty"},
					{Target: "fallback"}}}},
				"chosen": {}, "chosenByProperty": {}, "fallback": {},
			}}
			spec, err := a.Compiled(native, ref.NativeNilErr)
			if err != nil {
				rec.Inconclusive("multi-candidate spec: " + err.Error())
				return
			}
			env := ref.Env{Native: native}
			markers := ref.SpecMarkers(a)
			for _, l := range [][]interface{}{{"p", "q"}, {"q", "p", "r"}, {1.0, 2.0, 3.0, "q"}, {"p"}, {}} {
				if ok, _ := checkStep(rec, "multi", a, spec, env, markers, ref.AState{Node: "start", Bs: map[string]interface{}{}}, map[string]interface{}{"l": l, "uid": "m"}, nil); !ok {
					return
				}
				if ok, _ := checkStep(rec, "multi", a, spec, env, markers, ref.AState{Node: "viaBindings", Bs: map[string]interface{}{"log": l, "x": "q", "y": 2.0}}, nil, nil); !ok {
					return
				}
			}
		}
	}
}

// unforcedCompile: specs compiled without force (Compile(ctx, interpreters, false)): what
// has no compiled form yet must get one.  A node whose action is native (already an Action)
// and whose guards are given as source is the interesting case: the guards decide.
func unforcedCompile(rec *fw.Rec) {
	for gi, guard := range []*ref.Prog{{Ret: "null"}, {Ops: []ref.Op{{Op: "set", K: "g", V: "ran"}}, Ret: "same"}, {Ops: []ref.Op{{Op: "fail", V: "G-FAILS"}}, Ret: "same"}, {Ret: "cond", CondKey: "a"}} {
		for _, withAction := range []bool{true, false} {
			a := &ref.ASpec{Name: "unforced", Nodes: map[string]*ref.ANode{
				"start":      {Branching: &ref.ABranching{Type: "bindings", Branches: []*ref.ABranch{{Guard: guard, Target: "guarded"}, {Target: "fallback"}}}},
				"viaMessage": {Branching: &ref.ABranching{Type: "message", Branches: []*ref.ABranch{{HasPattern: true, Pattern: map[string]interface{}{"uid": "?u"}, Guard: guard, Target: "guarded"}, {Target: "fallback"}}}},
				"guarded":    {}, "fallback": {},
			}}
			if withAction {
				a.Nodes["start"].Action = &ref.Prog{Ops: []ref.Op{{Op: "set", K: "a", V: 1.0}}, Ret: "same"}
			}
			spec := a.Core(false, ref.NativeNilErr)
			if withAction {
				spec.Nodes["start"].Action = a.Core(true, ref.NativeNilErr).Nodes["start"].Action
				spec.Nodes["start"].ActionSource = nil
			}
			if err := spec.Compile(context.Background(), nil, false); err != nil {
				rec.Violation("C04:unforced-compile-error", "a valid spec does not compile without force: "+err.Error(), a)
				return
			}
			markers := ref.SpecMarkers(a)
			for _, bs := range []map[string]interface{}{{}, {"a": 2.0}, {"x": "y"}} {
				if ok, _ := checkStep(rec, "unforced", a, spec, ref.Env{}, markers, ref.AState{Node: "start", Bs: bs}, nil, nil); !ok {
					return
				}
				if ok, _ := checkStep(rec, "unforced", a, spec, ref.Env{}, markers, ref.AState{Node: "viaMessage", Bs: bs}, map[string]interface{}{"uid": "m"}, nil); !ok {
					return
				}
			}
			_ = gi
		}
	}
	rec.Bucket("specs_compiled_without_force_checked")
}

// randomSpecs walks random multi-node specs and checks every stride.
func randomSpecs(cfg fw.Config, rec *fw.Rec, n int) {
	fw.Parallel(cfg.Workers, n, func(w, i int) {
		r := cfg.Rng("c04-rand", i)
		u := &gen.Uid{Prefix: fmt.Sprintf("s%d_", i)}
		// every third spec may guard a branch whose pattern can match in several ways: the
		// guard then chooses among the candidates (any order; all outcomes are acceptable)
		a := gen.GenSpec(r, gen.SpecOpts{MaxNodes: 3, ActionWithMessageBranching: true, GuardMulti: i%3 == 0, Prog: gen.ProgOpts{Fail: true, BadRet: true, Emit: true}}, u)
		native := i%2 == 0
		spec, err := a.Compiled(native, ref.NativeNilErr)
		if err != nil {
			rec.Bucket("random_spec_compile_error")
			return
		}
		env := ref.Env{Native: native}
		markers := ref.SpecMarkers(a)
		names := a.NodeNames()
		st := ref.AState{Node: "start", Bs: gen.GenBindings(r, names)}
		ok := true
		steps := 0
		for m := 0; m < 4 && ok; m++ {
			var pending interface{} = gen.GenAnyMessage(r, u.Next("m"), names)
			for k := 0; k < 6 && ok; k++ {
				var stride *core.Stride
				ok, stride = checkStep(rec, "random", a, spec, env, markers, st, pending, nil)
				steps++
				if !ok || stride == nil {
					break
				}
				if stride.Consumed != nil {
					pending = nil
				}
				if stride.To == nil {
					break
				}
				st = *ref.ToAState(stride.To)
			}
		}
		if ok && steps > 1 {
			rec.Nontrivial(fw.Canon(a))
			rec.Bucket("random_specs_walked")
			if i%5000 == 1 {
				rec.Sample(map[string]interface{}{"random_spec": a, "native": native, "steps": steps})
			}
		}
	})
}

func Run(cfg fw.Config, rec *fw.Rec) {
	rec.Rule = "enumerated single-node configurations (action x branching type x branch lists of length 0-2 over a pattern/guard/target vocabulary x 4 error settings) x 5 states x 5 pending values, each compiled with native and with ECMAScript actions, Spec.Step compared with an executable reference of the documented rule; plus the same for actions that run into a 40 ms deadline (ECMAScript `while(true){}`, native waiting for the context) or fail under a context that ended before the call, under all 4 error settings and every branch list of length 0-1; plus every stride of random 3-node specs; non-trivial = configuration (or random spec) on which every compared step agreed; distinct by configuration"
	rec.Required = []string{"configs_checked_reduced-native", "configs_checked_reduced-ecma", "random_specs_walked", "clause_branch taken", "clause_guarded branch taken", "clause_guard chose among several candidates", "specs_compiled_without_force_checked", "clause_no branch applies", "clause_action failed; error returned", "clause_action failed; action error node", "clause_unknown node", "clause_message branching without a pending message", "configs_checked_ended-context_deadline", "configs_checked_ended-context_cancelled", "ended-context_settings_1", "ended-context_settings_2"}
	rec.Assume = []string{"the reference transcribes README 'Processing', doc/by-example.md and the doc comments of core/step.go, core/spec.go; where code alone defines behaviour (error + error-node state together, exact lastBindings content) the comparison is loose", "Spec.Step inspects only the current node and spec-level settings, so single-node configurations cover specs of any size for one step"}
	// reduced vocabulary: complete enumeration, native; ECMAScript complete in thorough, 1/8 sample in quick
	runConfigs(cfg, rec, false, true, 1, "reduced-native")
	runConfigs(cfg, rec, false, false, cfg.Pick(8, 1), "reduced-ecma")
	// full vocabulary: native complete in thorough (1/10 in quick); ECMAScript sampled
	runConfigs(cfg, rec, true, true, cfg.Pick(10, 1), "full-native")
	runConfigs(cfg, rec, true, false, cfg.Pick(400, 40), "full-ecma")
	endedContexts(cfg, rec)
	multiCandidates(rec)
	unforcedCompile(rec)
	randomSpecs(cfg, rec, cfg.Pick(20000, 300000))
	rec.SetExtra("exhaustive_subspace", "reduced vocabulary (4 patterns x 4 guards x 2 targets, lists <= 2, 5 actions, 4 settings, 5 states, 5 pendings) enumerated completely with native actions in both tiers and with ECMAScript actions in the thorough tier")
}
