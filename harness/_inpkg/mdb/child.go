//go:build verif

package main

// In-package monitors for cmd/mdb (package main), injected with `go test -overlay`.

import (
	"fmt"
	"io"
	"log"
	"os"
	"testing"

	"verif/fw"
)

var verifRegistry = map[string]func(fw.Config, *fw.Rec){}

func TestVerifChild(t *testing.T) {
	cfg, err := fw.ChildConfig()
	if err != nil {
		t.Skip("not started by the verification driver: " + err.Error())
	}
	run, ok := verifRegistry[cfg.Prop+"/"+cfg.Part]
	if !ok {
		fmt.Fprintln(os.Stderr, "no in-package workload for", cfg.Prop, cfg.Part)
		os.Exit(2)
	}
	log.SetOutput(io.Discard)
	if err := fw.ChildRun(cfg, run); err != nil {
		fmt.Fprintln(os.Stderr, err)
		os.Exit(2)
	}
}
