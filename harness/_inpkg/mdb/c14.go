//go:build verif

package main

// C14 (mdb): the debugger host.  Host.Process presents a message to the
// machines it is addressed to (a machine id, or every machine); emissions are
// queued by the debugger's loop and fed back one at a time ("pop").  The
// harness plays that loop: it queues what Host.Process reports and processes
// the queue until it is empty; every machine's log must equal the routing
// model's multiset, and every emission must be reported exactly once.

import (
	"context"
	"fmt"
	"math/rand"
	"os"
	"path/filepath"
	"sort"

	"github.com/Comcast/sheens/core"
	"github.com/Comcast/sheens/crew"
	"github.com/Comcast/sheens/match"

	"verif/fw"
	"verif/props/c14"
)

type mdbGen struct {
	r    *rand.Rand
	mids []string
	n    int
}

func (g *mdbGen) uid() string { g.n++; return fmt.Sprintf("u%d", g.n) }

func (g *mdbGen) message(depth int) map[string]interface{} {
	r := g.r
	m := map[string]interface{}{"uid": g.uid()}
	switch r.Intn(6) {
	case 0, 1:
	case 2, 3, 4:
		if len(g.mids) > 0 && r.Intn(5) > 0 {
			m["to"] = g.mids[r.Intn(len(g.mids))]
		} else {
			m["to"] = "ghost"
		}
	default:
		m["to"] = []string{"timers", "captain", "ws"}[r.Intn(3)] // no services in this host: just unknown ids
	}
	if depth > 0 && r.Intn(2) == 0 {
		var em []interface{}
		for k := 1 + r.Intn(2); k > 0; k-- {
			em = append(em, g.message(depth-1))
		}
		m["emit"] = em
	}
	return m
}

func mdbHistory(cfg fw.Config, rec *fw.Rec, idx int) {
	r := cfg.Rng("c14-mdb", idx)
	dir := filepath.Join(cfg.WorkDir, fmt.Sprintf("mdb-%d", idx))
	os.MkdirAll(dir, 0755)
	defer os.RemoveAll(dir)
	os.WriteFile(filepath.Join(dir, "recorder.yaml"), []byte(c14.RecorderSpec), 0644)
	h, err := NewHost(dir, "")
	if err != nil {
		rec.Inconclusive("host: " + err.Error())
		return
	}
	ctx := context.Background()
	idPool := []string{"m1", "m2", "m3", "timers", "all"}
	nm := r.Intn(4)
	machines := map[string]bool{}
	var mids []string
	for len(mids) < nm {
		id := idPool[r.Intn(len(idPool))]
		if machines[id] {
			continue
		}
		src := &crew.SpecSource{Name: "recorder.yaml"}
		spec, err := h.GetSpec(ctx, src)
		if err != nil {
			rec.Inconclusive("GetSpec: " + err.Error())
			return
		}
		h.crew.Machines[id] = &crew.Machine{Id: id, State: &core.State{NodeName: "start", Bs: match.NewBindings()}, Specter: spec, SpecSource: src}
		machines[id] = true
		mids = append(mids, id)
	}
	sort.Strings(mids)
	g := &mdbGen{r: r, mids: mids}
	expectLog := map[string][]string{}
	var history []interface{}
	for k := 1 + r.Intn(4); k > 0; k-- {
		msg := g.message(2)
		history = append(history, msg)
		replay := map[string]interface{}{"machines": mids, "history": history}
		queue := []interface{}{msg}
		for len(queue) > 0 {
			x := queue[0]
			queue = queue[1:]
			// model
			var recips []string
			xm, _ := x.(map[string]interface{})
			if to, has := xm["to"]; has {
				if s, ok := to.(string); ok {
					if machines[s] {
						recips = []string{s}
					}
				} else {
					recips = mids
				}
			} else {
				recips = mids
			}
			want := map[string]int{}
			for _, rc := range recips {
				expectLog[rc] = append(expectLog[rc], fmt.Sprint(xm["uid"]))
				if em, ok := xm["emit"].([]interface{}); ok {
					for _, e := range em {
						c := fw.Plain(e)
						if cm, ok := c.(map[string]interface{}); ok {
							cm["from"] = rc
						}
						want[fw.Canon(c)]++
					}
				}
			}
			var ws map[string]*core.Walked
			var perr error
			if rec.Guard("C14:mdb", replay, func() { ws, perr = h.Process(ctx, fw.Deep(x), nil) }) {
				return
			}
			rec.Eval(1)
			if perr != nil {
				rec.Violation("C14:mdb:process-error", perr.Error(), replay)
				return
			}
			got := map[string]int{}
			for mid, w := range ws {
				if !machines[mid] {
					rec.Violation("C14:mdb:unknown-machine-walked", "a walk is reported for "+mid, replay)
					return
				}
				for _, s := range w.Strides {
					for _, e := range s.Emitted {
						got[fw.Canon(e)]++
						queue = append(queue, fw.Plain(e))
					}
				}
			}
			if fw.Canon(got) != fw.Canon(want) {
				rec.Violation("C14:mdb:emissions-differ", fmt.Sprintf("processing %v reported emissions %v, the model expects %v", xm["uid"], got, want), replay)
				return
			}
		}
		for _, mid := range mids {
			got := []string{}
			l, _ := fw.Plain(h.crew.Machines[mid].State.Bs["log"]).([]interface{})
			for _, v := range l {
				got = append(got, fmt.Sprint(v))
			}
			want := append([]string{}, expectLog[mid]...)
			sort.Strings(got)
			sort.Strings(want)
			if fw.Canon(got) != fw.Canon(want) {
				rec.Violation("C14:mdb:log-differs", fmt.Sprintf("machine %q has seen %v, the routing rule says %v", mid, got, want), replay)
				return
			}
		}
	}
	rec.Bucket("mdb_histories_checked")
	total := 0
	for _, l := range expectLog {
		total += len(l)
	}
	if total >= 2 {
		rec.Nontrivial(fw.Canon([]interface{}{mids, history}))
		if idx%200 == 1 {
			rec.Sample(map[string]interface{}{"mdb_machines": mids, "history": history})
		}
	}
}

func init() {
	verifRegistry["C14/mdb"] = func(cfg fw.Config, rec *fw.Rec) {
		rec.Rule = "mdb Host, in-package: crews of 0-3 recorder machines x histories of 1-4 messages with scripted follow-ups (targets: absent, a machine id, unknown ids); the harness plays the debugger's queue-and-pop loop on what Host.Process reports; per processed message the reported emissions must equal the model's multiset, and every machine's log must equal the routing model's"
		rec.Required = []string{"mdb_histories_checked"}
		n := cfg.Pick(400, 6000)
		fw.Parallel(8, n, func(w, i int) { mdbHistory(cfg, rec, i) })
	}
}
