//go:build verif

package main

// C14 (mcrew): routing.  Recorder machines log every message they are
// presented with and emit what the message's "emit" field scripts; mcrew
// re-injects emissions asynchronously, so after quiescence (no Service.Process
// frame in the goroutine profile, no pending timer) the multiset of messages
// each machine has seen, and the multisets reported on the Emitted and
// Processing channels, must equal those of the routing model.

import (
	"bytes"
	"context"
	"fmt"
	"math/rand"
	"os"
	"path/filepath"
	"runtime/pprof"
	"sort"
	"strings"
	"time"

	"github.com/Comcast/sheens/match"

	"verif/fw"
	"verif/props/c14"
)

type c14gen struct {
	r       *rand.Rand
	mids    []string
	n       int
	brittle bool // the crew has a machine whose every step fails at the store
}

// c14BrittleSpec: a machine that ends every step with a state the store cannot
// serialise (NaN), so every request that reaches it fails with a write error.
const c14BrittleSpec = `{"name":"brittle","nodes":{
 "start":{"branching":{"type":"message","branches":[{"pattern":"?m","target":"rec"}]}},
 "rec":{"action":{"interpreter":"ecmascript","source":"var bs = _.bindings; delete bs['?m']; bs.bad = 0/0; return bs;"},
        "branching":{"branches":[{"target":"start"}]}}}}`

func (g *c14gen) uid() string { g.n++; return fmt.Sprintf("u%d", g.n) }

func (g *c14gen) message(depth int) map[string]interface{} {
	r := g.r
	m := map[string]interface{}{"uid": g.uid()}
	pick := func() string {
		if len(g.mids) == 0 || r.Intn(5) == 0 {
			return "ghost"
		}
		return g.mids[r.Intn(len(g.mids))]
	}
	c := r.Intn(10)
	if g.brittle {
		// no untargeted messages (they would reach the brittle machine and fail as a whole);
		// instead some are addressed to it: those requests fail, their siblings must not care
		if c <= 1 {
			c = 2
			if r.Intn(2) == 0 {
				m["to"] = "brittle"
				c = -1
			}
		}
	}
	switch c {
	case -1:
	case 0, 1:
		// no target: every machine
	case 2, 3, 4, 5:
		m["to"] = pick()
	case 6:
		m["to"] = "timers" // not a timer request: the timer service reports an error; no machine sees it
	case 7:
		m["to"] = "ws"
	case 8:
		m["to"] = "http" // no 'request': fails locally
	default:
		m["to"] = pick()
	}
	if depth > 0 && r.Intn(2) == 0 {
		var em []interface{}
		for k := 1 + r.Intn(2); k > 0; k-- {
			em = append(em, g.message(depth-1))
		}
		m["emit"] = em
	}
	return m
}

func processFramesPresent() bool {
	var buf bytes.Buffer
	pprof.Lookup("goroutine").WriteTo(&buf, 2)
	for _, g := range strings.Split(buf.String(), "\n\n") {
		if strings.Contains(g, "(*Service).Process") {
			return true
		}
		// a timer goroutine that is past its timer channel (about to emit, or emitting) also
		// counts as work in progress; one that still waits is in a select
		if strings.Contains(g, "main.(*Timers).Add.func") {
			first := g
			if i := strings.Index(g, "\n"); i > 0 {
				first = g[:i]
			}
			if !strings.Contains(first, "[select") {
				return true
			}
		}
	}
	return false
}

func c14Recipients(msg interface{}, machines map[string]bool) (recips []string, service string, judged bool) {
	m, ok := msg.(map[string]interface{})
	all := func() []string {
		var out []string
		for id := range machines {
			out = append(out, id)
		}
		sort.Strings(out)
		return out
	}
	if !ok {
		return all(), "", true
	}
	to, has := m["to"]
	if !has {
		return all(), "", true
	}
	s, isStr := to.(string)
	if !isStr {
		return nil, "", false // lists / objects: defined by neither code nor documentation here
	}
	switch s {
	case "ws", "http", "timers":
		return nil, s, true
	}
	if machines[s] {
		return []string{s}, "", true
	}
	return nil, "", true
}

func c14History(cfg fw.Config, rec *fw.Rec, idx int) {
	r := cfg.Rng("c14-mcrew", idx)
	dir := filepath.Join(cfg.WorkDir, fmt.Sprintf("c14-%d", idx))
	specDir := filepath.Join(dir, "specs")
	os.MkdirAll(specDir, 0755)
	defer os.RemoveAll(dir)
	os.WriteFile(filepath.Join(specDir, "recorder.yaml"), []byte(c14.RecorderSpec), 0644)
	ctx, cancel := context.WithCancel(context.Background())
	defer cancel()
	s, err := NewService(ctx, specDir, filepath.Join(dir, "crew.db"), "")
	if err != nil {
		rec.Inconclusive("service: " + err.Error())
		return
	}
	s.store.db.NoSync = true
	s.Emitted = make(chan interface{}, 100000)
	s.Processing = make(chan interface{}, 100000)
	s.Errors = make(chan interface{}, 100000)
	s.timers.Errors = s.Errors
	s.wsClientC = make(chan interface{}, 100000)
	idPool := []string{"m1", "m2", "m3", "timer", "ws2"}
	nm := r.Intn(4)
	machines := map[string]bool{}
	var mids []string
	for len(mids) < nm {
		id := idPool[r.Intn(len(idPool))]
		if !machines[id] {
			machines[id] = true
			mids = append(mids, id)
			if err := s.AddMachine(ctx, "recorder", id, "start", match.NewBindings()); err != nil {
				rec.Inconclusive("AddMachine: " + err.Error())
				return
			}
		}
	}
	sort.Strings(mids)
	brittle := idx%3 == 2
	if brittle {
		os.WriteFile(filepath.Join(specDir, "brittle.yaml"), []byte(c14BrittleSpec), 0644)
		if err := s.AddMachine(ctx, "brittle", "brittle", "start", match.NewBindings()); err != nil {
			rec.Inconclusive("AddMachine: " + err.Error())
			return
		}
	}
	g := &c14gen{r: r, mids: mids, brittle: brittle}
	var history []interface{}
	expectLog := map[string][]string{}
	var expectEmitted, expectProcessing, expectWS []string
	judged := true
	nSub := 1 + r.Intn(4)
	for k := 0; k < nSub; k++ {
		var msg interface{} = g.message(2)
		// a timer request whose message is later routed like any other
		if r.Intn(5) == 0 && len(mids) > 0 {
			inner := g.message(1)
			msg = map[string]interface{}{"uid": g.uid(), "to": "timers", "makeTimer": map[string]interface{}{"id": g.uid(), "in": "3ms", "message": inner}}
			history = append(history, msg)
			// model: the request itself is seen by no machine; the inner message is processed once when the timer fires
			expectProcessing = append(expectProcessing, fw.Canon(msg))
			queue := []interface{}{inner}
			modelReplay(queue, machines, expectLog, &expectEmitted, &expectProcessing, &expectWS, &judged)
		} else {
			history = append(history, msg)
			modelReplay([]interface{}{msg}, machines, expectLog, &expectEmitted, &expectProcessing, &expectWS, &judged)
		}
		replay := map[string]interface{}{"machines": mids, "history": history}
		if rec.Guard("C14:mcrew", replay, func() { _, err = s.Process(ctx, fw.Deep(msg), nil) }) {
			return
		}
		rec.Eval(1)
		if mm, ok := msg.(map[string]interface{}); ok && mm["to"] == "brittle" {
			if err == nil {
				rec.Inconclusive("the brittle machine's write did not fail")
				return
			}
			rec.Bucket("mcrew_requests_failing_at_the_store")
			err = nil
		}
		if err != nil {
			rec.Violation("C14:mcrew:process-error", err.Error(), replay)
			return
		}
	}
	replay := map[string]interface{}{"machines": mids, "history": history}
	// quiescence: every re-injected message has been processed (bounded)
	deadline := time.Now().Add(60 * time.Second)
	stable := 0
	for stable < 3 {
		s.timers.Lock()
		pendingTimers := len(s.timers.timers)
		s.timers.Unlock()
		if processFramesPresent() || pendingTimers > 0 {
			stable = 0
		} else {
			stable++
		}
		if time.Now().After(deadline) {
			rec.Violation("C14:mcrew:not-quiescent", "60 s after the last submission messages are still being processed: every message must be processed", replay)
			return
		}
		time.Sleep(2 * time.Millisecond)
	}
	if !judged {
		rec.Bucket("mcrew_unjudged_target_shape")
		return
	}
	// per-machine logs as multisets
	cp := s.crew.Copy()
	for _, mid := range mids {
		got := []string{}
		if m, ok := cp.Machines[mid]; ok {
			l, _ := fw.Plain(m.State.Bs["log"]).([]interface{})
			for _, x := range l {
				got = append(got, fmt.Sprint(x))
			}
		}
		want := append([]string{}, expectLog[mid]...)
		sort.Strings(got)
		sort.Strings(want)
		if fw.Canon(got) != fw.Canon(want) {
			cls := "log-differs"
			if len(got) > len(want) {
				cls = "delivered-too-often-or-to-unaddressed-machine"
			} else if len(got) < len(want) {
				cls = "message-not-delivered"
			}
			rec.Violation("C14:mcrew:"+cls, fmt.Sprintf("machine %q has seen %v, the routing rule says %v", mid, got, want), replay)
			return
		}
	}
	drain := func(ch chan interface{}) []string {
		out := []string{}
		for {
			select {
			case x := <-ch:
				out = append(out, fw.Canon(x))
			default:
				sort.Strings(out)
				return out
			}
		}
	}
	gotEmitted := drain(s.Emitted)
	expectEmitted = append([]string{}, expectEmitted...)
	expectProcessing = append([]string{}, expectProcessing...)
	expectWS = append([]string{}, expectWS...)
	sort.Strings(expectEmitted)
	if fw.Canon(gotEmitted) != fw.Canon(expectEmitted) {
		rec.Violation("C14:mcrew:emitted-reporting", fmt.Sprintf("%d emitted messages reported to the host, the model expects %d (each exactly once)", len(gotEmitted), len(expectEmitted)), map[string]interface{}{"case": replay, "got": gotEmitted, "want": expectEmitted})
		return
	}
	gotProcessing := drain(s.Processing)
	sort.Strings(expectProcessing)
	if fw.Canon(gotProcessing) != fw.Canon(expectProcessing) {
		rec.Violation("C14:mcrew:processing-reporting", fmt.Sprintf("%d messages reported as processed, the model expects %d (each emitted message is fed back and processed exactly once)", len(gotProcessing), len(expectProcessing)), map[string]interface{}{"case": replay, "got": gotProcessing, "want": expectProcessing})
		return
	}
	gotWS := drain(s.wsClientC)
	sort.Strings(expectWS)
	if fw.Canon(gotWS) != fw.Canon(expectWS) {
		rec.Violation("C14:mcrew:websocket-delivery", fmt.Sprintf("the websocket client channel received %d messages, expected %d", len(gotWS), len(expectWS)), replay)
		return
	}
	rec.Bucket("mcrew_histories_checked")
	if brittle {
		rec.Bucket("mcrew_histories_with_a_failing_machine")
	}
	if len(expectWS) > 0 {
		rec.Bucket("mcrew_ws_delivered_once")
	}
	total := 0
	for _, l := range expectLog {
		total += len(l)
	}
	if total >= 2 {
		rec.Nontrivial(fw.Canon(replay))
		rec.Bucket("mcrew_histories_with_deliveries")
		if idx%150 == 2 {
			rec.Sample(map[string]interface{}{"mcrew_case": replay, "expected_logs": expectLog, "emitted_reported": len(gotEmitted)})
		}
	}
}

// modelReplay processes the queue with the routing model (order is irrelevant for multisets).
func modelReplay(queue []interface{}, machines map[string]bool, expectLog map[string][]string, emitted, processing, ws *[]string, judged *bool) {
	for len(queue) > 0 {
		x := queue[0]
		queue = queue[1:]
		*processing = append(*processing, fw.Canon(x))
		recips, service, ok := c14Recipients(x, machines)
		if !ok {
			*judged = false
			return
		}
		if service == "ws" {
			*ws = append(*ws, fw.Canon(x))
		}
		uid := fw.Canon(x)
		if xm, ok := x.(map[string]interface{}); ok {
			if u, ok := xm["uid"].(string); ok {
				uid = u
			}
		}
		for _, rc := range recips {
			expectLog[rc] = append(expectLog[rc], uid)
			xm, _ := x.(map[string]interface{})
			em, _ := xm["emit"].([]interface{})
			for _, e := range em {
				c := fw.Plain(e)
				if cm, ok := c.(map[string]interface{}); ok {
					cm["from"] = rc
				}
				*emitted = append(*emitted, fw.Canon(c))
				queue = append(queue, c)
			}
		}
	}
}

func init() {
	verifRegistry["C14/mcrew"] = func(cfg fw.Config, rec *fw.Rec) {
		rec.Rule = "mcrew Service, in-package: crews of 0-3 recorder machines (ids incl. look-alikes of service names) x histories of 1-4 submitted messages with scripted follow-ups (targets: absent, a machine id, an unknown id, timers, ws, http without a request) and timer requests whose message is routed when the timer fires; every third crew also has a machine whose every step ends in a state the store cannot serialise, so requests addressed to it fail - the messages emitted next to them must be processed all the same; after quiescence each machine's log, the Emitted channel, the Processing channel and the websocket client channel must equal the routing model's multisets (exactly once each); channels are sized above the workload so mcrew's drop-when-full policy cannot trigger; non-trivial = history with >= 2 deliveries; distinct by (machines, history)"
		rec.Required = []string{"mcrew_histories_checked", "mcrew_histories_with_deliveries", "mcrew_ws_delivered_once", "mcrew_histories_with_a_failing_machine"}
		rec.Assume = []string{"list- and object-valued targets are defined by neither code nor documentation for mcrew and are not generated", "quiescence = no Service.Process frame in the goroutine profile and no pending timer, three polls in a row"}
		n := cfg.Pick(300, 5000)
		fw.Parallel(4, n, func(w, i int) { c14History(cfg, rec, i) })
	}
}
