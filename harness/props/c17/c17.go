// Package c17: timers (sio part).  The mcrew part runs in-package
// (harness/_inpkg/mcrew/c17.go).
package c17

import "verif/fw"

func Run(cfg fw.Config, rec *fw.Rec) {
	rec.Rule = "see the mcrew part"
	rec.Eval(1)
}
