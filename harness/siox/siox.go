// Package siox builds sio crews for the monitors: the harness owns the crew's
// input and output channels.
package siox

import (
	"context"
	"encoding/json"

	"github.com/Comcast/sheens/core"
	"github.com/Comcast/sheens/crew"
	"github.com/Comcast/sheens/sio"
)

// Chans is a Couplings implementation backed by two channels.
type Chans struct {
	In  chan interface{}
	Out chan *sio.Result
}

func NewChans(inCap, outCap int) *Chans {
	return &Chans{In: make(chan interface{}, inCap), Out: make(chan *sio.Result, outCap)}
}

func (c *Chans) Start(context.Context) error { return nil }
func (c *Chans) IO(context.Context) (chan interface{}, chan *sio.Result, error) {
	return c.In, c.Out, nil
}
func (c *Chans) Read(context.Context) (map[string]*crew.Machine, error) { return nil, nil }
func (c *Chans) Stop(context.Context) error                             { return nil }

// NewCrew makes a crew whose channels the caller owns.
func NewCrew(ctx context.Context, limit int, inCap, outCap int) (*sio.Crew, *Chans, error) {
	ch := NewChans(inCap, outCap)
	conf := &sio.CrewConf{Id: "verif", Ctl: &core.Control{Limit: limit}}
	c, err := sio.NewCrew(ctx, conf, ch)
	return c, ch, err
}

// SpecFromJSON parses a spec document.
func SpecFromJSON(doc string) (*core.Spec, error) {
	var s core.Spec
	if err := json.Unmarshal([]byte(doc), &s); err != nil {
		return nil, err
	}
	return &s, nil
}

// Inline wraps a spec document as a SpecSource.
func Inline(doc string) (*crew.SpecSource, error) {
	s, err := SpecFromJSON(doc)
	if err != nil {
		return nil, err
	}
	return &crew.SpecSource{Inline: s}, nil
}
