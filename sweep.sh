#!/bin/bash
# Runs every check at the given tier and seeds; prints one line per run.
#   ./sweep.sh quick 1 2 3        ./sweep.sh thorough 1
tier=${1:-quick}; shift
seeds=${@:-1}
cd /verif
for s in $seeds; do
  for i in 01 02 03 04 05 06 07 08 09 10 11 12 13 14 15 16 17 18 19 20; do
    t0=$(date +%s)
    out=$(./check C$i --tier $tier --seed $s 2>&1)
    rc=$?
    t1=$(date +%s)
    echo "C$i seed=$s tier=$tier rc=$rc $((t1-t0))s $(echo "$out" | egrep -c '^VIOLATION') viol $(echo "$out" | egrep -c '^INCONCLUSIVE') incon $(echo "$out" | egrep -c '^KNOWN-FINDING') known"
    if [ $rc -ne 0 ] || echo "$out" | grep -q '^INCONCLUSIVE'; then echo "$out" | egrep '^---|^VIOLATION|^INCONCLUSIVE|BUILD' | head -8; fi
  done
done
