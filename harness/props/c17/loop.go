package c17

// The crew's own loop.  The scenarios in c17.go play the loop themselves (they own the input
// channel and call ProcessMsg), which makes "a firing waits to be queued" a deterministic
// phase - and leaves Crew.Loop itself unexercised.  Here the crew runs its loop; the harness
// is the coupling: it sends requests into the input channel and reads the results, as Stdio
// does.  What the host learns from the results is judged: a timer is reported as pending
// from the result of its request until the result that follows its firing (or cancel), and
// that result arrives - also when the timer's message is null, addressed to nobody, or a
// scalar.

import (
	"context"
	"encoding/json"
	"fmt"
	"time"

	"github.com/Comcast/sheens/sio"

	"verif/fw"
	"verif/props/c14"
	"verif/siox"
)

func loopDriven(rec *fw.Rec, round int) {
	ctx, cancel := context.WithCancel(context.Background())
	defer cancel()
	c, ch, err := siox.NewCrew(ctx, 50, 16, 64)
	if err != nil {
		rec.Inconclusive("loop: crew: " + err.Error())
		return
	}
	src, err := siox.Inline(c14.RecorderSpec)
	if err == nil {
		err = c.SetMachine(ctx, "sink", src, nil)
	}
	if err != nil {
		rec.Inconclusive("loop: sink machine: " + err.Error())
		return
	}
	loopDone := make(chan error, 1)
	go func() { loopDone <- c.Loop(ctx) }()

	msgs := []struct {
		name string
		msg  interface{}
	}{
		{"to-the-sink", map[string]interface{}{"to": "sink", "uid": "s"}},
		{"null", nil},
		{"to-nobody", map[string]interface{}{"to": "nobody"}},
		{"a-string", "tick"},
		{"false", false},
		{"empty-object", map[string]interface{}{}},
	}
	scenario := map[string]interface{}{"host": "sio Crew.Loop", "round": round}
	reported := map[string]bool{}
	// next waits for the next result and folds what it says about the timers
	next := func(what string) bool {
		select {
		case r := <-ch.Out:
			if r == nil {
				rec.Violation("C17:sio:loop:nil-result", "the loop sent a nil result "+what, scenario)
				return false
			}
			if chd, ok := r.Changed[sio.TimersMachine]; ok && chd.State != nil {
				js, err := json.Marshal(chd.State.Bs["timers"])
				var p map[string]json.RawMessage
				if err == nil {
					err = json.Unmarshal(js, &p)
				}
				if err != nil {
					rec.Violation("C17:sio:loop:unserialisable-timers-state", err.Error(), scenario)
					return false
				}
				reported = map[string]bool{}
				for id := range p {
					reported[id] = true
				}
			}
			return true
		case err := <-loopDone:
			rec.Violation("C17:sio:loop:ended", fmt.Sprintf("the crew's loop ended (%v) %s", err, what), scenario)
			return false
		case <-time.After(30 * time.Second):
			rec.Violation("C17:sio:loop:no-result", "no result within 30 s "+what, scenario)
			return false
		}
	}
	ok := true
	for i, tm := range msgs {
		id := fmt.Sprintf("L%d-%d", round, i)
		delay := time.Duration(15+5*((i+round)%4)) * time.Millisecond
		t0 := time.Now()
		ch.In <- map[string]interface{}{"to": "timers", "makeTimer": map[string]interface{}{"id": id, "in": delay.String(), "msg": fw.Deep(tm.msg)}}
		rec.Eval(1)
		if !next("after the request to make timer " + id) {
			return
		}
		if !reported[id] {
			// it may have fired already (the result of the firing is then the next one)
			if time.Since(t0) < delay {
				rec.Violation("C17:sio:loop:accepted-but-not-reported", fmt.Sprintf("timer %s (message: %s) is not reported as pending by the result of its request", id, tm.name), scenario)
				ok = false
			}
			continue
		}
		// the firing: some result must report the timers without it
		for reported[id] {
			if !next(fmt.Sprintf("after timer %s (in %v, message: %s) became due: the host still knows it as pending", id, delay, tm.name)) {
				return
			}
		}
		if time.Since(t0) < delay {
			rec.Violation("C17:sio:loop:reported-gone-early", fmt.Sprintf("timer %s is no longer reported as pending %v before it is due", id, delay-time.Since(t0)), scenario)
			ok = false
		}
		rec.Bucket("loop_timer_message_" + tm.name)
	}
	if ok {
		rec.Bucket("timers_through_the_crews_own_loop")
		rec.Nontrivial(fmt.Sprintf("loop-%d", round))
	}
}
