// Package c15: reported changes suffice to persist a crew and restart it
// anywhere.  A shadow store is folded from Result.Changed exactly as the
// reference consumer (sio/stdio.go) does and compared with the live crew after
// every message; at every message boundary a second crew is booted from the
// JSON-round-tripped shadow and must behave identically on the rest of the
// history.
package c15

import (
	"context"
	"encoding/json"
	"fmt"
	"io"
	"log"
	"math/rand"
	"sort"

	"github.com/Comcast/sheens/core"
	"github.com/Comcast/sheens/crew"
	"github.com/Comcast/sheens/sio"

	"verif/fw"
	"verif/ref"
	"verif/siox"
)

// op is one history operation.
type op struct {
	Kind  string                 `json:"kind"` // create replaceState replaceSpec replaceSpecBad delete recreate msg broadcast
	Via   string                 `json:"via"`  // captain | direct
	Mid   string                 `json:"mid,omitempty"`
	Spec  string                 `json:"spec,omitempty"` // spec name (counter-<n> / recorder-<n>)
	State map[string]interface{} `json:"state,omitempty"`
	Uid   string                 `json:"uid,omitempty"`
}

// specDoc builds a machine spec document.  Reactions of different machines to
// one message commute: each machine only updates its own bindings and emits
// messages addressed to nobody.
func specDoc(name string) map[string]interface{} {
	if name[0] == 'g' {
		// a spec that relies on a spec-level option: every second message makes its action
		// throw, which actionErrorBranches routes to a node that recovers (without the option
		// the machine would end up at the error node)
		doc := `{"name":"` + name + `","actionErrorBranches":true,"nodes":{
 "start":{"branching":{"type":"message","branches":[{"pattern":{"uid":"?u"},"target":"work"}]}},
 "work":{"action":{"interpreter":"ecmascript","source":"var bs=_.bindings; var u=bs['?u']; delete bs['?u']; bs.n=(bs.n||0)+1; if ((bs.n + (bs.recovered||0)) % 2 === 0) { throw new Error('even'); } bs.last=u; return bs;"},
   "branching":{"branches":[{"pattern":{"actionError":"?e"},"target":"recover"},{"target":"start"}]}},
 "recover":{"action":{"interpreter":"ecmascript","source":"var bs=_.bindings; delete bs.actionError; delete bs.error; delete bs['?e']; delete bs['?u']; bs.recovered=(bs.recovered||0)+1; _.out({to:'nobody',from:'` + name + `',recovered:bs.recovered}); return bs;"},
   "branching":{"branches":[{"target":"start"}]}}}}`
		var d map[string]interface{}
		if err := json.Unmarshal([]byte(doc), &d); err != nil {
			panic(err)
		}
		return d
	}
	if name[0] == 'p' {
		// a spec with a node the document gives as null (a node without a body): after its
		// second message the machine parks there and stays, whatever arrives - in a crew
		// rebuilt from a store as well
		doc := `{"name":"` + name + `","nodes":{
 "start":{"branching":{"type":"message","branches":[{"pattern":{"uid":"?u"},"target":"work"}]}},
 "work":{"action":{"interpreter":"ecmascript","source":"var bs=_.bindings; bs.last=bs['?u']; delete bs['?u']; bs.n=(bs.n||0)+1; _.out({to:'nobody',from:'` + name + `',n:bs.n}); return bs;"},
   "branching":{"branches":[{"pattern":{"n":2},"target":"parked"},{"target":"start"}]}},
 "parked":null}}`
		var d map[string]interface{}
		if err := json.Unmarshal([]byte(doc), &d); err != nil {
			panic(err)
		}
		return d
	}
	var a *ref.ASpec
	if name[0] == 'c' {
		// counter: counts every message it sees, remembers the last uid
		a = &ref.ASpec{Name: name, Nodes: map[string]*ref.ANode{
			"start": {Branching: &ref.ABranching{Type: "message", Branches: []*ref.ABranch{{HasPattern: true, Pattern: map[string]interface{}{"uid": "?u"}, Target: "bump"}}}},
			"bump": {Action: &ref.Prog{Ops: []ref.Op{{Op: "inc", K: "n"}, {Op: "copy", K: "?u", K2: "last"}, {Op: "del", K: "?u"}, {Op: "emitb", K: "n", V: map[string]interface{}{"to": "nobody", "from": name}}}, Ret: "same"},
				Branching: &ref.ABranching{Type: "bindings", Branches: []*ref.ABranch{{Target: "start"}}}},
		}}
	} else {
		// recorder: appends uids to a log, alternates between two nodes
		a = &ref.ASpec{Name: name, Nodes: map[string]*ref.ANode{
			"start": {Branching: &ref.ABranching{Type: "message", Branches: []*ref.ABranch{{HasPattern: true, Pattern: map[string]interface{}{"uid": "?u"}, Target: "rec"}}}},
			"rec": {Action: &ref.Prog{Ops: []ref.Op{{Op: "copy", K: "?u", K2: "last"}, {Op: "del", K: "?u"}, {Op: "inc", K: "seen"}}, Ret: "same"},
				Branching: &ref.ABranching{Type: "bindings", Branches: []*ref.ABranch{{Target: "other"}}}},
			"other": {Branching: &ref.ABranching{Type: "message", Branches: []*ref.ABranch{{HasPattern: true, Pattern: map[string]interface{}{"uid": "?u"}, Target: "rec2"}}}},
			"rec2": {Action: &ref.Prog{Ops: []ref.Op{{Op: "copy", K: "?u", K2: "last"}, {Op: "del", K: "?u"}, {Op: "inc", K: "seen"}, {Op: "emit", V: map[string]interface{}{"to": "nobody", "from": name}}}, Ret: "same"},
				Branching: &ref.ABranching{Type: "bindings", Branches: []*ref.ABranch{{Target: "start"}}}},
		}}
	}
	var doc map[string]interface{}
	json.Unmarshal([]byte(a.JSON(false)), &doc)
	return doc
}

func badSpecDoc(name string) map[string]interface{} {
	d := specDoc("c" + name)
	d["name"] = name
	d["nodes"].(map[string]interface{})["bump"].(map[string]interface{})["action"].(map[string]interface{})["interpreter"] = "no-such-interpreter"
	return d
}

func (o op) message() interface{} {
	switch o.Kind {
	case "msg":
		return map[string]interface{}{"to": o.Mid, "uid": o.Uid}
	case "broadcast":
		return map[string]interface{}{"uid": o.Uid}
	case "delete":
		return map[string]interface{}{"to": "captain", "delete": []interface{}{o.Mid}}
	}
	m := map[string]interface{}{}
	switch o.Kind {
	case "create", "replaceSpec":
		m["spec"] = map[string]interface{}{"inline": specDoc(o.Spec)}
	case "replaceSpecBad":
		m["spec"] = map[string]interface{}{"inline": badSpecDoc(o.Spec)}
	case "replaceSpecNameOnly":
		// a source that names a spec without giving one: nothing to run
		m["spec"] = map[string]interface{}{"name": o.Spec}
	}
	if o.State != nil {
		m["state"] = o.State
	}
	return map[string]interface{}{"to": "captain", "update": map[string]interface{}{o.Mid: m}}
}

// apply performs the operation on a crew and returns the result of the
// message processed (nil for direct calls, whose changes are reported with the
// next message).
func apply(ctx context.Context, c *sio.Crew, o op) (*sio.Result, error) {
	if o.Via == "direct" {
		switch o.Kind {
		case "delete":
			return nil, c.DeleteMachine(ctx, o.Mid)
		case "replaceSpecNameOnly":
			return nil, c.SetMachine(ctx, o.Mid, &crew.SpecSource{Name: o.Spec}, nil)
		case "recreate":
			if err := c.DeleteMachine(ctx, o.Mid); err != nil {
				return nil, err
			}
			fallthrough
		case "create", "replaceSpec", "replaceState":
			var src *crew.SpecSource
			if o.Spec != "" {
				js, _ := json.Marshal(specDoc(o.Spec))
				var s core.Spec
				json.Unmarshal(js, &s)
				src = &crew.SpecSource{Inline: &s}
			}
			var st *core.State
			if o.State != nil {
				js, _ := json.Marshal(o.State)
				st = &core.State{}
				json.Unmarshal(js, st)
			}
			return nil, c.SetMachine(ctx, o.Mid, src, st)
		}
	}
	return c.ProcessMsg(ctx, o.message())
}

type shadowEntry struct {
	State      *core.State      `json:"state"`
	SpecSource *crew.SpecSource `json:"spec,omitempty"`
}

// fold applies reported changes the way sio/stdio.go does.
func fold(shadow map[string]*shadowEntry, r *sio.Result) {
	for mid, m := range r.Changed {
		if m.Deleted {
			delete(shadow, mid)
			continue
		}
		n, have := shadow[mid]
		if !have {
			n = &shadowEntry{}
			shadow[mid] = n
		}
		if m.State != nil {
			n.State = m.State.Copy()
		}
		if m.SpecSrc != nil {
			n.SpecSource = m.SpecSrc.Copy()
		}
	}
}

func service(mid string) bool { return mid == sio.CaptainMachine || mid == sio.TimersMachine }

func stateCanon(s *core.State) string {
	if s == nil {
		return "start/{}"
	}
	node := s.NodeName
	if node == "" {
		node = "start"
	}
	if s.Bs == nil {
		return node + "/{}"
	}
	return node + "/" + fw.Canon(s.Bs)
}

func specName(src *crew.SpecSource) string {
	if src == nil || src.Inline == nil {
		return ""
	}
	return src.Inline.Name
}

// compareShadow checks that the shadow store equals the live crew.
func compareShadow(shadow map[string]*shadowEntry, c *sio.Crew) string {
	for mid, m := range c.Machines {
		if service(mid) {
			continue
		}
		e, have := shadow[mid]
		if !have {
			return fmt.Sprintf("machine %q exists in the crew but not in a store built from the reported changes", mid)
		}
		if stateCanon(e.State) != stateCanon(m.State) {
			return fmt.Sprintf("machine %q is at %s in the crew but %s in the store", mid, stateCanon(m.State), stateCanon(e.State))
		}
		live := ""
		if m.Specter != nil && m.Specter.Spec() != nil {
			live = m.Specter.Spec().Name
		}
		if specName(e.SpecSource) != live {
			return fmt.Sprintf("machine %q runs spec %q in the crew but the store holds %q", mid, live, specName(e.SpecSource))
		}
	}
	for mid := range shadow {
		if service(mid) {
			continue
		}
		if _, have := c.Machines[mid]; !have {
			return fmt.Sprintf("machine %q is in the store but was deleted from the crew", mid)
		}
	}
	return ""
}

func crewCanon(c *sio.Crew) string {
	m := map[string]string{}
	for mid, mach := range c.Machines {
		if service(mid) {
			continue
		}
		name := ""
		if mach.Specter != nil && mach.Specter.Spec() != nil {
			name = mach.Specter.Spec().Name
		}
		m[mid] = name + "@" + stateCanon(mach.State)
	}
	return fw.Canon(m)
}

func emittedMultiset(r *sio.Result) string {
	if r == nil {
		return "[]"
	}
	var out []string
	for _, b := range r.Emitted {
		for _, e := range b {
			out = append(out, fw.Canon(e))
		}
	}
	sort.Strings(out)
	return fw.Canon(out)
}

func genHistory(r *rand.Rand, idx int) []op {
	mids := []string{"m1", "m2", "m3"}
	n := 3 + r.Intn(10)
	var h []op
	specN := 0
	uidN := 0
	newSpec := func() string {
		specN++
		switch r.Intn(5) {
		case 0, 1:
			return fmt.Sprintf("counter-%d-%d", idx, specN)
		case 2:
			if r.Intn(2) == 0 {
				return fmt.Sprintf("parking-%d-%d", idx, specN)
			}
			return fmt.Sprintf("guarded-%d-%d", idx, specN)
		}
		return fmt.Sprintf("recorder-%d-%d", idx, specN)
	}
	exists := map[string]bool{}
	lastCreate := map[string]op{} // per id: the most recent create, to be repeated verbatim after a delete
	for len(h) < n {
		mid := mids[r.Intn(len(mids))]
		via := "captain"
		if r.Intn(3) == 0 {
			via = "direct"
		}
		var o op
		switch k := r.Intn(12); {
		case k < 3 || !exists[mid] && k < 6:
			o = op{Kind: "create", Via: via, Mid: mid, Spec: newSpec()}
			if r.Intn(2) == 0 {
				o.State = map[string]interface{}{"node": "start", "bs": map[string]interface{}{"n": float64(r.Intn(5)), "seen": float64(r.Intn(3))}}
			}
			if prev, had := lastCreate[mid]; had && !exists[mid] && r.Intn(2) == 0 {
				// re-create exactly as before (same spec, same state): the report is byte-identical
				// to an earlier one
				o = prev
				o.Via = via
			}
			lastCreate[mid] = o
			exists[mid] = true
		case k == 3 && exists[mid]:
			o = op{Kind: "replaceState", Via: via, Mid: mid, State: map[string]interface{}{"node": "start", "bs": map[string]interface{}{"n": float64(10 + r.Intn(5)), "replaced": true}}}
		case k == 4 && exists[mid]:
			o = op{Kind: "replaceSpec", Via: via, Mid: mid, Spec: newSpec()}
		case k == 5 && exists[mid]:
			o = op{Kind: "delete", Via: via, Mid: mid}
			exists[mid] = false
		case k == 6 && exists[mid]:
			o = op{Kind: "recreate", Via: "direct", Mid: mid, Spec: newSpec()}
			if r.Intn(3) == 0 {
				// ... re-created without a spec: a machine that reacts to nothing
				o.Spec = ""
				o.State = map[string]interface{}{"node": "start", "bs": map[string]interface{}{"n": 7.0}}
			}
		case k == 7 && exists[mid] && idx%5 != 0:
			// roll back: the most recent create of this id again, verbatim, while the machine exists
			if prev, had := lastCreate[mid]; had {
				o = prev
				o.Via = via
			}
		case k == 8 && exists[mid] && idx%4 == 1:
			o = op{Kind: "replaceSpecNameOnly", Via: via, Mid: mid, Spec: fmt.Sprintf("named-%d-%d", idx, specN)}
		case k == 7 && exists[mid] && idx%5 == 0:
			o = op{Kind: "replaceSpecBad", Via: "captain", Mid: mid, Spec: fmt.Sprintf("bad-%d-%d", idx, specN)}
		case k < 10:
			uidN++
			o = op{Kind: "msg", Via: "captain", Mid: mid, Uid: fmt.Sprintf("u%d", uidN)}
		default:
			uidN++
			o = op{Kind: "broadcast", Via: "captain", Uid: fmt.Sprintf("u%d", uidN)}
		}
		if o.Kind == "" {
			continue
		}
		h = append(h, o)
	}
	if idx%7 == 3 {
		// deploy with an explicit state, swap only the spec, roll back by repeating the
		// deployment verbatim, then use the machine
		dep := op{Kind: "create", Via: "captain", Mid: "m2", Spec: newSpec(), State: map[string]interface{}{"node": "start", "bs": map[string]interface{}{"n": 1.0}}}
		uidN++
		h = append(h, dep, op{Kind: "replaceSpec", Via: "captain", Mid: "m2", Spec: newSpec()}, dep, op{Kind: "msg", Via: "captain", Mid: "m2", Uid: fmt.Sprintf("u%d", uidN)})
	}
	// histories end with a message so that direct changes get reported
	uidN++
	h = append(h, op{Kind: "broadcast", Via: "captain", Uid: fmt.Sprintf("u%d", uidN)})
	return h
}

func featureOf(h []op) []string {
	var fs []string
	deleted := map[string]bool{}
	for i, o := range h {
		switch o.Kind {
		case "replaceState":
			fs = append(fs, "replace_state")
		case "replaceSpec":
			fs = append(fs, "replace_spec")
		case "recreate":
			fs = append(fs, "delete_recreate_before_report")
			if o.Spec == "" {
				fs = append(fs, "recreated_without_a_spec_before_report")
			}
		case "delete":
			deleted[o.Mid] = true
			if o.Via == "direct" && i+1 < len(h) && h[i+1].Kind == "create" && h[i+1].Mid == o.Mid && h[i+1].Via == "direct" {
				fs = append(fs, "delete_recreate_before_report")
			}
		case "create":
			if i >= 2 && h[i-1].Kind == "replaceSpec" && h[i-1].Mid == o.Mid && h[i-2].Kind == "create" && h[i-2].Mid == o.Mid && h[i-2].Spec == o.Spec && o.State != nil {
				fs = append(fs, "spec_swap_rolled_back_by_repeating_the_deployment")
			}
			if deleted[o.Mid] {
				fs = append(fs, "recreate_across_messages")
				for _, p := range h[:i] {
					if p.Kind == "create" && p.Mid == o.Mid && p.Spec == o.Spec {
						fs = append(fs, "recreate_identical_to_an_earlier_create")
					}
				}
			}
		case "replaceSpecNameOnly":
			fs = append(fs, "spec_replaced_by_a_name_only_source")
		case "replaceSpecBad":
			fs = append(fs, "spec_that_does_not_compile")
		}
	}
	return fs
}

func Run(cfg fw.Config, rec *fw.Rec) {
	log.SetOutput(io.Discard)
	rec.Rule = "histories of 4-13 crew operations over machine ids {m1,m2,m3}: create (with/without state), replace state, replace spec (and, in a fifth of the histories, a spec that does not compile), delete, delete+re-create before the next report, re-create across messages (also byte-identical to an earlier create), roll back a spec swap by repeating the original deployment verbatim, replace the spec by a source that only names one - through captain messages and through direct SetMachine / DeleteMachine calls - interleaved with routed and broadcast messages to counter / recorder machines whose reactions commute; after every message the shadow store folded from Result.Changed must equal the live crew (existence, node, bindings, spec name); at every message boundary a crew booted from the JSON-round-tripped shadow must give the same emissions and machine states for the rest of the history; end to end: the same kind of histories typed into a crew wired like sio/siostd (real Stdio coupling, state file rewritten after every message): the state file must equal the live crew, and a crew started from the state file written after a prefix must end like, and emit like, the uninterrupted one; and stopping and starting twice more without any message in between must leave the state file as it was; a machine created, deleted and created again verbatim before the restarts is used after them; the state of the timers machine replaced (captain update / SetMachine; given another timer, none, the same and another) while a timer is pending: the store folded from the reports and a crew started from it hold the timers the crew holds; non-trivial = history with >= 2 crew operations other than messages; distinct by history"
	rec.Required = []string{"shadow_equal_after_message", "restarts_compared", "replace_state", "replace_spec", "delete_recreate_before_report", "recreate_across_messages", "recreate_identical_to_an_earlier_create", "spec_swap_rolled_back_by_repeating_the_deployment", "spec_replaced_by_a_name_only_source", "recreated_without_a_spec_before_report", "stdio_state_file_equals_crew", "stdio_restarts_compared", "stdio_idle_lifetimes_keep_the_state", "timers_machine_state_replaced_while_a_timer_is_pending", "timers_machine_compared_after_a_firing"}
	rec.Assume = []string{"reactions of different machines to one message commute (machines only touch their own bindings and emit to nobody)", "a missing stored state is the default start/{} the boot path supplies", "service machines captain and timers are not compared in the random histories (the timers machine is compared in the scenario that replaces its state)"}
	n := cfg.Pick(1200, 20000)
	fw.Parallel(cfg.Workers, n, func(w, i int) {
		r := cfg.Rng("c15", i)
		h := genHistory(r, i)
		ctx := context.Background()
		c, _, err := siox.NewCrew(ctx, 50, 8, 8)
		if err != nil {
			rec.Inconclusive("crew: " + err.Error())
			return
		}
		shadow := map[string]*shadowEntry{}
		type boundary struct {
			at     int // index of the next op
			shadow string
		}
		var boundaries []boundary
		var results []string // per op: emitted multiset + crew canon after
		ok := true
		for k, o := range h {
			var res *sio.Result
			var err error
			if rec.Guard("C15", h, func() { res, err = apply(ctx, c, o) }) {
				return
			}
			rec.Eval(1)
			_ = err // a failing operation (bad spec) is part of the history
			if res != nil {
				fold(shadow, res)
				if why := compareShadow(shadow, c); why != "" {
					cls := "store-differs"
					switch {
					case contains(why, "not in a store"):
						cls = "machine-missing-from-store"
					case contains(why, "was deleted"):
						cls = "deleted-machine-still-in-store"
					case contains(why, "runs spec"):
						cls = "spec-differs"
					case contains(why, "is at"):
						cls = "state-differs"
					}
					rec.Violation("C15:"+cls, fmt.Sprintf("after operation %d (%s %s via %s): %s", k, o.Kind, o.Mid, o.Via, why), map[string]interface{}{"history": h, "at": k})
					ok = false
					break
				}
				rec.Bucket("shadow_equal_after_message")
				js, _ := json.Marshal(shadow)
				boundaries = append(boundaries, boundary{at: k + 1, shadow: string(js)})
			}
			results = append(results, emittedMultiset(res)+"|"+crewCanon(c))
		}
		if !ok {
			return
		}
		// restart at every message boundary
		for _, b := range boundaries {
			if b.at >= len(h) {
				continue
			}
			var stored map[string]*shadowEntry
			if err := json.Unmarshal([]byte(b.shadow), &stored); err != nil {
				rec.Violation("C15:store-not-json", "the store does not survive a JSON round trip: "+err.Error(), h)
				return
			}
			c2, _, err := siox.NewCrew(ctx, 50, 8, 8)
			if err != nil {
				return
			}
			bootOK := true
			mids := make([]string, 0, len(stored))
			for mid := range stored {
				mids = append(mids, mid)
			}
			sort.Strings(mids)
			for _, mid := range mids {
				if service(mid) {
					continue
				}
				e := stored[mid]
				var berr error
				if rec.Guard("C15:boot", h, func() { berr = c2.SetMachine(ctx, mid, e.SpecSource, e.State) }) {
					return
				}
				if berr != nil {
					rec.Violation("C15:restart-fails", fmt.Sprintf("a crew cannot be rebuilt from the store at boundary %d: SetMachine(%s): %v", b.at, mid, berr), map[string]interface{}{"history": h, "at": b.at})
					bootOK = false
					break
				}
			}
			if !bootOK {
				return
			}
			// the boot itself produces changes; drain them like a host would
			c2.GetChanged(ctx)
			for k := b.at; k < len(h); k++ {
				var res *sio.Result
				if rec.Guard("C15:restart", h, func() { res, _ = apply(ctx, c2, h[k]) }) {
					return
				}
				rec.Eval(1)
				got := emittedMultiset(res) + "|" + crewCanon(c2)
				if got != results[k] {
					rec.Violation("C15:restarted-crew-differs", fmt.Sprintf("a crew restarted from the store at boundary %d differs at operation %d (%s %s):\n original : %s\n restarted: %s", b.at, k, h[k].Kind, h[k].Mid, fw.Short(results[k]), fw.Short(got)),
						map[string]interface{}{"history": h, "restart_at": b.at, "differs_at": k})
					return
				}
			}
			rec.Bucket("restarts_compared")
		}
		fs := featureOf(h)
		for _, f := range fs {
			rec.Bucket(f)
		}
		if len(fs) >= 1 {
			rec.Nontrivial(fw.Canon(h))
			if i%300 == 7 {
				rec.Sample(map[string]interface{}{"history": h, "restart_points": len(boundaries)})
			}
		}
	})
	if runExtra != nil {
		runExtra(cfg, rec)
	}
}

func init() {
	runExtra = func(cfg fw.Config, rec *fw.Rec) {
		timersStateReplaced(rec)
		fw.Parallel(8, cfg.Pick(60, 800), func(w, i int) { stdioHistory(cfg, rec, i) })
		fw.Parallel(8, cfg.Pick(24, 300), func(w, i int) { PersistReload(cfg, rec, i, "C15") })
	}
}

var runExtra func(cfg fw.Config, rec *fw.Rec)

func contains(s, sub string) bool {
	for i := 0; i+len(sub) <= len(s); i++ {
		if s[i:i+len(sub)] == sub {
			return true
		}
	}
	return false
}
