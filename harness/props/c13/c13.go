// Package c13: a spec's behaviour is independent of its representation;
// compiling is idempotent.  Multi-representation differential: one abstract
// spec is rendered as Go structures, JSON, YAML (both loaders the hosts use),
// with inline and JSON-text patterns, compiled once / twice / compiled,
// serialised, reloaded and compiled again; all variants must produce the same
// traces.  Unknown interpreters, pattern syntaxes and branching types must be
// rejected by Compile.
package c13

import (
	"context"
	"encoding/json"
	"fmt"
	"os"
	"path/filepath"
	"strings"

	"github.com/Comcast/sheens/core"
	"github.com/Comcast/sheens/crew"
	"github.com/Comcast/sheens/interpreters"
	"github.com/Comcast/sheens/match"
	"github.com/Comcast/sheens/sio"
	jyaml "github.com/jsccast/yaml"

	"verif/fw"
	"verif/gen"
	"verif/ref"
)

type variant struct {
	Name string
	Spec *core.Spec
	Err  error
}

func compileModes(name string, load func() (*core.Spec, error), precompiled bool) []variant {
	var out []variant
	ctx := context.Background()
	// once
	s, err := load()
	if err == nil && !precompiled {
		err = s.Compile(ctx, nil, true)
	}
	out = append(out, variant{name + "/once", s, err})
	// twice (forced, then unforced)
	s2, err2 := load()
	if err2 == nil {
		if !precompiled {
			err2 = s2.Compile(ctx, nil, true)
		}
		if err2 == nil {
			err2 = s2.Compile(ctx, nil, true)
		}
		if err2 == nil {
			err2 = s2.Compile(ctx, nil, false)
		}
	}
	out = append(out, variant{name + "/thrice", s2, err2})
	// compiled -> serialised -> reloaded -> compiled
	s3, err3 := load()
	if err3 == nil {
		if !precompiled {
			err3 = s3.Compile(ctx, nil, true)
		}
		if err3 == nil {
			var js []byte
			js, err3 = json.Marshal(s3)
			if err3 == nil {
				var r core.Spec
				if err3 = json.Unmarshal(js, &r); err3 == nil {
					err3 = r.Compile(ctx, nil, true)
					s3 = &r
				}
			}
		}
	}
	out = append(out, variant{name + "/reloaded", s3, err3})
	// compiled once without force (nothing has been built yet, so everything must be)
	if !precompiled {
		s4, err4 := load()
		if err4 == nil {
			err4 = s4.Compile(ctx, nil, false)
		}
		out = append(out, variant{name + "/unforced", s4, err4})
		// ... and reloaded, then compiled without force
		if err3 == nil && s3 != nil {
			js, e := json.Marshal(s3)
			var r core.Spec
			if e == nil {
				e = json.Unmarshal(js, &r)
			}
			if e == nil {
				e = r.Compile(ctx, nil, false)
			}
			out = append(out, variant{name + "/reloaded-unforced", &r, e})
		}
	}
	return out
}

// goTyped turns a plain pattern into the typed Go containers a spec written in
// Go might use: map[string]string, []string, []int, int, nested where possible.
func goTyped(x interface{}) interface{} {
	switch t := x.(type) {
	case float64:
		if t == float64(int(t)) {
			return int(t)
		}
		return t
	case map[string]interface{}:
		allStr := len(t) > 0
		for _, v := range t {
			if _, ok := v.(string); !ok {
				allStr = false
			}
		}
		if allStr {
			m := map[string]string{}
			for k, v := range t {
				m[k] = v.(string)
			}
			return m
		}
		m := map[string]interface{}{}
		for k, v := range t {
			m[k] = goTyped(v)
		}
		return m
	case []interface{}:
		allStr, allNum := len(t) > 0, len(t) > 0
		for _, v := range t {
			if _, ok := v.(string); !ok {
				allStr = false
			}
			if f, ok := v.(float64); !ok || f != float64(int(f)) {
				allNum = false
			}
		}
		if allStr {
			a := []string{}
			for _, v := range t {
				a = append(a, v.(string))
			}
			return a
		}
		if allNum {
			a := []int{}
			for _, v := range t {
				a = append(a, int(v.(float64)))
			}
			return a
		}
		a := []interface{}{}
		for _, v := range t {
			a = append(a, goTyped(v))
		}
		return a
	}
	return x
}

func variants(a *ref.ASpec, dir string, idx int) []variant {
	var vs []variant
	// Go structures whose inline patterns are typed Go containers, with no pattern syntax
	// and under the JSON syntax (which passes a pattern that is not a string through)
	for _, syntax := range []string{"", "json"} {
		syntax := syntax
		vs = append(vs, compileModes("go-typed-containers-syntax-"+syntax, func() (*core.Spec, error) {
			s := a.Core(false, ref.NativeNilErr)
			s.PatternSyntax = syntax
			for _, n := range s.Nodes {
				if n.Branches != nil {
					for _, b := range n.Branches.Branches {
						if b.Pattern != nil {
							if str, isStr := b.Pattern.(string); isStr && syntax == "json" {
								js, _ := json.Marshal(str)
								b.Pattern = string(js) // a string pattern must be JSON text under this syntax
							} else {
								b.Pattern = goTyped(b.Pattern)
							}
						}
					}
				}
			}
			return s, nil
		}, false)...)
	}
	for _, asText := range []bool{false, true} {
		tag := "inline"
		if asText {
			tag = "jsontext"
		}
		// Go structures
		vs = append(vs, compileModes("go-"+tag, func() (*core.Spec, error) {
			s := a.Core(false, ref.NativeNilErr)
			if asText {
				s.PatternSyntax = "json"
				for _, n := range s.Nodes {
					if n.Branches != nil {
						for _, b := range n.Branches.Branches {
							if b.Pattern != nil {
								js, _ := json.Marshal(b.Pattern)
								b.Pattern = string(js)
							}
						}
					}
				}
			}
			return s, nil
		}, false)...)
		jsdoc := a.JSON(asText)
		vs = append(vs, compileModes("json-"+tag, func() (*core.Spec, error) {
			var s core.Spec
			if err := json.Unmarshal([]byte(jsdoc), &s); err != nil {
				return nil, err
			}
			return &s, nil
		}, false)...)
		ydoc := a.YAML(asText)
		vs = append(vs, compileModes("yaml-jsccast-"+tag, func() (*core.Spec, error) {
			var s core.Spec
			if err := jyaml.Unmarshal([]byte(ydoc), &s); err != nil {
				return nil, err
			}
			return &s, nil
		}, false)...)
		// sio's URL loader (the host path for specs given by URL), YAML and JSON files
		for _, ext := range []string{"yaml", "json"} {
			doc := ydoc
			if ext == "json" {
				doc = jsdoc
			}
			path := filepath.Join(dir, fmt.Sprintf("spec-%d-%s.%s", idx, tag, ext))
			os.WriteFile(path, []byte(doc), 0644)
			vs = append(vs, compileModes("sio-url-"+ext+"-"+tag, func() (*core.Spec, error) {
				_, s, err := sio.ResolveSpecSource(context.Background(), &crew.SpecSource{URL: "file://" + path})
				return s, err
			}, true)...)
		}
		// ... and a JSON file that begins with white space or a byte order mark is still JSON
		for k, prefix := range []string{"\n  \t", "\xef\xbb\xbf", "\r\n"} {
			path := filepath.Join(dir, fmt.Sprintf("spec-%d-%s-lead%d.json", idx, tag, k))
			os.WriteFile(path, []byte(prefix+jsdoc), 0644)
			vs = append(vs, compileModes(fmt.Sprintf("sio-url-json-leading-%d-%s", k, tag), func() (*core.Spec, error) {
				_, s, err := sio.ResolveSpecSource(context.Background(), &crew.SpecSource{URL: "file://" + path})
				return s, err
			}, true)[:1]...)
		}
		// sio's inline loader
		vs = append(vs, compileModes("sio-inline-"+tag, func() (*core.Spec, error) {
			var s core.Spec
			if err := json.Unmarshal([]byte(jsdoc), &s); err != nil {
				return nil, err
			}
			_, c, err := sio.ResolveSpecSource(context.Background(), &crew.SpecSource{Inline: &s})
			return c, err
		}, true)...)
	}
	// native node actions with guards given as source, compiled with and without force: the
	// guards have not been built, whatever the state of the node's action.  (Compared with
	// each other: native and interpreted actions word their errors differently.)
	mixed := func() *core.Spec {
		s := a.Core(false, ref.NativeNilErr)
		nat := a.Core(true, ref.NativeNilErr)
		for name, n := range s.Nodes {
			if nn := nat.Nodes[name]; nn != nil && nn.Action != nil {
				n.Action = nn.Action
				n.ActionSource = nil
			}
		}
		return s
	}
	for _, force := range []bool{true, false} {
		s := mixed()
		err := s.Compile(context.Background(), nil, force)
		vs = append(vs, variant{fmt.Sprintf("mixed-native-actions-source-guards/force=%v", force), s, err})
	}
	// the names under which the standard interpreter map (what mdb, mexpect and sheensio
	// use) offers the ECMAScript interpreter: a spec naming any of them is the same spec
	for _, alias := range interpreterAliases {
		s := a.Core(false, ref.NativeNilErr)
		relabel(s, alias)
		err := s.Compile(context.Background(), interpreters.Standard(), true)
		vs = append(vs, variant{"interpreter-name-" + alias + "/standard-map", s, err})
		if err == nil {
			js, err2 := json.Marshal(s)
			var r core.Spec
			if err2 == nil {
				err2 = json.Unmarshal(js, &r)
			}
			if err2 == nil {
				err2 = r.Compile(context.Background(), interpreters.Standard(), true)
			}
			vs = append(vs, variant{"interpreter-name-" + alias + "/standard-map-reloaded", &r, err2})
		}
	}
	return vs
}

var interpreterAliases = []string{"", "ecmascript", "ecmascript-5.1", "ecmascript-ext", "ecmascript-5.1-ext", "goja"}

// relabel names the given interpreter in every action and guard source.
func relabel(s *core.Spec, name string) (n int) {
	for _, nd := range s.Nodes {
		if nd.ActionSource != nil {
			nd.ActionSource.Interpreter = name
			n++
		}
		if nd.Branches != nil {
			for _, b := range nd.Branches.Branches {
				if b.GuardSource != nil {
					b.GuardSource.Interpreter = name
					n++
				}
			}
		}
	}
	return n
}

func trace(rec *fw.Rec, replay interface{}, spec *core.Spec, bs map[string]interface{}, msgs []interface{}) (string, bool) {
	st := &core.State{NodeName: "start", Bs: match.Bindings(fw.Deep(bs).(map[string]interface{}))}
	var out []interface{}
	for _, m := range msgs {
		var w *core.Walked
		var err error
		if rec.Guard("C13", replay, func() {
			w, err = spec.Walk(context.Background(), st, []interface{}{fw.Deep(m)}, &core.Control{Limit: 20}, nil)
		}) {
			return "", false
		}
		if err != nil || w == nil {
			out = append(out, "walk error: "+fmt.Sprint(err))
			break
		}
		var ss []interface{}
		for _, s := range w.Strides {
			e := map[string]interface{}{"from": s.From.NodeName, "consumed": s.Consumed != nil, "emitted": fw.Canon(s.Emitted)}
			if s.To != nil {
				e["to"] = s.To.NodeName
				e["bs"] = fw.Canon(s.To.Bs)
			}
			ss = append(ss, e)
		}
		out = append(out, map[string]interface{}{"strides": ss, "stopped": w.StoppedBecause.String()})
		if to := w.To(); to != nil {
			st = to
		}
	}
	return fw.Canon(out), true
}

// top-level pattern shapes for message branching
var shapes = []interface{}{
	map[string]interface{}{"k": "?v"},
	[]interface{}{"a", "?rest"},
	"lit",
	"?m",
	5.0,
	true,
	map[string]interface{}{"l": []interface{}{"?e"}},
	map[string]interface{}{},
	[]interface{}{},
	map[string]interface{}{"?prop": 1.0},
	nil,
}

// sharedStructures: Go structures may share what a document cannot - one *Branches value
// used by two nodes, one *Node registered under two names, one *Branch in two lists.  The
// machine must be the one its JSON rendering (where nothing is shared) compiles to.
func sharedStructures(rec *fw.Rec) {
	texts := []string{`"\"42\""`, `"\"?m\""`, `"\"true\""`, `"\"null\""`, `{"a":"?x"}`, `"\"hello\""`, `["a"]`, `42`}
	for _, sharing := range []string{"branches", "node", "branch"} {
		for _, syntax := range []string{"json", ""} {
			mk := func() *core.Spec {
				var bs []*core.Branch
				for i, t := range texts {
					var p interface{} = t
					if syntax == "" {
						json.Unmarshal([]byte(t), &p)
					}
					bs = append(bs, &core.Branch{Pattern: p, Target: fmt.Sprintf("t%d", i)})
				}
				s := &core.Spec{Name: "shared", PatternSyntax: syntax, Nodes: map[string]*core.Node{}}
				for i := range texts {
					s.Nodes[fmt.Sprintf("t%d", i)] = &core.Node{}
				}
				switch sharing {
				case "branches":
					shared := &core.Branches{Type: "message", Branches: bs}
					s.Nodes["start"] = &core.Node{Branches: shared}
					s.Nodes["again"] = &core.Node{Branches: shared}
				case "node":
					n := &core.Node{Branches: &core.Branches{Type: "message", Branches: bs}}
					s.Nodes["start"] = n
					s.Nodes["again"] = n
				default:
					s.Nodes["start"] = &core.Node{Branches: &core.Branches{Type: "message", Branches: bs}}
					s.Nodes["again"] = &core.Node{Branches: &core.Branches{Type: "message", Branches: append([]*core.Branch{}, bs...)}}
				}
				return s
			}
			shared := mk()
			js, err := json.Marshal(mk())
			var plain core.Spec
			if err == nil {
				err = json.Unmarshal(js, &plain)
			}
			if err != nil {
				rec.Inconclusive("shared structures: rendering: " + err.Error())
				return
			}
			replay := map[string]interface{}{"sharing": sharing, "patternSyntax": syntax, "patterns": texts}
			e1 := shared.Compile(context.Background(), nil, true)
			e2 := plain.Compile(context.Background(), nil, true)
			rec.Eval(2)
			if (e1 == nil) != (e2 == nil) {
				rec.Violation("C13:shared-go-structures:compile", fmt.Sprintf("the spec as Go structures that share a %s: compile error %v; its JSON rendering: %v", sharing, e1, e2), replay)
				continue
			}
			if e1 != nil {
				continue
			}
			pats := func(s *core.Spec) string {
				var l []interface{}
				for _, nm := range []string{"start", "again"} {
					for _, b := range s.Nodes[nm].Branches.Branches {
						l = append(l, b.Pattern)
					}
				}
				return fw.Canon(l)
			}
			if pats(shared) != pats(&plain) {
				rec.Violation("C13:shared-go-structures:patterns", fmt.Sprintf("the spec as Go structures that share a %s compiles to the patterns %s; its JSON rendering to %s", sharing, pats(shared), pats(&plain)), replay)
				continue
			}
			same := true
			for _, msg := range []interface{}{"42", 42.0, true, "true", "null", "hello", "x", "?m", map[string]interface{}{"a": 1.0}, []interface{}{"a"}} {
				t1, ok1 := trace(rec, replay, shared, nil, []interface{}{msg})
				t2, ok2 := trace(rec, replay, &plain, nil, []interface{}{msg})
				if ok1 && ok2 && t1 != t2 {
					rec.Violation("C13:shared-go-structures:behaviour", fmt.Sprintf("on %s the spec as Go structures that share a %s gives %s; its JSON rendering gives %s", fw.Short(msg), sharing, fw.Short(t1), fw.Short(t2)), replay)
					same = false
				}
			}
			if same {
				rec.Bucket("go_structures_with_shared_parts_agree_with_their_rendering")
			}
		}
	}
}

func Run(cfg fw.Config, rec *fw.Rec) {
	sharedStructures(rec)
	typedNilPatterns(rec)
	rec.Rule = "Go structures in which two nodes share one *Branches / one *Node has two names / one *Branch is in two lists (bare-string JSON-text patterns under patternSyntax json) must compile to what their JSON rendering compiles to; so must Go structures whose pattern is a typed nil (nil map, nil list, nil []string, below a key, in a list: null in JSON); each abstract spec (random node graph, guards, actions, all error settings, plus a start node whose message-branch patterns cover every JSON shape at the top level: map, array, bare string, bare variable, number, boolean, null, property variable) is rendered as Go structures, JSON, YAML via jsccast/yaml, and through sio's URL loader (YAML and JSON files) and inline loader, each with inline patterns and with JSON-text patterns under patternSyntax json, each compiled once / three times / compiled-serialised-reloaded-compiled (42 variants incl. Go structures whose inline patterns are typed Go containers such as map[string]string, []string, []int), and with every name the standard interpreter map offers for the ECMAScript interpreter ('', ecmascript, ecmascript-5.1, ecmascript-ext, ecmascript-5.1-ext, goja), compiled with that map, once and reloaded (12 more); all must compile and give identical traces on shared message sequences; unknown interpreter (also: a name only the standard map knows, compiled with the default interpreters; an unknown name with the standard map) / pattern syntax / branching type must fail at Compile; non-trivial = spec whose trace has >= 3 strides; distinct by spec"
	rec.Required = []string{"go_structures_with_shared_parts_agree_with_their_rendering", "typed_nil_patterns_agree_with_their_rendering", "variants_agree", "negative_unknown_interpreter", "negative_standard_only_name_with_default_interpreters", "negative_unknown_interpreter_with_standard_map", "negative_unknown_pattern_syntax", "negative_unknown_pattern_syntax_without_patterns", "spec_repaired_after_a_failed_compile_equals_clean", "negative_unknown_branching_type", "string_pattern_as_json_text", "traces_with_scalar_messages"}
	rec.Assume = []string{"specs are deterministic", "the YAML rendering is block style with JSON flow scalars/collections for patterns"}
	n := cfg.Pick(400, 20000)
	fw.Parallel(cfg.Workers, n, func(w, i int) {
		r := cfg.Rng("c13", i)
		u := &gen.Uid{Prefix: fmt.Sprintf("v%d_", i)}
		a := gen.GenSpec(r, gen.SpecOpts{MaxNodes: 4, Inspect: i%2 == 0, Prog: gen.ProgOpts{Fail: true, BadRet: true, Emit: true}}, u)
		// start node: message branching over patterns of every JSON shape
		start := &ref.ANode{Branching: &ref.ABranching{Type: "message"}}
		names := a.NodeNames()
		for k := 0; k < 2+r.Intn(3); k++ {
			p := shapes[r.Intn(len(shapes))]
			b := &ref.ABranch{HasPattern: p != nil, Pattern: p, Target: names[r.Intn(len(names))]}
			if s, ok := p.(string); ok {
				_ = s
				rec.Bucket("string_pattern_as_json_text")
			}
			start.Branching.Branches = append(start.Branching.Branches, b)
		}
		a.Nodes["start"] = start
		bs := gen.GenBindings(r, names)
		var msgs []interface{}
		scalarMsg := false
		for k := 0; k < 2+r.Intn(4); k++ {
			switch r.Intn(8) {
			case 0:
				msgs = append(msgs, "lit")
				scalarMsg = true
			case 1:
				msgs = append(msgs, 5.0)
				scalarMsg = true
			case 2:
				msgs = append(msgs, []interface{}{"a", "b"})
			case 3:
				msgs = append(msgs, true)
				scalarMsg = true
			default:
				msgs = append(msgs, gen.GenAnyMessage(r, u.Next("m"), names))
			}
		}
		replay := map[string]interface{}{"spec": a, "state": bs, "messages": msgs}
		vs := variants(a, cfg.WorkDir, i)
		var baseTrace, baseName string
		var mixedTrace, mixedName string
		ok := true
		for _, v := range vs {
			rec.Eval(1)
			if v.Err != nil {
				loader := strings.SplitN(v.Name, "/", 2)
				rec.Violation("C13:variant-does-not-compile:"+loader[0]+"/"+loader[1], "representation "+v.Name+" of a valid spec is rejected: "+v.Err.Error(), map[string]interface{}{"case": replay, "variant": v.Name})
				ok = false
				continue
			}
			tr, good := trace(rec, replay, v.Spec, bs, msgs)
			if !good {
				ok = false
				continue
			}
			if strings.Contains(tr, "uncompiled action") || strings.Contains(tr, "interpreter not found") || strings.Contains(tr, "not compiled") {
				rec.Violation("C13:compile-problem-at-run-time", "a compiled variant reports a compilation problem at run time: "+fw.Short(tr), map[string]interface{}{"case": replay, "variant": v.Name})
				ok = false
				continue
			}
			if strings.HasPrefix(v.Name, "mixed-native") {
				if mixedName == "" {
					mixedTrace, mixedName = tr, v.Name
				} else if tr != mixedTrace {
					rec.Violation("C13:variant-behaves-differently:"+v.Name, fmt.Sprintf("%s and %s behave differently:\n %s\n %s", mixedName, v.Name, fw.Short(mixedTrace), fw.Short(tr)), map[string]interface{}{"case": replay, "variant": v.Name})
					ok = false
				}
				continue
			}
			if baseName == "" {
				baseTrace, baseName = tr, v.Name
				continue
			}
			if tr != baseTrace {
				loader := strings.SplitN(v.Name, "/", 2)
				rec.Violation("C13:variant-behaves-differently:"+loader[0]+"/"+loader[1], fmt.Sprintf("%s and %s behave differently:\n %s\n %s", baseName, v.Name, fw.Short(baseTrace), fw.Short(tr)), map[string]interface{}{"case": replay, "variant": v.Name})
				ok = false
			}
		}
		if ok {
			rec.Bucket("variants_agree")
			rec.BucketN("variants_compared", int64(len(vs)))
			if scalarMsg {
				rec.Bucket("traces_with_scalar_messages")
			}
			if strings.Count(baseTrace, `"from"`) >= 3 {
				rec.Nontrivial(fw.Canon(a))
				if i%100 == 1 {
					rec.Sample(map[string]interface{}{"case": replay, "variants": len(vs), "trace": baseTrace})
				}
			}
		}
		// negatives
		neg := func(name string, mutate func(s *core.Spec) bool) {
			s := a.Core(false, ref.NativeNilErr)
			if !mutate(s) {
				return
			}
			err := s.Compile(context.Background(), nil, true)
			rec.Eval(1)
			if err == nil {
				rec.Violation("C13:accepted-at-compile:"+name, "a spec with an "+name+" compiles without error", map[string]interface{}{"case": replay})
				return
			}
			rec.Bucket("negative_" + name)
		}
		neg("unknown_interpreter", func(s *core.Spec) bool {
			for _, nm := range a.NodeNames() {
				n := s.Nodes[nm]
				if n.ActionSource != nil {
					n.ActionSource.Interpreter = "no-such-interpreter"
					return true
				}
				if n.Branches != nil {
					for _, b := range n.Branches.Branches {
						if b.GuardSource != nil {
							b.GuardSource.Interpreter = "no-such-interpreter"
							return true
						}
					}
				}
			}
			return false
		})
		// a name only the standard map knows is unknown to the default interpreters, and an
		// unknown name is unknown to the standard map too
		negWith := func(name string, interps core.Interpreters, label string) {
			s := a.Core(false, ref.NativeNilErr)
			if relabel(s, label) == 0 {
				return
			}
			err := s.Compile(context.Background(), interps, true)
			rec.Eval(1)
			if err == nil {
				rec.Violation("C13:accepted-at-compile:"+name, fmt.Sprintf("a spec whose sources name the interpreter %q compiles without error although the interpreters given do not offer it", label), map[string]interface{}{"case": replay})
				return
			}
			rec.Bucket("negative_" + name)
		}
		negWith("standard_only_name_with_default_interpreters", nil, "goja")
		negWith("unknown_interpreter_with_standard_map", interpreters.Standard(), "ecmascript-6")
		negWith("noop_name_with_default_interpreters", nil, "noop")
		neg("unknown_pattern_syntax", func(s *core.Spec) bool {
			s.PatternSyntax = "no-such-syntax"
			for _, n := range s.Nodes {
				if n.Branches != nil && len(n.Branches.Branches) > 0 {
					return true
				}
			}
			return false
		})
		// ... also when the spec has no pattern that could be parsed
		{
			s := &core.Spec{Name: "no-patterns", PatternSyntax: "no-such-syntax", Nodes: map[string]*core.Node{"start": {}}}
			err := s.Compile(context.Background(), nil, true)
			rec.Eval(1)
			if err == nil {
				rec.Violation("C13:accepted-at-compile:unknown_pattern_syntax_without_patterns", "a spec without patterns and with an unknown pattern syntax compiles without error (its syntax now reads "+fmt.Sprintf("%q", s.PatternSyntax)+")", "spec without patterns")
			} else {
				rec.Bucket("negative_unknown_pattern_syntax_without_patterns")
			}
		}
		// ... or no nodes at all (a document that is only a header)
		for _, doc := range []string{`{"name":"header","patternSyntax":"no-such-syntax"}`, `{"patternSyntax":"bogus","nodes":null}`} {
			var s core.Spec
			if json.Unmarshal([]byte(doc), &s) != nil {
				continue
			}
			err := s.Compile(context.Background(), nil, true)
			rec.Eval(1)
			if err == nil {
				rec.Violation("C13:accepted-at-compile:unknown_pattern_syntax_without_nodes", "the spec "+doc+" (an unknown pattern syntax, no nodes) compiles without error", doc)
			} else {
				rec.Bucket("negative_unknown_pattern_syntax_without_nodes")
			}
		}
		// a compilation that fails part way must leave the spec as it was: once the bad
		// pattern is repaired it compiles to the same machine as a spec that was never broken
		if i%4 == 0 {
			mk := func(broken bool) *core.Spec {
				s := a.Core(false, ref.NativeNilErr)
				s.PatternSyntax = "json"
				for _, n := range s.Nodes {
					if n.Branches != nil {
						for _, b := range n.Branches.Branches {
							if b.Pattern != nil {
								js, _ := json.Marshal(b.Pattern)
								b.Pattern = string(js)
							}
						}
					}
				}
				// string-literal patterns (JSON text of a JSON string) and, if broken, one that does not parse
				s.Nodes["zz_lit"] = &core.Node{Branches: &core.Branches{Type: "message", Branches: []*core.Branch{
					{Pattern: `"\"1\""`, Target: "start"}, {Pattern: `"lit"`, Target: "start"}}}}
				s.Nodes["aa_lit"] = &core.Node{Branches: &core.Branches{Type: "message", Branches: []*core.Branch{
					{Pattern: `"\"2\""`, Target: "start"}}}}
				bad := `{"ok":1}`
				if broken {
					bad = `{"not json`
				}
				s.Nodes["mm_bad"] = &core.Node{Branches: &core.Branches{Type: "message", Branches: []*core.Branch{{Pattern: bad, Target: "start"}}}}
				return s
			}
			clean, repaired := mk(false), mk(true)
			e0 := clean.Compile(context.Background(), nil, true)
			e1 := repaired.Compile(context.Background(), nil, true)
			if e0 == nil && e1 != nil {
				repaired.Nodes["mm_bad"].Branches.Branches[0].Pattern = `{"ok":1}`
				e2 := repaired.Compile(context.Background(), nil, true)
				rec.Eval(3)
				pat := func(s *core.Spec) string {
					return fw.Canon([]interface{}{s.Nodes["zz_lit"].Branches.Branches[0].Pattern, s.Nodes["zz_lit"].Branches.Branches[1].Pattern, s.Nodes["aa_lit"].Branches.Branches[0].Pattern, s.Nodes["mm_bad"].Branches.Branches[0].Pattern})
				}
				if e2 != nil || pat(clean) != pat(repaired) {
					rec.Violation("C13:repaired-spec-differs", fmt.Sprintf("a spec whose compilation failed (one pattern was not JSON) and that was then repaired compiles to patterns %s (error %v); the same spec never broken compiles to %s", pat(repaired), e2, pat(clean)), replay)
				} else {
					rec.Bucket("spec_repaired_after_a_failed_compile_equals_clean")
				}
			}
		}
		neg("unknown_branching_type", func(s *core.Spec) bool {
			for _, nm := range a.NodeNames() {
				if n := s.Nodes[nm]; n.Branches != nil {
					n.Branches.Type = "no-such-type"
					return true
				}
			}
			return false
		})
	})
}
