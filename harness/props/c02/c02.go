// Package c02: Match completeness.  Planted-witness monitor, brute-force
// embedding differential on the plain-variable fragment, and an exhaustive
// small space over a two-letter alphabet.
package c02

import (
	"fmt"
	"sort"
	"time"

	"github.com/Comcast/sheens/match"

	"verif/fw"
	"verif/gen"
	"verif/props/c01"
	"verif/ref"
)

func callMatch(rec *fw.Rec, replay interface{}, p, m interface{}, in map[string]interface{}) (bss []match.Bindings, err error, panicked bool) {
	bs := match.Bindings{}
	if in != nil {
		bs = match.Bindings(fw.Deep(in).(map[string]interface{}))
	}
	panicked = rec.Guard("C02", replay, func() { bss, err = match.Match(p, m, bs) })
	return
}

// shifted returns a copy of x with every number moved by d.
func shifted(x interface{}, d float64) interface{} {
	switch t := x.(type) {
	case float64:
		return t + d
	case map[string]interface{}:
		m := make(map[string]interface{}, len(t))
		for k, v := range t {
			m[k] = shifted(v, d)
		}
		return m
	case []interface{}:
		l := make([]interface{}, len(t))
		for i, v := range t {
			l[i] = shifted(v, d)
		}
		return l
	}
	return x
}

// callMatchAfterOthers: a host matches many messages (and every branch of a node) against one
// bindings object.  The same object is first used for matches against neighbouring messages
// (every number one less, one more) and against the message itself; then comes the call
// that is judged.
func callMatchAfterOthers(rec *fw.Rec, replay interface{}, p, m interface{}, in map[string]interface{}) (bss []match.Bindings, err error, panicked bool) {
	bs := match.Bindings{}
	if in != nil {
		bs = match.Bindings(fw.Deep(in).(map[string]interface{}))
	}
	panicked = rec.Guard("C02", replay, func() {
		match.Match(p, shifted(m, -1), bs)
		match.Match(p, shifted(m, 1), bs)
		match.Match(p, fw.Deep(m), bs)
		bss, err = match.Match(p, m, bs)
	})
	return
}

// planted: the planted assignment must be among the results.
func planted(cfg fw.Config, rec *fw.Rec, idx int) {
	r := cfg.Rng("c02-planted", idx)
	opts := gen.Full
	mode := idx % 4
	if mode > 1 {
		mode = 1
	}
	mc := gen.GenMatchCase(r, opts, mode)
	vi := ref.Vars(mc.Pattern)
	if !vi.Supported || !mc.Embedded {
		rec.Bucket("generator_outside_fragment")
		return
	}
	in := mc.In
	if idx%5 == 3 && len(in) > 0 {
		// the given bindings as Go code (or an action's result that never went through JSON)
		// has them: whole numbers as int, int64, float32
		typed := gen.GoTyped(r, in, nil, true).(map[string]interface{})
		if fw.Diff(in, typed) != "" {
			in = typed
			mc.In = typed
			rec.Bucket("planted_with_go_typed_numbers_in_the_given_bindings")
		}
	}
	call := callMatch
	if idx%3 == 1 {
		call = callMatchAfterOthers
		rec.Bucket("planted_judged_after_other_matches_with_the_same_bindings_object")
	}
	bss, err, panicked := call(rec, mc, mc.Pattern, mc.Message, in)
	if panicked {
		return
	}
	rec.Eval(1)
	rec.Bucket("planted_" + mc.Kind)
	if err != nil {
		rec.Violation("C02:error-on-planted", "Match returned an error for a supported pattern with a planted embedding: "+err.Error(), mc)
		return
	}
	absent := map[string]bool{}
	for _, a := range mc.Absent {
		absent[a] = true
	}
	found := false
	for _, bs := range bss {
		ok := true
		for k, v := range mc.Planted {
			got, have := bs[k]
			if !have || fw.Canon(got) != fw.Canon(v) {
				ok = false
				break
			}
		}
		if !ok {
			continue
		}
		for k := range bs {
			if _, have := mc.Planted[k]; !have {
				if !(absent[k] && mode == 1) {
					ok = false
				}
			}
		}
		if ok {
			found = true
			break
		}
	}
	if !found {
		cls := "planted-missing"
		if len(bss) == 0 {
			cls = "planted-no-match"
		}
		rec.Violation("C02:"+cls+":"+featureClass(mc), fmt.Sprintf("planted assignment %s is not among the %d returned binding sets", fw.Short(mc.Planted), len(bss)),
			map[string]interface{}{"case": mc, "results": bss})
		return
	}
	if len(vi.Count) > 0 {
		rec.Nontrivial(fw.Canon([]interface{}{mc.Pattern, mc.Message, mc.In}))
		for _, f := range mc.Features {
			rec.Bucket(f)
		}
		if len(bss) > 1 {
			rec.Bucket("planted_found_among_several")
		}
		if idx%40000 == 11 {
			rec.Sample(map[string]interface{}{"case": mc, "results": len(bss)})
		}
	}
}

// featureClass makes the signature of a completeness failure specific to the
// pattern features involved (so a different failure is still reported).
func featureClass(mc *gen.MatchCase) string {
	keep := map[string]bool{"optional": true, "inequality": true, "anonymous": true, "property_variable": true, "array_variable": true, "prebound_variable": true, "repeated_variable": true, "nested_array": true, "anonymous_property": true}
	var fs []string
	for _, f := range mc.Features {
		if keep[f] {
			fs = append(fs, f)
		}
	}
	sort.Strings(fs)
	s := ""
	for _, f := range fs {
		s += f + "+"
	}
	return s
}

// judgeSets compares the returned sets with the brute-force embeddings.
// onceOnly: every variable occurs once, so equality of sets is required;
// otherwise completeness is required only for assignments whose repeated
// variables are scalar, and soundness is left to the witness checker.
func judgeSets(rec *fw.Rec, tag string, mc *gen.MatchCase, vi *ref.VarInfo, bss []match.Bindings, cs *ref.Cands) bool {
	if !ref.SetArrays(mc.Message) {
		rec.Bucket(tag + "_unjudged_message_array_not_a_set")
		return false
	}
	if cs == nil {
		cs = ref.Candidates(mc.Message)
	}
	emb, ok := ref.EmbeddingsC(mc.Pattern, mc.Message, vi, 4000, cs)
	if !ok {
		rec.Bucket(tag + "_unjudged_too_many_candidates")
		return false
	}
	got := map[string]bool{}
	for _, bs := range bss {
		got[fw.Canon(bs)] = true
	}
	once := true
	for _, n := range vi.Count {
		if n > 1 {
			once = false
		}
	}
	for _, e := range emb {
		if !once {
			scalar := true
			for v, n := range vi.Count {
				if n > 1 && !gen.IsScalar(e[v]) {
					scalar = false
				}
			}
			if !scalar {
				continue
			}
		}
		if !got[fw.Canon(e)] {
			rec.Violation("C02:"+tag+":embedding-not-returned", fmt.Sprintf("embedding %s exists but is not among the %d results", fw.Short(e), len(bss)),
				map[string]interface{}{"case": mc, "results": bss})
			return true
		}
	}
	if once {
		want := ref.CanonSet(emb)
		for _, bs := range bss {
			if !want[fw.Canon(bs)] {
				rec.Violation("C02:"+tag+":result-not-an-embedding", fmt.Sprintf("result %s is not an embedding of the pattern", fw.Short(bs)),
					map[string]interface{}{"case": mc, "results": bss})
				return true
			}
		}
		rec.Bucket(tag + "_set_equality_checked")
	} else {
		rec.Bucket(tag + "_completeness_checked_repeated_vars")
	}
	if len(emb) > 1 {
		rec.Bucket(tag + "_several_embeddings")
	}
	if len(emb) == 0 {
		rec.Bucket(tag + "_no_embedding")
	}
	return false
}

func plainOnce(cfg fw.Config, rec *fw.Rec, idx int) {
	r := cfg.Rng("c02-plain", idx)
	mc := gen.GenMatchCase(r, gen.PlainOnce, []int{0, 1, 1, 1, 2, 3}[idx%6])
	vi := ref.Vars(mc.Pattern)
	if !vi.Supported {
		return
	}
	bss, err, panicked := callMatch(rec, mc, mc.Pattern, mc.Message, nil)
	if panicked {
		return
	}
	rec.Eval(1)
	if err != nil {
		rec.Violation("C02:error-on-plain", "Match returned an error for a supported plain pattern: "+err.Error(), mc)
		return
	}
	if judgeSets(rec, "plain", mc, vi, bss, nil) {
		return
	}
	if len(vi.Count) > 0 && len(bss) > 0 {
		rec.Nontrivial(fw.Canon([]interface{}{mc.Pattern, mc.Message}))
		if idx%60000 == 5 {
			rec.Sample(map[string]interface{}{"plain_case": mc, "results": bss})
		}
	}
}

func exhaustive(cfg fw.Config, rec *fw.Rec) {
	pn, mn := 4, 4
	if cfg.Thorough() {
		pn, mn = 5, 5
	}
	leavesP := []interface{}{"a", "b", "?x", "?y"}
	leavesM := []interface{}{"a", "b"}
	pats := gen.Terms(pn, leavesP, []string{"a", "b"}, []string{"?x", "?y"}, false)
	msgs := gen.Terms(mn, leavesM, []string{"a", "b"}, nil, true)
	var sup []interface{}
	var infos []*ref.VarInfo
	for _, p := range pats {
		vi := ref.Vars(p)
		if vi.Supported {
			sup = append(sup, p)
			infos = append(infos, vi)
		}
	}
	cands := make([]*ref.Cands, len(msgs))
	for i, m := range msgs {
		cands[i] = ref.Candidates(m)
	}
	rec.SetExtra("exhaustive_patterns", len(sup))
	rec.SetExtra("exhaustive_messages", len(msgs))
	rec.SetExtra("exhaustive_bounds", fmt.Sprintf("pattern<=%d nodes, message<=%d nodes, alphabet {a,b}, variables {?x,?y}", pn, mn))
	fw.Parallel(cfg.Workers, len(sup), func(w, pi int) {
		p := sup[pi]
		vi := infos[pi]
		for mi, m := range msgs {
			mc := &gen.MatchCase{Pattern: p, Message: m, In: map[string]interface{}{}, Kind: "exhaustive"}
			bss, err, panicked := callMatch(rec, mc, p, m, nil)
			if panicked {
				continue
			}
			rec.Eval(1)
			rec.Bucket("exhaustive_pairs")
			if err != nil {
				rec.Violation("C02:exhaustive:error-on-supported", "Match returned an error for a supported pattern: "+err.Error(), mc)
				continue
			}
			for _, bs := range bss {
				if cls, why := c01.CheckResult(mc, vi, bs); cls != "" {
					rec.Violation("C02:exhaustive:unsound:"+cls, why, map[string]interface{}{"case": mc, "result": bs})
				}
			}
			if judgeSets(rec, "exhaustive", mc, vi, bss, cands[mi]) {
				continue
			}
			if len(bss) > 0 && len(vi.Count) > 0 {
				rec.Nontrivial(fw.Canon([]interface{}{p, m}))
			}
		}
	})
	rec.Sample(map[string]interface{}{"exhaustive_example_pattern": sup[len(sup)/2], "exhaustive_example_message": msgs[len(msgs)/2]})
}

func Run(cfg fw.Config, rec *fw.Rec) {
	rec.Rule = "(1) planted: pattern + assignment -> instantiated message, exact or inflated with extra properties/elements/broken clones at every depth; the planted assignment must be among the results - for a third of the cases after three other matches (the message with every number one less, one more, and itself) that were given the same bindings object; (2) plain-variable fragment: result set == brute-force set of embeddings; (3) exhaustive: all supported patterns x messages over alphabet {a,b}, variables {?x,?y} up to a node bound, soundness + completeness decided per pair (this sub-space is enumerated completely); non-trivial = >=1 variable and >=1 result; distinct by canonical (pattern,message,bindings)"
	rec.Required = []string{"planted_inflated", "planted_planted", "plain_set_equality_checked", "plain_several_embeddings", "exhaustive_pairs", "exhaustive_set_equality_checked", "exhaustive_completeness_checked_repeated_vars", "optional_absent", "inequality", "property_variable", "array_variable", "prebound_variable", "repeated_variable", "planted_with_go_typed_numbers_in_the_given_bindings", "planted_judged_after_other_matches_with_the_same_bindings_object"}
	rec.Assume = []string{"completeness is judged only under the property's side conditions: arrays are sets, a value planted under an array variable differs from the array's other members, repeated variables take scalar values", "brute-force candidates are the sub-terms / property names of the message"}
	t0 := time.Now()
	fw.Parallel(cfg.Workers, cfg.Pick(300000, 6000000), func(w, idx int) { planted(cfg, rec, idx) })
	t1 := time.Now()
	fw.Parallel(cfg.Workers, cfg.Pick(150000, 2000000), func(w, idx int) { plainOnce(cfg, rec, idx) })
	t2 := time.Now()
	exhaustive(cfg, rec)
	rec.SetExtra("phase_seconds", map[string]float64{"planted": t1.Sub(t0).Seconds(), "plain": t2.Sub(t1).Seconds(), "exhaustive": time.Since(t2).Seconds()})
	rec.SetExtra("exhaustive_subspace", true)
}
