package gen

import (
	"fmt"
	"math/rand"

	"verif/ref"
)

// BKeys are the binding names actions work on.
var BKeys = []string{"a", "b", "n", "log", "t", "cfg!", "p!"}

// ProgOpts tunes program generation.
type ProgOpts struct {
	Fail    bool // may contain fail ops
	Loop    bool // may contain loop ops (needs a deadline)
	BadRet  bool // may return a non-object
	Guard   bool // guard: may reject (null / cond)
	Emit    bool
	Targets []string // node names, for "t" bindings used by @t targets
}

// Uid hands out unique ids for emissions and failure markers.
type Uid struct {
	Prefix string
	N      int
}

func (u *Uid) Next(kind string) string {
	u.N++
	return fmt.Sprintf("%s%s%d", u.Prefix, kind, u.N)
}

func smallValue(r *rand.Rand, o ProgOpts) interface{} {
	switch r.Intn(8) {
	case 0:
		return []interface{}{1.0, "a"}
	case 1:
		return map[string]interface{}{"k": float64(r.Intn(3))}
	case 2:
		if len(o.Targets) > 0 {
			return o.Targets[r.Intn(len(o.Targets))]
		}
		return "s"
	case 3:
		return 1.5
	case 4:
		return nil
	default:
		return Scalar(r)
	}
}

func genOps(r *rand.Rand, o ProgOpts, u *Uid, depth int) []ref.Op {
	n := r.Intn(4)
	var ops []ref.Op
	for i := 0; i < n; i++ {
		k := BKeys[r.Intn(len(BKeys))]
		switch c := r.Intn(15); {
		case c == 14:
			// look inside a structured binding - above all the engine's own "lastBindings"
			ops = append(ops, ref.Op{Op: "copyin", K: k, K2: []string{"lastBindings", "lastBindings", "b"}[r.Intn(3)], V: BKeys[r.Intn(len(BKeys))]})
		case c < 3:
			if k == "t" && len(o.Targets) > 0 {
				ops = append(ops, ref.Op{Op: "set", K: k, V: o.Targets[r.Intn(len(o.Targets))]})
			} else {
				ops = append(ops, ref.Op{Op: "set", K: k, V: smallValue(r, o)})
			}
		case c == 3:
			ops = append(ops, ref.Op{Op: "copy", K: k, K2: BKeys[r.Intn(len(BKeys))]})
		case c == 4:
			ops = append(ops, ref.Op{Op: "del", K: k})
		case c == 5:
			ops = append(ops, ref.Op{Op: "inc", K: "n"})
		case c == 6:
			ops = append(ops, ref.Op{Op: "push", K: "log", V: Scalar(r)})
		case c == 7:
			ops = append(ops, ref.Op{Op: "keep", Ks: []string{BKeys[r.Intn(len(BKeys))], BKeys[r.Intn(len(BKeys))]}})
		case c == 8 || c == 9:
			if o.Emit {
				if r.Intn(2) == 0 {
					ops = append(ops, ref.Op{Op: "emit", V: map[string]interface{}{"id": u.Next("e"), "x": Scalar(r)}})
				} else {
					ops = append(ops, ref.Op{Op: "emitb", K: k, V: map[string]interface{}{"id": u.Next("e")}})
				}
			}
		case c == 10 && depth > 0:
			ops = append(ops, ref.Op{Op: "ifhas", K: k, Then: genOps(r, o, u, depth-1), Else: genOps(r, o, u, depth-1)})
		case c == 11 && depth > 0:
			ops = append(ops, ref.Op{Op: "ifeq", K: k, V: Scalar(r), Then: genOps(r, o, u, depth-1), Else: genOps(r, o, u, depth-1)})
		case c == 12:
			if o.Fail && r.Intn(2) == 0 {
				ops = append(ops, ref.Op{Op: "fail", V: u.Next("F")})
			}
		case c == 13:
			if o.Loop && r.Intn(4) == 0 {
				ops = append(ops, ref.Op{Op: "loop"})
			}
		}
	}
	return ops
}

// GenProg generates a program.
func GenProg(r *rand.Rand, o ProgOpts, u *Uid) *ref.Prog {
	p := &ref.Prog{Ops: genOps(r, o, u, 1), Ret: "same"}
	switch c := r.Intn(12); {
	case c == 0:
		p.Ret = "fresh"
		p.Fresh = map[string]interface{}{"a": Scalar(r)}
		if r.Intn(2) == 0 {
			p.Fresh = map[string]interface{}{}
		}
	case c == 1 && !o.Guard:
		p.Ret = "null"
	case c == 2 && o.BadRet:
		p.Ret = []string{"number", "string", "array", "func", "nan", "bool"}[r.Intn(6)]
	case c <= 4 && o.Guard:
		p.Ret = "null"
	case c <= 6 && o.Guard:
		p.Ret = "cond"
		p.CondKey = BKeys[r.Intn(len(BKeys))]
	}
	return p
}

// SpecOpts tunes spec generation.
type SpecOpts struct {
	MaxNodes   int
	Prog       ProgOpts
	GuardMulti bool // allow guarded branches whose pattern may yield several candidates
	MsgOnly    bool
	Inspect    bool // bindings-branch patterns that look inside values stored by actions
	// ActionWithMessageBranching: some nodes have both an action and message branching -
	// Compile accepts them, a step at such a node is an error (and Walk moves to the error node)
	ActionWithMessageBranching bool
}

var nodeNames = []string{"start", "n1", "n2", "n3", "n4", "error", "aerr"}

// branch patterns over messages / bindings
func branchPattern(r *rand.Rand, forMessage bool, inspect bool) (interface{}, bool) {
	if r.Intn(6) == 0 {
		return nil, false
	}
	if inspect && !forMessage && r.Intn(2) == 0 {
		switch r.Intn(12) {
		case 0:
			return map[string]interface{}{"a": []interface{}{1.0}}, true
		case 1:
			return map[string]interface{}{"a": []interface{}{1.0, "a"}}, true
		case 2:
			return map[string]interface{}{"b": map[string]interface{}{"k": float64(r.Intn(3))}}, true
		case 3:
			return map[string]interface{}{"log": []interface{}{float64(r.Intn(3))}}, true
		case 4:
			return map[string]interface{}{"a": "?x", "b": "?x"}, true
		case 5:
			return map[string]interface{}{"lastBindings": map[string]interface{}{"n": "?q"}}, true
		case 6:
			return map[string]interface{}{"lastBindings": map[string]interface{}{"a": []interface{}{1.0}}, "lastNode": "?ln"}, true
		case 7:
			return map[string]interface{}{"n": "?<lim"}, true
		case 8:
			return map[string]interface{}{"a": 1.5}, true
		case 9:
			return map[string]interface{}{"a": nil}, true
		case 10:
			return map[string]interface{}{"a": []interface{}{"?e"}, "n": "?e"}, true
		default:
			return map[string]interface{}{"b": map[string]interface{}{"k": "?kk"}, "n": "?kk"}, true
		}
	}
	if inspect && forMessage && r.Intn(3) == 0 {
		switch r.Intn(3) {
		case 0:
			return map[string]interface{}{"k": "?<lim"}, true
		case 1:
			return map[string]interface{}{"k": "?n0"}, true
		default:
			return map[string]interface{}{"l": []interface{}{"?e"}, "k": "?>=lim"}, true
		}
	}
	if forMessage {
		switch r.Intn(10) {
		case 8:
			// an optional variable: the message may have fewer properties than the pattern
			return map[string]interface{}{"uid": "?u", "opt": "??o"}, true
		case 9:
			return map[string]interface{}{"k": "??ok", "t": "??ot", "uid": "?u"}, true
		case 0:
			if r.Intn(3) == 0 {
				// a bare scalar constant: matches the message that is that scalar
				return []interface{}{"go", 5.0, true}[r.Intn(3)], true
			}
			return "?m", true
		case 1:
			return map[string]interface{}{"k": "?v"}, true
		case 2:
			return map[string]interface{}{"k": float64(r.Intn(3))}, true
		case 3:
			return map[string]interface{}{"t": "?t"}, true
		case 4:
			return map[string]interface{}{"uid": "?u", "k": float64(r.Intn(3))}, true
		case 5:
			if r.Intn(2) == 0 {
				// the variable first, constants after it
				return map[string]interface{}{"l": []interface{}{"?e", "p"}}, true
			}
			return map[string]interface{}{"l": []interface{}{"?e"}}, true
		case 6:
			return map[string]interface{}{}, true
		default:
			return map[string]interface{}{"uid": "?u"}, true
		}
	}
	switch r.Intn(10) {
	case 8:
		return map[string]interface{}{"a": "?x", "zz": "??oz"}, true
	case 9:
		return map[string]interface{}{"zz": "??oz", "yy": "??oy"}, true
	case 0:
		return map[string]interface{}{"a": "?x"}, true
	case 1:
		return map[string]interface{}{"a": Scalar(r)}, true
	case 2:
		return map[string]interface{}{"n": float64(1 + r.Intn(3))}, true
	case 3:
		return map[string]interface{}{"actionError": "?ae"}, true
	case 4:
		return map[string]interface{}{"t": "?t"}, true
	case 5:
		return map[string]interface{}{"log": []interface{}{"?e"}}, true
	case 6:
		return map[string]interface{}{"b": map[string]interface{}{"k": "?kk"}}, true
	default:
		return map[string]interface{}{}, true
	}
}

// GenSpec generates an abstract spec.
func GenSpec(r *rand.Rand, o SpecOpts, u *Uid) *ref.ASpec {
	nn := 1 + r.Intn(o.MaxNodes)
	names := append([]string{}, nodeNames[:min(nn, 5)]...)
	if r.Intn(3) == 0 {
		names = append(names, "error")
	}
	a := &ref.ASpec{Name: u.Prefix + "spec", Nodes: map[string]*ref.ANode{}}
	switch r.Intn(6) {
	case 0:
		a.ActionErrorBranches = true
	case 1:
		a.ActionErrorNode = "aerr"
		names = append(names, "aerr")
	case 2:
		a.NoAutoErrorNode = true
	case 3:
		a.ActionErrorBranches = true
		a.ActionErrorNode = "aerr"
	}
	po := o.Prog
	po.Targets = names
	for _, name := range names {
		n := &ref.ANode{}
		kind := r.Intn(10)
		if o.MsgOnly {
			kind = 0
		}
		switch {
		case kind < 4: // message branching
			n.Branching = &ref.ABranching{Type: "message"}
			if o.ActionWithMessageBranching && r.Intn(6) == 0 {
				pa := po
				pa.Guard = false
				n.Action = GenProg(r, pa, u)
			}
		case kind < 8: // action + bindings branching
			if r.Intn(5) > 0 {
				pa := po
				pa.Guard = false
				n.Action = GenProg(r, pa, u)
			}
			n.Branching = &ref.ABranching{Type: "bindings"}
			if r.Intn(4) == 0 {
				n.Branching.Type = ""
			}
		case kind == 8: // terminal
		default: // action with no branching at all
			pa := po
			n.Action = GenProg(r, pa, u)
		}
		if n.Branching != nil {
			nb := r.Intn(4)
			for i := 0; i < nb; i++ {
				pat, has := branchPattern(r, n.Branching.Type == "message", o.Inspect)
				b := &ref.ABranch{HasPattern: has, Pattern: pat}
				switch r.Intn(10) {
				case 0:
					b.Target = "missing"
				case 1:
					b.Target = "@t"
				default:
					b.Target = names[r.Intn(len(names))]
				}
				if r.Intn(4) == 0 {
					pg := po
					pg.Guard = true
					pg.Emit = po.Emit
					b.Guard = GenProg(r, pg, u)
					if !o.GuardMulti && has {
						// patterns with an array variable can yield several candidates
						if m, ok := pat.(map[string]interface{}); ok {
							if _, arr := m["l"]; arr {
								b.Guard = nil
							}
							if _, arr := m["log"]; arr {
								b.Guard = nil
							}
							if _, arr := m["a"].([]interface{}); arr {
								b.Guard = nil
							}
						}
					}
				}
				n.Branching.Branches = append(n.Branching.Branches, b)
			}
		}
		a.Nodes[name] = n
	}
	return a
}

func min(a, b int) int {
	if a < b {
		return a
	}
	return b
}

// GenMessage generates a message for the branch patterns above, carrying a unique uid.
func GenMessage(r *rand.Rand, uid string, targets []string) interface{} {
	m := map[string]interface{}{"uid": uid}
	if r.Intn(2) == 0 {
		m["k"] = float64(r.Intn(3))
	}
	if r.Intn(4) == 0 && len(targets) > 0 {
		m["t"] = targets[r.Intn(len(targets))]
		if r.Intn(5) == 0 {
			m["t"] = oddTarget(r)
		}
	}
	if r.Intn(4) == 0 {
		m["l"] = []interface{}{Scalar(r)}
		if r.Intn(2) == 0 {
			m["l"] = []interface{}{"p", "q"}
		}
	}
	return m
}

// GenAnyMessage is GenMessage, except that one message in eight is a bare scalar.
func GenAnyMessage(r *rand.Rand, uid string, targets []string) interface{} {
	if r.Intn(8) == 0 {
		return []interface{}{"go", 5.0, true, "other"}[r.Intn(4)]
	}
	return GenMessage(r, uid, targets)
}

// oddTarget: what a variable branch target ("@t") may find bound instead of a node name.
func oddTarget(r *rand.Rand) interface{} {
	switch r.Intn(7) {
	case 0:
		return float64(r.Intn(3))
	case 1:
		return true
	case 2:
		return nil
	case 3:
		return map[string]interface{}{"node": "n1"}
	case 4:
		return []interface{}{"n1"}
	case 5:
		return ""
	default:
		return "no-such-node"
	}
}

// GenBindings generates state bindings over BKeys.
func GenBindings(r *rand.Rand, targets []string) map[string]interface{} {
	bs := map[string]interface{}{}
	for _, k := range BKeys {
		if r.Intn(3) == 0 {
			switch k {
			case "n":
				bs[k] = float64(r.Intn(3))
			case "log":
				bs[k] = []interface{}{Scalar(r)}
			case "t":
				if len(targets) > 0 {
					bs[k] = targets[r.Intn(len(targets))]
					if r.Intn(5) == 0 {
						bs[k] = oddTarget(r)
					}
				}
			default:
				bs[k] = smallValue(r, ProgOpts{})
			}
		}
	}
	return bs
}
