package c10

// The extended interpreter's helpers (_.cronNext, _.match, _.randstr is random and left out)
// from many goroutines at once, one compiled source: every execution gets what it gets alone,
// and the race detector watches whatever the helpers keep between calls.

import (
	"context"
	"fmt"
	"sync"

	"github.com/Comcast/sheens/interpreters"
	"github.com/Comcast/sheens/match"

	"verif/fw"
)

func extendedHelpersConcurrently(rec *fw.Rec) {
	interp, have := interpreters.Standard()["ecmascript-ext"]
	if !have {
		rec.Inconclusive("no extended interpreter in the standard map")
		return
	}
	// (expressions whose next occurrence is months away: the answer does not change while this runs)
	src := `var a = _.cronNext("0 0 1 1 *"); var b = _.cronNext("30 4 29 2 *"); var c = _.cronNext("0 0 1 1 *"); var m = _.match({"a":"?x","l":["?e"]}, {"a":1,"l":[1,2]}, {}); return {a: String(a), b: String(b), same: String(a) === String(c), n: m.length};`
	ctx := context.Background()
	code, err := interp.Compile(ctx, src)
	if err != nil {
		rec.Inconclusive("extended helpers: compile: " + err.Error())
		return
	}
	run := func() string {
		exe, err := interp.Exec(ctx, match.Bindings{"n": 1.0}, nil, src, code)
		if err != nil || exe == nil {
			return "error: " + fmt.Sprint(err)
		}
		return fw.Canon(map[string]interface{}(exe.Bs))
	}
	for round := 0; round < 6; round++ {
		// concurrently first (whatever the helpers remember is learnt here), alone afterwards
		var wg sync.WaitGroup
		start := make(chan struct{})
		got := make([]string, 16)
		for g := range got {
			wg.Add(1)
			go func(g int) {
				defer wg.Done()
				<-start
				for k := 0; k < 10; k++ {
					got[g] = run()
				}
			}(g)
		}
		close(start)
		wg.Wait()
		want := run()
		rec.Eval(161)
		for g := range got {
			if got[g] != want {
				rec.Violation("C10:concurrent-differs:extended-helpers", fmt.Sprintf("a script that calls _.cronNext and _.match, run from 16 goroutines: %s; alone: %s", fw.Short(got[g]), fw.Short(want)), "extended helpers, concurrently")
				return
			}
		}
		if len(want) > 6 && want[:6] == "error:" {
			rec.Inconclusive("extended helpers: " + want)
			return
		}
	}
	rec.Bucket("extended_helpers_from_many_goroutines")
}
