package fw

// Part is one child-process kind of a property's workload.
type Part struct {
	Name string
	Race bool // build the child with the race detector
	// InPkg, if non-empty, names the /repo package directory whose in-package
	// test binary (built with -overlay from harness/_inpkg/<dir base>) is the child.
	InPkg string
	// Batches per tier (children started for this part).
	BQ, BT int
	// Children run at once.
	Parallel int
	// HardS is the per-batch watchdog (seconds).
	HardS int
}

// Meta describes how the parent runs one property's workload.
type Meta struct {
	ID    string
	Level string // evidence level
	// HangIsViolation: the property itself says the operation completes.
	HangIsViolation bool
	Parts           []Part
}

func one(id, level string, race bool, hard int) Meta {
	return Meta{ID: id, Level: level, Parts: []Part{{Name: "main", Race: race, BQ: 1, BT: 1, Parallel: 1, HardS: hard}}}
}

var Table = map[string]Meta{
	"C01": one("C01", "exploration", false, 1500),
	"C02": one("C02", "exploration", false, 2400),
	"C03": {ID: "C03", Level: "exploration", Parts: []Part{
		{Name: "seq", BQ: 1, BT: 1, Parallel: 1, HardS: 1500},
		{Name: "conc", Race: true, BQ: 1, BT: 1, Parallel: 1, HardS: 1500},
	}},
	"C04": one("C04", "exploration", false, 2400),
	"C05": one("C05", "exploration", false, 2400),
	"C06": {ID: "C06", Level: "exploration", Parts: []Part{
		{Name: "main", BQ: 1, BT: 1, Parallel: 1, HardS: 1500},
		{Name: "readers", Race: true, BQ: 1, BT: 1, Parallel: 1, HardS: 900},
	}},
	"C07": {ID: "C07", Level: "fault_enumeration", HangIsViolation: true, Parts: []Part{
		{Name: "main", BQ: 8, BT: 32, Parallel: 8, HardS: 900},
	}},
	"C08": one("C08", "exploration", false, 1500),
	"C09": one("C09", "fault_enumeration", false, 1500),
	"C10": {ID: "C10", Level: "exploration", Parts: []Part{
		{Name: "main", Race: true, BQ: 1, BT: 2, Parallel: 1, HardS: 1800},
	}},
	"C11": {ID: "C11", Level: "exploration", HangIsViolation: true, Parts: []Part{
		{Name: "main", BQ: 4, BT: 12, Parallel: 2, HardS: 900},
	}},
	"C12": {ID: "C12", Level: "exploration", Parts: []Part{
		{Name: "main", Race: true, BQ: 3, BT: 10, Parallel: 1, HardS: 1200},
	}},
	"C13": one("C13", "exploration", false, 1500),
	"C14": {ID: "C14", Level: "exploration", HangIsViolation: true, Parts: []Part{
		{Name: "sio", Race: true, BQ: 1, BT: 1, Parallel: 1, HardS: 1500},
		{Name: "mcrew", Race: true, InPkg: "cmd/mcrew", BQ: 1, BT: 1, Parallel: 1, HardS: 1500},
		{Name: "mdb", InPkg: "cmd/mdb", BQ: 1, BT: 1, Parallel: 1, HardS: 1500},
	}},
	"C15": one("C15", "fault_enumeration", false, 1500),
	"C16": {ID: "C16", Level: "fault_enumeration", HangIsViolation: true, Parts: []Part{
		{Name: "mcrew", Race: true, InPkg: "cmd/mcrew", BQ: 1, BT: 1, Parallel: 1, HardS: 2400},
	}},
	"C17": {ID: "C17", Level: "exploration", HangIsViolation: true, Parts: []Part{
		{Name: "mcrew", Race: true, InPkg: "cmd/mcrew", BQ: 1, BT: 1, Parallel: 1, HardS: 2400},
		{Name: "sio", Race: true, BQ: 1, BT: 1, Parallel: 1, HardS: 2400},
	}},
	"C18": {ID: "C18", Level: "exploration", Parts: []Part{
		{Name: "main", BQ: 1, BT: 1, Parallel: 1, HardS: 1500},
		{Name: "conc", Race: true, BQ: 1, BT: 1, Parallel: 1, HardS: 1500},
	}},
	"C19": one("C19", "exploration", false, 2400),
	"C20": one("C20", "exploration", false, 1500),
}
