// Package c10: ECMAScript isolation.  Snapshots of the caller's bindings and
// step properties around every execution, polluter/probe pairs, a self-probe,
// and concurrent executions of one compiled source; the child is built with
// the race detector.
package c10

import (
	"context"
	"fmt"
	"math"
	"sync"
	"sync/atomic"
	"time"

	"github.com/Comcast/sheens/core"
	"github.com/Comcast/sheens/interpreters/ecmascript"
	"github.com/Comcast/sheens/match"

	"verif/fw"
	"verif/ref"
)

const ssFn = `function ss(x){ if (x===null||x===undefined||typeof x!=="object") { return (typeof x === "function") ? "function" : JSON.stringify(x); } if (Array.isArray(x)) { var a=[]; for (var i=0;i<x.length;i++) { a.push(ss(x[i])); } return "["+a.join(",")+"]"; } var ks=Object.keys(x).sort(); var o=[]; for (var j=0;j<ks.length;j++) { o.push(JSON.stringify(ks[j])+":"+ss(x[ks[j]])); } return "{"+o.join(",")+"}"; }
`

// probe reports everything a script can observe of its surroundings.
const probeSrc = ssFn + `
var r = {};
r.globals = [typeof leak, typeof leakedVar, typeof leakedThis, typeof ss2].join(",");
r.objproto = (({}).polluted === undefined) ? "clean" : "dirty";
r.arrproto = typeof [].evil;
r.push = [1].concat([2]).length + ":" + (function(){ var a=[]; a.push(1); a.push(2); return a.length; })();
r.json = JSON.stringify({a:[1,{b:2}]});
r.jsonparse = ss(JSON.parse('{"z":1}'));
r.envkeys = Object.keys(_).sort().join(",");
r.out = typeof _.out;
r.props = ss(_.props);
r.bindings = ss(_.bindings);
r.tostring = ({}).toString();
r.hasOwn = ({a:1}).hasOwnProperty("a");
r.undefined = typeof undefined;
r.math = Math.max(1,2);
return r;
`

const selfProbeSrc = `
var seen = [];
if (typeof leak !== "undefined") { seen.push("global leak"); }
if (({}).polluted !== undefined) { seen.push("Object.prototype.polluted"); }
if (typeof [].evil !== "undefined") { seen.push("Array.prototype.evil"); }
if (_.marker !== undefined) { seen.push("_.marker"); }
if (_.props.selfmark !== undefined) { seen.push("_.props.selfmark"); }
if (_.props.nested && _.props.nested.selfmark !== undefined) { seen.push("_.props.nested.selfmark"); }
if (_.bindings.selfmark !== undefined) { seen.push("_.bindings.selfmark"); }
if (JSON.stringify({a:1}) !== '{"a":1}') { seen.push("JSON.stringify"); }
var G = Function("return this")();
G.leak = 1;
Object.prototype.polluted = 1;
Array.prototype.evil = function(){};
JSON.stringify = function(){ return "hijacked"; };
_.marker = 1;
_.props.selfmark = 1;
if (_.props.nested) { _.props.nested.selfmark = 1; }
_.bindings.selfmark = 1;
return {seen: seen.join(";"), n: (_.bindings.n || 0) + 1};
`

var polluters = []struct{ Name, Src string }{
	{"bindings-deep-mutation", `var b=_.bindings; if (b.deep) { b.deep.l1.l2.l3 = "polluted"; b.deep.l1.arr.push(99); b.deep.l1.arr[0] = "changed"; delete b.deep.l1.l2; } b.added = 1; delete b.x; if (b.arr) { b.arr[0] = 99; b.arr.push({z:1}); } return b;`},
	{"bindings-reassign", `_.bindings = {hijacked:true}; return {};`},
	{"permanent-bindings-mutated-below", `var b = _.bindings; if (b["cfg!"]) { b["cfg!"].limits.max = 99; b["cfg!"].hops[0].w = 99; b["cfg!"].hops.push({w: 2}); delete b["cfg!"].limits; } return b;`},
	{"props-replace-add-delete", `_.props.replaced = 1; _.props.q = "overwritten"; delete _.props.p; return _.bindings;`},
	{"props-nested-mutation", `if (_.props.nested) { _.props.nested.k = "polluted"; _.props.nested.added = [1]; if (_.props.nested.inner) { _.props.nested.inner.deep = "polluted"; } } return _.bindings;`},
	{"props-list-mutation", `if (_.props.list) { _.props.list[0] = "polluted"; if (_.props.list[1]) { _.props.list[1].m = "polluted"; } } return _.bindings;`},
	{"props-typed-containers", `var p = _.props; if (p.attrs) { p.attrs.k = "polluted"; p.attrs.added = "x"; } if (p.tags) { p.tags[0] = "polluted"; } if (p.rows && p.rows[0]) { p.rows[0].m = "polluted"; if (p.rows[0].cells) { p.rows[0].cells[0] = 99; } } return _.bindings;`},
	{"props-reassign", `_.props = {hijacked:true}; return _.bindings;`},
	{"globals", `var G = Function("return this")(); G.leak = 1; var leakedVar = 2; G.leakedThis = 3; G.ss2 = function(){}; G.ss = function(){ return "hijacked"; }; return _.bindings;`},
	{"globals-sloppy-assignment", `try { leak = 1; } catch (e) { } try { this.leakedThis = 3; } catch (e) { } return _.bindings;`},
	{"object-prototype", `Object.prototype.polluted = 1; Object.prototype.toString = function(){ return "hijacked"; }; Object.prototype.hasOwnProperty = function(){ return false; }; return {};`},
	{"array-prototype", `Array.prototype.evil = function(){}; Array.prototype.push = function(){ return -1; }; Array.prototype.concat = function(){ return []; }; return {};`},
	{"json-builtins", `JSON.stringify = function(){ return "hijacked"; }; JSON.parse = function(){ return {hijacked:true}; }; Math.max = function(){ return -1; }; Object.keys = function(){ return []; }; return {};`},
	{"env-members", `_.out = function(){}; _.ctx = null; _.extra = 1; return {};`},
	{"env-replaced", `_ = 5; return {};`},
	{"undefined-shadow", `undefined = 1; return {};`},
	{"throwing-after-pollution", `Object.prototype.polluted = 1; leak = 1; _.props.q = "overwritten"; if (_.props.nested) { _.props.nested.k = "polluted"; } throw new Error("after pollution");`},
	{"mutate-everything-in-place", `function mut(x) { if (Array.isArray(x)) { for (var i = 0; i < x.length; i++) { if (x[i] !== null && typeof x[i] === 'object') { mut(x[i]); } else { x[i] = 'mutated'; } } x.reverse(); if (x.length > 0) { x.shift(); } x.push('pushed'); } else if (x !== null && typeof x === 'object') { for (var k in x) { if (x[k] !== null && typeof x[k] === 'object') { mut(x[k]); } else { x[k] = 'mutated'; } } x.added = 'mutated'; } } mut(_.bindings); mut(_.props); return {done: true};`},
	// the members of the environment reached without spelling their names
	{"env-enumerated-mutation", `for (var k in _) { var v = _[k]; try { if (v !== null && typeof v === 'object') { for (var j in v) { if (v[j] !== null && typeof v[j] === 'object') { for (var i in v[j]) { v[j][i] = 'polluted'; } } } v.added_by_enumeration = 1; } } catch (e) { } } return {};`},
	{"env-computed-keys", `var p = _["pr" + "ops"]; p.q = "overwritten"; if (p.nested) { p.nested.k = "polluted"; p.nested.inner.deep = "polluted"; } var b = _["bind" + "ings"]; b.added = 1; if (b.deep) { b.deep.l1.arr.push(7); } return {};`},
	{"env-escaped-identifier", `_.pr\u006fps.q = "overwritten"; if (_.pr\u006fps.list) { _.pr\u006fps.list[0] = "polluted"; } return {};`},
	{"emit-then-mutate-emitted", `var m = {id: "e", inner: {v: 1}}; var r = _.out(m); m.inner.v = 2; return _.bindings;`},
}

func mkBindings() match.Bindings {
	return match.Bindings{
		"x":   1.0,
		"n":   1.0,
		"arr": []interface{}{1.0, "two", map[string]interface{}{"three": 3.0}},
		"deep": map[string]interface{}{"l1": map[string]interface{}{
			"l2":  map[string]interface{}{"l3": "original"},
			"arr": []interface{}{"a", "b"},
		}},
	}
}

// bindingsVariant: caller bindings of several shapes (the deep one above; flat
// with arrays only; arrays of arrays / of objects; Go-typed numbers).
func bindingsVariant(k int) match.Bindings {
	switch k % 10 {
	case 9:
		// permanent bindings ("!") with structure below them
		return match.Bindings{"cfg!": map[string]interface{}{"limits": map[string]interface{}{"max": 1.0}, "hops": []interface{}{map[string]interface{}{"w": 1.0}}}, "name!": "keep", "arr": []interface{}{1.0, map[string]interface{}{"three": 3.0}}, "x": 1.0}
	case 7:
		// numbers that are not JSON (left by arithmetic in native code): the bindings cannot
		// be copied for the script, which must not mean that the script gets the originals
		return match.Bindings{"arr": []interface{}{1.0, map[string]interface{}{"mean": math.NaN(), "n": 1.0}}, "deep": map[string]interface{}{"l1": map[string]interface{}{"arr": []interface{}{math.NaN()}, "l2": map[string]interface{}{"l3": "original"}}}, "x": 1.0}
	case 8:
		return match.Bindings{"stats": map[string]interface{}{"n": 1.0, "max": math.Inf(1)}, "arr": []interface{}{"a", math.Inf(-1)}, "x": math.NaN()}
	case 5:
		// Go-typed containers, as a message built in Go or a value set by a native action has them
		return match.Bindings{"arr": []string{"a", "b"}, "attrs": map[string]string{"k": "v"}, "x": 1.0}
	case 6:
		return match.Bindings{"?order": map[string]interface{}{"items": []map[string]interface{}{{"sku": "x"}}, "tags": []string{"t"}}, "arr": []int{1, 2}}
	case 1:
		return match.Bindings{"queue": []interface{}{"a", "b", "c"}, "owner": "alice", "x": 1.0}
	case 2:
		return match.Bindings{"arr": []interface{}{[]interface{}{1.0, 2.0}, []interface{}{3.0}}, "n": 1.0}
	case 3:
		return match.Bindings{"arr": []interface{}{map[string]interface{}{"id": 1.0}, "two"}, "x": "s"}
	case 4:
		return match.Bindings{"arr": []interface{}{int64(1), int64(2)}, "x": int64(7)}
	}
	return mkBindings()
}

func mkProps() core.StepProps {
	return core.StepProps{
		"p":      "keep",
		"q":      "s",
		"nested": map[string]interface{}{"k": "original", "inner": map[string]interface{}{"deep": "original"}},
		"list":   []interface{}{"first", map[string]interface{}{"m": "original"}},
		// containers as Go code has them
		"attrs": map[string]string{"k": "original"},
		"tags":  []string{"a", "b"},
		"rows":  []map[string]interface{}{{"m": "original", "cells": []int{1, 2}}},
	}
}

type exec struct {
	interp   *ecmascript.Interpreter
	compiled map[string]interface{}
}

func newExec(rec *fw.Rec) *exec {
	e := &exec{interp: ecmascript.NewInterpreter(), compiled: map[string]interface{}{}}
	srcs := map[string]string{"probe": probeSrc, "self": selfProbeSrc}
	for _, p := range polluters {
		srcs[p.Name] = p.Src
	}
	for name, src := range srcs {
		c, err := e.interp.Compile(context.Background(), src)
		if err != nil {
			rec.Inconclusive("harness script does not compile: " + name + ": " + err.Error())
			continue
		}
		e.compiled[name] = c
	}
	return e
}

func (e *exec) src(name string) string {
	switch name {
	case "probe":
		return probeSrc
	case "self":
		return selfProbeSrc
	}
	for _, p := range polluters {
		if p.Name == name {
			return p.Src
		}
	}
	return ""
}

// run executes one script with fresh caller-side bindings and props and checks
// that both are intact afterwards.  It returns the returned bindings.
func (e *exec) run(rec *fw.Rec, name string, bs match.Bindings, props core.StepProps, seq interface{}) (out string, ok bool) {
	bsSnap, prSnap := fw.Deep(bs), fw.Deep(props)
	ctx, cancel := context.WithTimeout(context.Background(), 5*time.Second)
	defer cancel()
	var exe *core.Execution
	var err error
	if rec.Guard("C10", seq, func() { exe, err = e.interp.Exec(ctx, bs, props, e.src(name), e.compiled[name]) }) {
		return "", false
	}
	rec.Eval(1)
	if d := fw.Diff(bsSnap, fw.Deep(bs)); d != "" {
		rec.Violation("C10:caller-bindings-modified:"+name, "script "+name+" changed the caller's bindings: "+d, seq)
		return "", false
	}
	if d := fw.Diff(prSnap, fw.Deep(props)); d != "" {
		rec.Violation("C10:caller-props-modified:"+name, "script "+name+" changed the caller's step properties: "+d, seq)
		return "", false
	}
	if err != nil {
		return "error: " + err.Error(), true
	}
	if exe == nil {
		return "nil", true
	}
	return fw.Canon(exe.Bs), true
}

func Run(cfg fw.Config, rec *fw.Rec) {
	rec.Rule = "22 polluting scripts (in-place mutation of _.bindings at depth 1-4, of _.props incl. nested maps and lists and Go-typed containers (map[string]string, []string, []map[string]interface{}), globals with and without var, Object/Array prototype and JSON/Math/Object.keys patches, replaced environment members, environment members reached by enumeration / computed keys / escaped identifiers, pollution followed by a throw) run (on caller bindings of 10 shapes: nested objects, flat with arrays only, arrays of arrays / objects, Go-typed numbers, Go-typed containers such as []string and map[string]string, nested NaN / infinite numbers, structured permanent ('!') bindings) in sequences of length 1-5 before a probe script that reports everything observable (globals, prototypes, built-ins, environment keys, props, bindings); the probe's report must equal its report in a clean run; a self-probe pollutes and reports leftovers of its own earlier executions; the caller's bindings and props are deep-snapshotted around every execution (also through Spec.Step); a tally script run with absent and with empty step properties must find _.props empty every time (sequentially, after every polluter, from 32 goroutines); 16-64 goroutines run one compiled source concurrently (race detector on); non-trivial = polluter sequence followed by a clean probe; distinct by sequence"
	rec.Required = []string{"extended_helpers_from_many_goroutines", "probe_after_polluters_clean", "self_probe_clean", "concurrent_rounds", "step_props_intact", "snapshots_intact", "absent_or_empty_props_private_per_execution"}
	rec.Assume = []string{"the race detector reports only races that occur in the interleavings produced", "probe observability: what the probe script can enumerate (globals by name, prototypes, built-ins used by the DSL, environment keys, props, bindings)"}
	extendedHelpersConcurrently(rec)
	e := newExec(rec)
	clean, ok := e.run(rec, "probe", mkBindings(), mkProps(), "clean probe")
	if !ok {
		return
	}
	rec.SetExtra("clean_probe_report", clean)

	// (b) polluter sequences then probe
	nseq := cfg.Pick(600, 60000)
	fw.Parallel(cfg.Workers, nseq, func(w, i int) {
		r := cfg.Rng("c10-seq", i)
		var seq []string
		L := 1 + r.Intn(5)
		if i < len(polluters) {
			seq = []string{polluters[i].Name}
		} else {
			for k := 0; k < L; k++ {
				seq = append(seq, polluters[r.Intn(len(polluters))].Name)
			}
		}
		for k, name := range seq {
			if _, ok := e.run(rec, name, bindingsVariant(i+k), mkProps(), seq); !ok {
				return
			}
		}
		rec.Bucket("snapshots_intact")
		got, ok := e.run(rec, "probe", mkBindings(), mkProps(), seq)
		if !ok {
			return
		}
		if got != clean {
			rec.Violation("C10:probe-differs", fmt.Sprintf("after %v the probe reports\n %s\ninstead of\n %s", seq, fw.Short(got), fw.Short(clean)), seq)
			return
		}
		rec.Bucket("probe_after_polluters_clean")
		rec.Nontrivial(fw.Canon(seq))
		if i%150 == 3 {
			rec.Sample(map[string]interface{}{"polluters": seq, "probe_report": got})
		}
	})

	// self-probe, sequential then concurrent, one compiled program, one shared props object
	for k := 0; k < cfg.Pick(50, 400); k++ {
		got, ok := e.run(rec, "self", mkBindings(), mkProps(), "self-probe sequential")
		if !ok {
			return
		}
		if got != `{"n":2,"seen":""}` {
			rec.Violation("C10:self-probe-sees-leftovers", "a script sees leftovers of its own previous execution: "+got, "self-probe sequential")
			return
		}
		rec.Bucket("self_probe_clean")
	}

	// absent and empty step properties: a script that writes into _.props must find it
	// empty every time - sequentially and concurrently, alone and after the polluters
	const propsTally = `var n = (_.props.tally || 0) + 1; _.props.tally = n; if (!_.props.box) { _.props.box = {n: 0}; } _.props.box.n++; return {tally: n, box: _.props.box.n};`
	tallyProg, terr := e.interp.Compile(context.Background(), propsTally)
	if terr != nil {
		rec.Inconclusive("tally script: " + terr.Error())
		return
	}
	for _, kind := range []string{"nil", "empty"} {
		mk := func() core.StepProps {
			if kind == "nil" {
				return nil
			}
			return core.StepProps{}
		}
		bad := int32(0)
		one := func(where string) {
			pr := mk()
			ctx, cancel := context.WithTimeout(context.Background(), 20*time.Second)
			exe, err := e.interp.Exec(ctx, match.Bindings{}, pr, propsTally, tallyProg)
			cancel()
			rec.Eval(1)
			if err != nil || exe == nil || fw.Canon(exe.Bs) != `{"box":1,"tally":1}` {
				if atomic.AddInt32(&bad, 1) == 1 {
					got := fmt.Sprint(err)
					if exe != nil {
						got = fw.Canon(exe.Bs)
					}
					rec.Violation("C10:props-leftovers:"+kind, fmt.Sprintf("a script run with %s step properties (%s) finds what an earlier or concurrent execution wrote into _.props: %s", kind, where, got), kind+" props, "+where)
				}
			}
			if len(pr) != 0 {
				if atomic.AddInt32(&bad, 1) == 1 {
					rec.Violation("C10:caller-props-modified:"+kind, "the caller's empty step properties were written to", kind+" props")
				}
			}
		}
		for k := 0; k < 20; k++ {
			one("sequential")
		}
		for _, pol := range polluters {
			ctx, cancel := context.WithTimeout(context.Background(), 20*time.Second)
			e.interp.Exec(ctx, mkBindings(), mk(), e.src(pol.Name), e.compiled[pol.Name])
			cancel()
			one("after " + pol.Name)
		}
		var wg sync.WaitGroup
		for g := 0; g < 32; g++ {
			wg.Add(1)
			go func() {
				defer wg.Done()
				for k := 0; k < 5; k++ {
					one("concurrent")
				}
			}()
		}
		wg.Wait()
		if bad == 0 {
			rec.Bucket("absent_or_empty_props_private_per_execution")
		}
	}

	// (c) concurrency: one compiled source, private bindings per goroutine, shared props
	rounds := cfg.Pick(12, 200)
	for round := 0; round < rounds; round++ {
		G := []int{16, 32, 64}[round%3]
		sharedProps := mkProps()
		prSnap := fw.Deep(sharedProps)
		var wg sync.WaitGroup
		start := make(chan struct{})
		errs := make([]string, G)
		for g := 0; g < G; g++ {
			wg.Add(1)
			go func(g int) {
				defer wg.Done()
				<-start
				for rep := 0; rep < 3; rep++ {
					bs := mkBindings()
					bs["n"] = float64(g*10 + rep)
					name := "self"
					if g%4 == 1 {
						name = polluters[(g+rep)%len(polluters)].Name
					}
					ctx, cancel := context.WithTimeout(context.Background(), 20*time.Second)
					exe, err := e.interp.Exec(ctx, bs, sharedProps, e.src(name), e.compiled[name])
					cancel()
					if name == "self" {
						want := fmt.Sprintf(`{"n":%d,"seen":""}`, g*10+rep+1)
						if err != nil || exe == nil || fw.Canon(exe.Bs) != want {
							got := fmt.Sprint(err)
							if exe != nil {
								got = fw.Canon(exe.Bs)
							}
							errs[g] = fmt.Sprintf("goroutine %d got %s, alone it gets %s", g, got, want)
						}
					}
				}
			}(g)
		}
		close(start)
		wg.Wait()
		rec.Eval(G * 3)
		for _, s := range errs {
			if s != "" {
				rec.Violation("C10:concurrent-differs", "concurrent executions of one compiled source interfere: "+s, fmt.Sprintf("round %d with %d goroutines", round, G))
				break
			}
		}
		if d := fw.Diff(prSnap, fw.Deep(sharedProps)); d != "" {
			rec.Violation("C10:caller-props-modified:concurrent", "shared step properties changed during concurrent executions: "+d, fmt.Sprintf("round %d", round))
		}
		rec.Bucket("concurrent_rounds")
		rec.Nontrivial(fmt.Sprintf("conc-%d-%d", round, G))
	}
	rec.SetExtra("concurrency_levels", []int{16, 32, 64})

	// (a) through Spec.Step: a polluting action must leave the caller's state and props intact
	for i, p := range polluters {
		a := &ref.ASpec{Name: "c10", Nodes: map[string]*ref.ANode{
			"start": {Action: &ref.Prog{Ops: []ref.Op{{Op: "raw", V: "(function(){" + p.Src + "})();", K: "", K2: "weak"}}, Ret: "same"},
				Branching: &ref.ABranching{Type: "bindings", Branches: []*ref.ABranch{{Target: "n2", Guard: &ref.Prog{Ops: []ref.Op{{Op: "raw", V: "(function(){" + p.Src + "})();", K: "", K2: "weak"}}, Ret: "same"}}, {Target: "n2"}}}},
			"n2": {},
		}}
		spec, err := a.Compiled(false, ref.NativeNilErr)
		if err != nil {
			rec.Inconclusive("polluter spec does not compile: " + err.Error())
			continue
		}
		st := &core.State{NodeName: "start", Bs: mkBindings()}
		props := mkProps()
		bsSnap, prSnap := fw.Deep(st.Bs), fw.Deep(props)
		if rec.Guard("C10:step", p.Name, func() { spec.Walk(context.Background(), st, nil, &core.Control{Limit: 4}, props) }) {
			continue
		}
		rec.Eval(1)
		if d := fw.Diff(bsSnap, fw.Deep(st.Bs)); d != "" {
			rec.Violation("C10:caller-bindings-modified:step:"+p.Name, "walking a machine whose action is "+p.Name+" changed the caller's state: "+d, p.Name)
			continue
		}
		if d := fw.Diff(prSnap, fw.Deep(props)); d != "" {
			rec.Violation("C10:caller-props-modified:step:"+p.Name, "walking a machine whose action is "+p.Name+" changed the caller's step properties: "+d, p.Name)
			continue
		}
		rec.Bucket("step_props_intact")
		_ = i
	}
}
