//go:build verif

package main

// In-package monitors for cmd/mcrew (package main).  This file is injected
// into the package at build time with `go test -overlay`; nothing is written
// into /repo.

import (
	"fmt"
	"io"
	"log"
	"os"
	"testing"

	"verif/fw"
)

var verifRegistry = map[string]func(fw.Config, *fw.Rec){}

// TestVerifChild runs one batch of one property's mcrew part.
func TestVerifChild(t *testing.T) {
	cfg, err := fw.ChildConfig()
	if err != nil {
		t.Skip("not started by the verification driver: " + err.Error())
	}
	run, ok := verifRegistry[cfg.Prop+"/"+cfg.Part]
	if !ok {
		fmt.Fprintln(os.Stderr, "no in-package workload for", cfg.Prop, cfg.Part)
		os.Exit(2)
	}
	log.SetOutput(io.Discard)
	if err := fw.ChildRun(cfg, run); err != nil {
		fmt.Fprintln(os.Stderr, err)
		os.Exit(2)
	}
}
