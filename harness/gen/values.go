// Package gen holds the seeded generators: JSON values, patterns with planted
// assignments, action programs, specs.
package gen

import (
	"math/rand"

	"verif/fw"
)

var (
	Keys    = []string{"a", "b", "c", "d", "e"}
	Strings = []string{"a", "b", "c", "x", "y", "", "q?", "1", "2", "true", "<nil>", "1.5", "null"} // incl. strings that print like scalars of another type
	Numbers = []float64{0, 1, 2, 3, 1.5, -1, 10}
)

// Scalar returns a random JSON scalar (no string starts with '?').
func Scalar(r *rand.Rand) interface{} {
	switch r.Intn(10) {
	case 0:
		return nil
	case 1:
		return r.Intn(2) == 0
	case 2, 3, 4:
		return Numbers[r.Intn(len(Numbers))]
	default:
		return Strings[r.Intn(len(Strings))]
	}
}

// Value returns a random JSON value of bounded depth; arrays are sets.
func Value(r *rand.Rand, depth int) interface{} {
	if depth <= 0 || r.Intn(3) == 0 {
		return Scalar(r)
	}
	if r.Intn(2) == 0 {
		n := r.Intn(4)
		m := make(map[string]interface{}, n)
		for i := 0; i < n; i++ {
			m[Keys[r.Intn(len(Keys))]] = Value(r, depth-1)
		}
		return m
	}
	n := r.Intn(4)
	a := make([]interface{}, 0, n)
	seen := map[string]bool{}
	for i := 0; i < n; i++ {
		v := Value(r, depth-1)
		c := fw.Canon(v)
		if seen[c] {
			continue
		}
		seen[c] = true
		a = append(a, v)
	}
	return a
}

// IsScalar reports whether x is a JSON scalar.
func IsScalar(x interface{}) bool {
	switch x.(type) {
	case map[string]interface{}, []interface{}:
		return false
	}
	return true
}

// Shuffle permutes a slice in place.
func Shuffle(r *rand.Rand, a []interface{}) {
	r.Shuffle(len(a), func(i, j int) { a[i], a[j] = a[j], a[i] })
}

// Subterms lists every value occurring in x (including x), de-duplicated by canon.
func Subterms(x interface{}) []interface{} { return fw.Subterms(x) }

// MapKeys lists every map key occurring anywhere in x, de-duplicated.
func MapKeys(x interface{}) []string { return fw.MapKeys(x) }

// Depth of a JSON value.
func Depth(x interface{}) int {
	d := 0
	switch t := x.(type) {
	case map[string]interface{}:
		for _, e := range t {
			if k := Depth(e); k > d {
				d = k
			}
		}
		return d + 1
	case []interface{}:
		for _, e := range t {
			if k := Depth(e); k > d {
				d = k
			}
		}
		return d + 1
	}
	return 0
}

// Rebuild deep-copies x, inserting map keys in a random order (Go iterates a
// small map in a rotation of its insertion order, so varying the insertion
// order varies every iteration order the runtime can choose).
func Rebuild(r *rand.Rand, x interface{}) interface{} {
	switch t := x.(type) {
	case map[string]interface{}:
		ks := make([]string, 0, len(t))
		for k := range t {
			ks = append(ks, k)
		}
		sortStr(ks)
		r.Shuffle(len(ks), func(i, j int) { ks[i], ks[j] = ks[j], ks[i] })
		m := make(map[string]interface{}, len(ks))
		for _, k := range ks {
			m[k] = Rebuild(r, t[k])
		}
		return m
	case []interface{}:
		a := make([]interface{}, len(t))
		for i, e := range t {
			a[i] = Rebuild(r, e)
		}
		return a
	}
	return x
}

// RebuildOrder deep-copies x; the top-level map's keys are inserted in the given order.
func RebuildOrder(r *rand.Rand, x interface{}, order []string) interface{} {
	t, ok := x.(map[string]interface{})
	if !ok {
		return Rebuild(r, x)
	}
	m := make(map[string]interface{}, len(order))
	for _, k := range order {
		m[k] = Rebuild(r, t[k])
	}
	return m
}

// Permutations of a small string slice.
func Permutations(xs []string) [][]string {
	if len(xs) <= 1 {
		return [][]string{append([]string{}, xs...)}
	}
	var out [][]string
	for i := range xs {
		rest := append(append([]string{}, xs[:i]...), xs[i+1:]...)
		for _, p := range Permutations(rest) {
			out = append(out, append([]string{xs[i]}, p...))
		}
	}
	return out
}

func sortStr(a []string) {
	for i := 1; i < len(a); i++ {
		for j := i; j > 0 && a[j] < a[j-1]; j-- {
			a[j], a[j-1] = a[j-1], a[j]
		}
	}
}

// SortedKeys of a map.
func SortedKeys(m map[string]interface{}) []string {
	ks := make([]string, 0, len(m))
	for k := range m {
		ks = append(ks, k)
	}
	sortStr(ks)
	return ks
}

// GoTyped returns a copy of x in which some whole numbers are Go ints, int64s
// or float32s and some nested maps are named map types, the way values look
// after an action has produced them in memory (goja exports integers as int64).
// mk converts a nested map into a named map type (e.g. match.Bindings).
func GoTyped(r *rand.Rand, x interface{}, mk func(map[string]interface{}) interface{}, top bool) interface{} {
	switch t := x.(type) {
	case float64:
		if t == float64(int64(t)) {
			switch r.Intn(5) {
			case 0:
				return int64(t)
			case 1:
				return int(t)
			case 2:
				return float32(t)
			}
		}
		return t
	case map[string]interface{}:
		m := make(map[string]interface{}, len(t))
		for k, v := range t {
			m[k] = GoTyped(r, v, mk, false)
		}
		if !top && mk != nil && r.Intn(4) == 0 {
			return mk(m)
		}
		return m
	case []interface{}:
		a := make([]interface{}, len(t))
		for i, v := range t {
			a[i] = GoTyped(r, v, mk, false)
		}
		return a
	}
	return x
}
