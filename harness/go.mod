module verif

go 1.20

require (
	github.com/Comcast/sheens v0.0.0
	github.com/anishathalye/porcupine v1.3.0
)

replace github.com/Comcast/sheens => /repo
