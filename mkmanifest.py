#!/usr/bin/env python3
"""Regenerates /verif/MANIFEST.json from the table below (keeps it valid at all times)."""
import json

# id -> (level, technique, level text, level note, design ref)
CLAIMED = {
 "C01": ("exploration", "runtime witness checker on every Match result (independent containment checker)",
         "Every binding set returned by match.Match on ~4e5 (quick) / 1.2e7 (thorough) generated pattern/message/bindings triples is verified by an independent checker (extends given bindings, binds only pattern variables, substituted pattern contained in the message). Held-on-observed, not a proof; input-quantified property so bounded random exploration with constructive feature buckets is the reachable level for a monitor.",
         "Trusts the ~300-line checker ref/fits.go and the generator staying inside the supported fragment; sizes bounded (depth<=5, width<=4).", "DESIGN.md §4 C01"),
}

NOT_YET = "check not built yet in this session (planned: see DESIGN.md §4)"

props = [json.loads(l) for l in open('/verif/properties.jsonl')]
checks = []
na = []
for p in props:
    i = p['id']
    if i in CLAIMED:
        level, tech, text, note, ref = CLAIMED[i]
        checks.append({
            "property_id": i,
            "quick_cmd": f"./check {i} --tier quick",
            "thorough_cmd": f"./check {i} --tier thorough",
            "evidence_file": f"/verif/evidence/{i}.json",
            "replay_cmd_template": f"./check {i} --replay {{path}}",
            "engine": "vrun",
            "level_claimed": {"category": level, "text": text, "design_ref": ref},
            "level_note": note,
            "technique": tech,
        })
    else:
        na.append({"property_id": i, "reason": NOT_YET})

hooks_commits = [l.strip() for l in open('/verif/MANIFEST.hooks')] if __import__('os').path.exists('/verif/MANIFEST.hooks') else []
hooks_commits = [c for c in hooks_commits if c and not c.startswith('#')]
m = {
 "version": 1,
 "setup_cmd": "./check --warm",
 "hooks": {
   "guard": "verif",
   "enable": "go build/test -tags verif (children are built by harness/cmd/vrun; in-package monitors are injected with -overlay, no file is written into /repo)",
   "baseline_off_cmd": "cd /repo && GOFLAGS=-mod=mod GOPROXY=off GOSUMDB=off GOTOOLCHAIN=local go test -vet=off -count=1 -timeout 25m ./...",
   "source_commits": hooks_commits,
   "add_only": True,
 },
 "engines": [
   {"name": "vrun", "path": "/verif/harness/cmd/vrun", "serves_properties": [c["property_id"] for c in checks],
    "kind_free_text": "Go parent driver: builds child processes (plain / -race / in-package test binaries via -overlay) from /repo's working tree, runs workload batches under watchdogs, parses race-detector logs, aggregates monitor observations, matches known findings, writes evidence"},
 ],
 "checks": checks,
 "not_applicable": na,
 "notes": "Technique family: runtime monitoring and sanitizers. VERIF_SEED selects the case lists (default 1). Exit 0 = held on everything observed (KNOWN-FINDING lines are printed for listed findings); exit 1 + VIOLATION line otherwise; exit 2 = the tree does not build.",
}
json.dump(m, open('/verif/MANIFEST.json', 'w'), indent=1)
print("claimed", len(checks), "not_applicable", len(na))
