//go:build verif

package main

// C17, mcrew: timer requests as messages.  The service turns a message addressed to
// "timers" into Timers.Add / Rem (timers_glue.go); a request names its due time either as a
// delay ("in") or as an instant ("at").  Here both forms go through Service.Process, and the
// moment each timer's message is processed is compared with the instant that was asked for.

import (
	"context"
	"fmt"
	"os"
	"path/filepath"
	"sync"
	"time"

	"verif/fw"
)

func c17Glue(cfg fw.Config, rec *fw.Rec, round int) {
	dir := filepath.Join(cfg.WorkDir, fmt.Sprintf("c17glue-%d", round))
	os.MkdirAll(dir, 0755)
	defer os.RemoveAll(dir)
	ctx, cancel := context.WithCancel(context.Background())
	defer cancel()
	s, err := NewService(ctx, dir, filepath.Join(dir, "crew.db"), "")
	if err != nil {
		rec.Inconclusive("glue: service: " + err.Error())
		return
	}
	defer s.store.Close(ctx)
	s.store.db.NoSync = true
	s.Emitted = make(chan interface{}, 10000)
	s.Processing = make(chan interface{}, 10000)
	s.Errors = make(chan interface{}, 10000)
	s.timers.Errors = s.Errors

	type req struct {
		Uid      string    `json:"uid"`
		Form     string    `json:"form"` // in | at | at-zone | at-past
		Due      time.Time `json:"due"`
		Cancel   bool      `json:"cancel,omitempty"`
		Long     bool      `json:"long,omitempty"`
		accepted bool
		seenAt   time.Time
		seen     int
	}
	var mu sync.Mutex
	reqs := map[string]*req{}
	var order []*req
	scenario := map[string]interface{}{"host": "mcrew Service.Process", "round": round}
	done := make(chan struct{})
	var wg sync.WaitGroup
	wg.Add(1)
	go func() {
		defer wg.Done()
		for {
			select {
			case <-done:
				return
			case x := <-s.Processing:
				now := time.Now()
				if m, ok := x.(map[string]interface{}); ok {
					if uid, ok := m["timerUid"].(string); ok {
						mu.Lock()
						if r := reqs[uid]; r != nil {
							r.seen++
							if r.seen == 1 {
								r.seenAt = now
							}
						}
						mu.Unlock()
					}
				}
			case <-s.Emitted:
			case <-s.Errors:
			}
		}
	}()
	process := func(msg map[string]interface{}) error {
		var perr error
		if rec.Guard("C17:mcrew:glue", scenario, func() { _, perr = s.Process(ctx, msg, nil) }) {
			return fmt.Errorf("panic")
		}
		return perr
	}
	zone := time.FixedZone("east", 2*3600+30*60)
	base := 250 + 50*(round%4)
	n := 0
	mk := func(form string, ms int, cancelIt, long bool) {
		n++
		r := &req{Uid: fmt.Sprintf("g%d-%d", round, n), Form: form, Cancel: cancelIt, Long: long}
		body := map[string]interface{}{"id": r.Uid, "message": map[string]interface{}{"to": "nobody", "timerUid": r.Uid}}
		t0 := time.Now()
		switch form {
		case "in":
			d := time.Duration(ms) * time.Millisecond
			if long {
				d = time.Hour
			}
			body["in"] = d.String()
			r.Due = t0.Add(d)
		case "at", "at-past":
			r.Due = t0.Add(time.Duration(ms) * time.Millisecond).Round(time.Millisecond).UTC()
			if long {
				r.Due = t0.Add(time.Hour).Round(time.Second).UTC()
			}
			body["at"] = r.Due.Format(time.RFC3339Nano)
		case "at-zone":
			r.Due = t0.Add(time.Duration(ms) * time.Millisecond).Round(time.Millisecond).In(zone)
			body["at"] = r.Due.Format(time.RFC3339Nano)
		}
		mu.Lock()
		reqs[r.Uid] = r
		order = append(order, r)
		mu.Unlock()
		err := process(map[string]interface{}{"to": "timers", "makeTimer": body})
		rec.Eval(1)
		mu.Lock()
		r.accepted = err == nil
		mu.Unlock()
		if err != nil {
			rec.Violation("C17:mcrew:glue:request-refused", fmt.Sprintf("a makeTimer request (%s) was refused: %v", form, err), map[string]interface{}{"scenario": scenario, "request": body})
		}
	}
	mk("at", base, false, false)
	mk("at-zone", base+100, false, false)
	mk("in", base+50, false, false)
	mk("at", base+350, true, false)
	mk("at-zone", base+400, true, false)
	mk("at-past", -1500, false, false)
	mk("at", 0, false, true)
	mk("in", 0, false, true)
	// cancel well before the due time
	time.Sleep(60 * time.Millisecond)
	mu.Lock()
	var toCancel []*req
	for _, r := range order {
		if r.Cancel && r.accepted {
			toCancel = append(toCancel, r)
		}
	}
	mu.Unlock()
	cancelled := map[string]time.Time{}
	for _, r := range toCancel {
		err := process(map[string]interface{}{"to": "timers", "deleteTimer": r.Uid})
		now := time.Now()
		rec.Eval(1)
		if err != nil {
			if now.Before(r.Due) {
				rec.Violation("C17:mcrew:glue:pending-timer-not-cancellable", fmt.Sprintf("deleteTimer %s, %v before the instant the timer was requested for (%s), answered: %v", r.Uid, r.Due.Sub(now), r.Form, err), map[string]interface{}{"scenario": scenario, "request": r})
			}
			continue
		}
		cancelled[r.Uid] = now
	}
	// wait (bounded) for the short timers that were not cancelled
	deadline := time.Now().Add(30 * time.Second)
	for time.Now().Before(deadline) {
		mu.Lock()
		waiting := false
		for _, r := range order {
			if r.accepted && !r.Long && !r.Cancel && r.seen == 0 {
				waiting = true
			}
		}
		mu.Unlock()
		if !waiting {
			break
		}
		time.Sleep(10 * time.Millisecond)
	}
	// let the cancelled ones pass their due time
	var last time.Time
	for _, r := range toCancel {
		if r.Due.After(last) {
			last = r.Due
		}
	}
	if d := time.Until(last.Add(300 * time.Millisecond)); d > 0 {
		time.Sleep(d)
	}
	mu.Lock()
	defer func() {
		mu.Unlock()
		close(done)
		wg.Wait()
	}()
	ok := true
	for _, r := range order {
		if !r.accepted {
			ok = false
			continue
		}
		desc := map[string]interface{}{"scenario": scenario, "request": r}
		switch {
		case r.seen > 1:
			rec.Violation("C17:mcrew:glue:fired-twice", fmt.Sprintf("the message of timer %s (%s) was processed %d times", r.Uid, r.Form, r.seen), desc)
			ok = false
		case r.seen == 1 && r.seenAt.Before(r.Due):
			rec.Violation("C17:mcrew:glue:fired-early", fmt.Sprintf("the message of timer %s (requested with %q) was processed %v before the instant it was requested for", r.Uid, r.Form, r.Due.Sub(r.seenAt)), desc)
			ok = false
		case r.seen == 1 && r.Cancel:
			if at, was := cancelled[r.Uid]; was && at.Before(r.seenAt) {
				rec.Violation("C17:mcrew:glue:fired-after-cancel", fmt.Sprintf("timer %s (%s) fired %v after its deleteTimer request had been answered", r.Uid, r.Form, r.seenAt.Sub(at)), desc)
				ok = false
			}
		case r.seen == 1 && r.Long:
			rec.Violation("C17:mcrew:glue:fired-early", fmt.Sprintf("timer %s, requested for an hour from now (%s), has fired", r.Uid, r.Form), desc)
			ok = false
		case r.seen == 0 && !r.Long && !r.Cancel:
			rec.Violation("C17:mcrew:glue:never-fired", fmt.Sprintf("timer %s (%s) has not fired 30 s after it was due", r.Uid, r.Form), desc)
			ok = false
		}
	}
	// pending: exactly the long ones
	s.timers.Lock()
	live := map[string]bool{}
	for id := range s.timers.timers {
		live[id] = true
	}
	s.timers.Unlock()
	for _, r := range order {
		if r.accepted && live[r.Uid] != r.Long {
			rec.Violation("C17:mcrew:glue:pending-set-differs", fmt.Sprintf("timer %s (%s, long=%v, cancelled=%v, fired=%d): pending = %v", r.Uid, r.Form, r.Long, r.Cancel, r.seen, live[r.Uid]), map[string]interface{}{"scenario": scenario, "request": r})
			ok = false
		}
	}
	if ok {
		rec.Bucket("timer_requests_as_messages_with_in_and_at")
		rec.Nontrivial(fmt.Sprintf("glue-%d", round))
	}
}
