// Package c14: routing.  Recorder machines log every message they are
// presented with and emit what the message's "emit" field scripts; a routing
// reference model replays the crew's reported emissions and predicts every
// machine's log.  This file: the single-loop crew (sio).  The mcrew part runs
// in-package (harness/_inpkg/mcrew).
package c14

import (
	"context"
	"encoding/json"
	"fmt"
	"io"
	"log"
	"math/rand"
	"sort"

	"github.com/Comcast/sheens/sio"

	"verif/fw"
	"verif/siox"
)

// RecorderSpec is the spec document of a recorder machine.
const RecorderSpec = `{"name":"recorder","nodes":{
 "start":{"branching":{"type":"message","branches":[{"pattern":"?m","target":"rec"}]}},
 "rec":{"action":{"interpreter":"ecmascript","source":"var bs = _.bindings; var m = bs['?m']; delete bs['?m']; var id = (m !== null && typeof m === 'object' && m.uid !== undefined) ? m.uid : JSON.stringify(m); bs.log = (bs.log || []).concat([id]); if (m !== null && typeof m === 'object' && m.emit) { for (var i = 0; i < m.emit.length; i++) { var e = JSON.parse(JSON.stringify(m.emit[i])); if (e !== null && typeof e === 'object') { e.from = _.props.mid; } _.out(e); } } return bs;"},
        "branching":{"branches":[{"target":"start"}]}}}}`

// recorderDoc is RecorderSpec as a JSON value (for crew operations that hire a recorder).
var recorderDoc = func() interface{} {
	var x interface{}
	if err := json.Unmarshal([]byte(RecorderSpec), &x); err != nil {
		panic(err)
	}
	return x
}()

// hirePool: ids a crew operation may create, replace or delete while a history runs.
var hirePool = []string{"m1", "m2", "m3", "m4", "h1", "h2", "captain2", "timer", "all"}

type genCtx struct {
	r    *rand.Rand
	mids []string
	n    int
	dyn  bool // crew operations that change the membership
}

// hire is a crew operation, addressed to the captain, that creates (or replaces) recorder id.
func (g *genCtx) hire(id string) map[string]interface{} {
	return map[string]interface{}{"uid": g.uid(), "to": "captain", "update": map[string]interface{}{
		id: map[string]interface{}{"spec": map[string]interface{}{"inline": fw.Plain(recorderDoc)}, "state": map[string]interface{}{"node": "start", "bs": map[string]interface{}{}}}}}
}

// hireParked creates (or replaces) recorder id in the middle of its work: at its action node,
// holding a message it has consumed and not yet recorded.  Whatever it is presented with
// next - a null message too - lets it go on.
func (g *genCtx) hireParked(id string) map[string]interface{} {
	held := map[string]interface{}{"uid": g.uid()}
	if g.r.Intn(2) == 0 {
		held["emit"] = []interface{}{map[string]interface{}{"uid": g.uid(), "to": "nobody"}}
	}
	return map[string]interface{}{"uid": g.uid(), "to": "captain", "update": map[string]interface{}{
		id: map[string]interface{}{"spec": map[string]interface{}{"inline": fw.Plain(recorderDoc)}, "state": map[string]interface{}{"node": "rec", "bs": map[string]interface{}{"?m": held}}}}}
}

func (g *genCtx) fire(ids ...string) map[string]interface{} {
	l := []interface{}{}
	for _, id := range ids {
		l = append(l, id)
	}
	return map[string]interface{}{"uid": g.uid(), "to": "captain", "delete": l}
}

func (g *genCtx) uid() string { g.n++; return fmt.Sprintf("u%d", g.n) }

// target draws a routing target; judged=false for shapes neither code nor
// documentation define (numbers, objects).
func (g *genCtx) target() (to interface{}, has bool) {
	r := g.r
	pick := func() string {
		if g.dyn && r.Intn(3) == 0 {
			return hirePool[r.Intn(len(hirePool))]
		}
		if len(g.mids) == 0 || r.Intn(5) == 0 {
			return []string{"ghost", "nobody"}[r.Intn(2)]
		}
		return g.mids[r.Intn(len(g.mids))]
	}
	switch r.Intn(12) {
	case 0, 1:
		return nil, false
	case 2, 3, 4:
		return pick(), true
	case 5:
		return "*", true
	case 6:
		return []interface{}{pick(), pick()}, true
	case 7:
		a := pick()
		return []interface{}{a, a, pick()}, true // repeated member
	case 8:
		return []interface{}{pick(), 5.0, nil, map[string]interface{}{"x": 1.0}, pick()}, true // non-string members
	case 9:
		return []interface{}{}, true
	case 10:
		return []string{"captain", "timers"}[r.Intn(2)], true
	default:
		return []interface{}{"ghost", pick(), "timers"}, true
	}
}

func (g *genCtx) message(depth int) map[string]interface{} {
	m := map[string]interface{}{"uid": g.uid()}
	if to, has := g.target(); has {
		m["to"] = to
	}
	if depth > 0 && g.r.Intn(2) == 0 {
		var em []interface{}
		for k := 1 + g.r.Intn(2); k > 0; k-- {
			em = append(em, g.message(depth-1))
		}
		if g.r.Intn(10) == 0 {
			// a null message: legal, carries no target, so it is for every ordinary machine
			em = append(em, nil)
		}
		m["emit"] = em
	}
	if g.dyn {
		switch g.r.Intn(14) {
		case 0:
			keep := m["emit"]
			m = g.hire(hirePool[g.r.Intn(len(hirePool))])
			if keep != nil && g.r.Intn(2) == 0 {
				m["emit"] = keep // not addressed to a recorder: never emitted
			}
			return m
		case 1:
			return g.fire(hirePool[g.r.Intn(len(hirePool))], hirePool[g.r.Intn(len(hirePool))])
		case 4:
			return g.hireParked(hirePool[g.r.Intn(len(hirePool))])
		case 2, 3:
			if depth > 0 {
				// hire somebody and talk to them straight away
				id := hirePool[g.r.Intn(len(hirePool))]
				em := []interface{}{g.hire(id)}
				first := g.message(depth - 1)
				first["to"] = id
				em = append(em, first)
				if g.r.Intn(2) == 0 {
					second := g.message(depth - 1)
					second["to"] = []interface{}{id, "ghost"}
					em = append(em, second)
				}
				if g.r.Intn(3) == 0 {
					em = append(em, g.fire(id))
					last := g.message(0)
					last["to"] = id
					em = append(em, last)
				}
				if g.r.Intn(2) == 0 {
					em[0], em[1] = em[1], em[0] // talk first, hire afterwards
				}
				m["emit"] = em
			}
		}
	}
	// hostile payloads: if a service machine were presented with this message it would act on it
	switch g.r.Intn(8) {
	case 0:
		m["update"] = map[string]interface{}{"sentinel-" + m["uid"].(string): map[string]interface{}{"state": map[string]interface{}{"node": "start"}}}
	case 1:
		m["makeTimer"] = map[string]interface{}{"id": "sentinel-" + m["uid"].(string), "in": "1h", "msg": map[string]interface{}{"to": "nobody"}}
	}
	return m
}

// Recipients is the documented routing rule of the single-loop crew.
func Recipients(msg interface{}, ordinary map[string]bool, service map[string]bool) (recips []string, judged bool) {
	all := func() []string {
		var out []string
		for m := range ordinary {
			out = append(out, m)
		}
		sort.Strings(out)
		return out
	}
	m, ok := msg.(map[string]interface{})
	if !ok {
		return all(), true
	}
	to, has := m["to"]
	if !has {
		return all(), true
	}
	switch t := to.(type) {
	case string:
		if t == "*" {
			return all(), true
		}
		if ordinary[t] || service[t] {
			return []string{t}, true
		}
		return nil, true
	case []interface{}:
		seen := map[string]bool{}
		for _, x := range t {
			if s, ok := x.(string); ok && (ordinary[s] || service[s]) && !seen[s] {
				seen[s] = true
				recips = append(recips, s)
			}
		}
		sort.Strings(recips)
		return recips, true
	}
	return nil, false
}

func uidOf(msg interface{}) string {
	if m, ok := msg.(map[string]interface{}); ok {
		if u, ok := m["uid"].(string); ok {
			return u
		}
	}
	return fw.Canon(msg)
}

// expectedBatch: what recorder `from` emits when presented with msg.
func expectedBatch(msg interface{}, from string) []interface{} {
	m, ok := msg.(map[string]interface{})
	if !ok {
		return nil
	}
	em, ok := m["emit"].([]interface{})
	if !ok || len(em) == 0 {
		return nil
	}
	var out []interface{}
	for _, e := range em {
		c := fw.Plain(e)
		if cm, ok := c.(map[string]interface{}); ok {
			cm["from"] = from
		}
		out = append(out, c)
	}
	return out
}

func logOf(c *sio.Crew, mid string) []string {
	m, ok := c.Machines[mid]
	if !ok || m.State == nil {
		return nil
	}
	l, _ := fw.Plain(m.State.Bs["log"]).([]interface{})
	var out []string
	for _, x := range l {
		out = append(out, fmt.Sprint(x))
	}
	return out
}

func sioHistory(cfg fw.Config, rec *fw.Rec, i int) {
	r := cfg.Rng("c14-sio", i)
	idPool := []string{"m1", "m2", "m3", "m4", "captain2", "timer", "all", ""}
	nm := r.Intn(7)
	mids := []string{}
	seen := map[string]bool{}
	for len(mids) < nm {
		id := idPool[r.Intn(len(idPool))]
		if id == "" && r.Intn(3) > 0 {
			continue
		}
		if !seen[id] {
			seen[id] = true
			mids = append(mids, id)
		}
	}
	sort.Strings(mids)
	ctx, cancel := context.WithCancel(context.Background())
	defer cancel() // stops the timers this history may have created
	// the crew's step limit: a recorder needs exactly two steps per message, so under
	// limit 2 every walk ends by the limit - its emissions count all the same
	limit := []int{50, 2, 3}[(i/2)%3]
	if limit == 2 {
		rec.Bucket("sio_histories_under_a_step_limit_that_ends_every_walk")
	}
	c, _, err := siox.NewCrew(ctx, limit, 8, 8)
	if err != nil {
		rec.Inconclusive("crew: " + err.Error())
		return
	}
	ordinary := map[string]bool{}
	for _, mid := range mids {
		src, err := siox.Inline(RecorderSpec)
		if err != nil {
			rec.Inconclusive("recorder spec: " + err.Error())
			return
		}
		if err := c.SetMachine(ctx, mid, src, nil); err != nil {
			rec.Inconclusive("SetMachine: " + err.Error())
			return
		}
		ordinary[mid] = true
	}
	service := map[string]bool{"captain": true, "timers": true}
	if i%3 == 2 {
		// a machine that leaves NaN in its bindings when it first sees a message (and then
		// rests at the error node): its state cannot be serialised, which is the host's
		// problem when it stores it - routing and reporting go on.  It records and emits
		// nothing, so the model only needs to know that it exists.
		src, err := siox.Inline(`{"name":"nan","nodes":{"start":{"branching":{"type":"message","branches":[{"pattern":"?m","target":"bad"}]}},"bad":{"action":{"interpreter":"ecmascript","source":"return {bad: 0/0};"},"branching":{"branches":[{"target":"start"}]}}}}`)
		if err == nil {
			err = c.SetMachine(ctx, "nanm", src, nil)
		}
		if err != nil {
			rec.Inconclusive("NaN machine: " + err.Error())
			return
		}
		service["nanm"] = true
		rec.Bucket("sio_histories_with_a_machine_whose_state_cannot_be_serialised")
	}
	known := map[string]bool{}
	for _, mid := range mids {
		known[mid] = true
	}
	hiredAt := map[string]bool{} // not in the crew at the start
	for _, id := range hirePool {
		if !ordinary[id] {
			hiredAt[id] = true
		}
	}
	g := &genCtx{r: r, mids: mids, dyn: i%2 == 1}
	if service["nanm"] {
		g.mids = append(append([]string{}, mids...), "nanm")
	}
	var history []interface{}
	// parked[mid]: the message recorder mid has consumed and not yet recorded (it is at its
	// action node: it was created there, or a step limit ended its walk there)
	parked := map[string]interface{}{}
	// present: recorder rc is presented with x (nil: a null message, which no node consumes)
	// and walks at most `limit` steps; returns what it records and what it emits
	present := func(rc string, x interface{}) (logged []string, batch []interface{}) {
		unconsumed := x != nil
		for steps := 0; steps < limit; steps++ {
			if held, have := parked[rc]; have {
				logged = append(logged, uidOf(held))
				batch = append(batch, expectedBatch(held, rc)...)
				delete(parked, rc)
			} else if unconsumed {
				parked[rc] = x
				unconsumed = false
			} else {
				break
			}
		}
		return
	}
	expectLog := map[string][]string{}
	expectedSentinels := map[string]bool{}
	expectedTimers := map[string]bool{}
	for k := 1 + r.Intn(5); k > 0; k-- {
		var msg interface{} = g.message(3)
		switch r.Intn(12) {
		case 0:
			msg = "bare-string-" + g.uid()
		case 1:
			msg = nil
			rec.Bucket("sio_null_message_submitted")
		}
		history = append(history, msg)
		replay := map[string]interface{}{"machines": mids, "history": history}
		var res *sio.Result
		var perr error
		if rec.Guard("C14:sio", replay, func() { res, perr = c.ProcessMsg(ctx, fw.Deep(msg)) }) {
			return
		}
		rec.Eval(1)
		if perr != nil || res == nil {
			rec.Violation("C14:sio:process-error", fmt.Sprint(perr), replay)
			return
		}
		// replay the routing model against the reported emissions
		queue := []interface{}{msg}
		bi := 0
		judged := true
		for len(queue) > 0 {
			x := queue[0]
			queue = queue[1:]
			recips, ok := Recipients(x, ordinary, service)
			if !ok {
				judged = false
				break
			}
			want := map[string]int{}
			nb := 0
			for _, rc := range recips {
				if service[rc] {
					// addressed to a service machine: it may act on the payload
					if xm, ok := x.(map[string]interface{}); ok {
						if up, ok := xm["update"].(map[string]interface{}); ok && rc == "captain" {
							for mid, v := range up {
								if vm, ok := v.(map[string]interface{}); ok && vm["spec"] != nil {
									// a recorder is hired (or replaced: it starts afresh)
									ordinary[mid] = true
									known[mid] = true
									delete(expectLog, mid)
									delete(parked, mid)
									if stm, ok := vm["state"].(map[string]interface{}); ok && stm["node"] == "rec" {
										if bsm, ok := stm["bs"].(map[string]interface{}); ok {
											parked[mid] = fw.Plain(bsm["?m"])
											rec.Bucket("sio_machine_hired_in_the_middle_of_its_work")
										}
									}
									rec.Bucket("sio_machine_hired_during_processing")
									continue
								}
								expectedSentinels[mid] = true
							}
						}
						if del, ok := xm["delete"].([]interface{}); ok && rc == "captain" {
							for _, d := range del {
								if id, ok := d.(string); ok {
									if ordinary[id] {
										rec.Bucket("sio_machine_fired_during_processing")
									}
									delete(ordinary, id)
									delete(expectLog, id)
									delete(parked, id)
								}
							}
						}
						if mt, ok := xm["makeTimer"].(map[string]interface{}); ok && rc == "timers" {
							expectedTimers[fmt.Sprint(mt["id"])] = true
						}
					}
					continue
				}
				_, wasParked := parked[rc]
				logged, b := present(rc, x)
				expectLog[rc] = append(expectLog[rc], logged...)
				if hiredAt[rc] {
					rec.Bucket("sio_delivery_to_machine_hired_in_this_history")
				}
				if wasParked && x == nil && len(logged) > 0 {
					rec.Bucket("sio_null_message_lets_a_machine_go_on")
				}
				if b != nil {
					want[fw.Canon(b)]++
					nb++
				}
			}
			if bi+nb > len(res.Emitted) {
				rec.Violation("C14:sio:emission-not-reported", fmt.Sprintf("processing %s: %d emission batch(es) expected from %v, but only %d remain in the result", uidOf(x), nb, recips, len(res.Emitted)-bi), replay)
				return
			}
			for j := 0; j < nb; j++ {
				b := fw.Plain(res.Emitted[bi+j]).([]interface{})
				key := fw.Canon(b)
				if want[key] == 0 {
					rec.Violation("C14:sio:unexpected-emission-batch", fmt.Sprintf("processing %s (recipients %v): reported batch %s is not what an addressed machine emits for it", uidOf(x), recips, fw.Short(b)), replay)
					return
				}
				want[key]--
				queue = append(queue, b...)
			}
			bi += nb
		}
		if !judged {
			rec.Bucket("sio_unjudged_target_shape")
			return
		}
		if bi != len(res.Emitted) {
			rec.Violation("C14:sio:extra-emission-reported", fmt.Sprintf("%d emission batch(es) reported beyond what the addressed machines emit (a message was delivered more than once, or to a machine it was not addressed to)", len(res.Emitted)-bi), replay)
			return
		}
		var all []string
		for mid := range known {
			all = append(all, mid)
		}
		sort.Strings(all)
		for _, mid := range all {
			if _, have := c.Machines[mid]; have != ordinary[mid] {
				rec.Violation("C14:sio:membership-differs", fmt.Sprintf("machine %q: in the crew = %v, according to the crew operations addressed to the captain = %v", mid, have, ordinary[mid]), replay)
				return
			}
			got := logOf(c, mid)
			if fw.Canon(got) != fw.Canon(expectLog[mid]) {
				cls := "log-differs"
				if len(got) > len(expectLog[mid]) {
					cls = "delivered-too-often-or-to-unaddressed-machine"
				} else if len(got) < len(expectLog[mid]) {
					cls = "message-not-delivered"
				}
				rec.Violation("C14:sio:"+cls, fmt.Sprintf("machine %q has seen %v, the routing rule says %v", mid, got, expectLog[mid]), replay)
				return
			}
		}
		// service machines only receive what is addressed to them
		for mid := range c.Machines {
			if !ordinary[mid] && !service[mid] && !expectedSentinels[mid] {
				rec.Violation("C14:sio:captain-acted-on-unaddressed-message", fmt.Sprintf("machine %q appeared: the captain acted on a message that was not addressed to it", mid), replay)
				return
			}
		}
		if tm, ok := c.Machines["timers"]; ok && tm.State != nil {
			unexpected := false
			if tmap, ok := fw.Plain(tm.State.Bs["timers"]).(map[string]interface{}); ok {
				for id := range tmap {
					if !expectedTimers[id] {
						unexpected = true
					}
				}
			}
			if unexpected {
				rec.Violation("C14:sio:timers-acted-on-unaddressed-message", "a timer exists although no timer request was addressed to the timers machine: "+fw.Short(tm.State.Bs["timers"]), replay)
				return
			}
		}
		rec.Bucket("sio_messages_checked")
	}
	total := 0
	for _, l := range expectLog {
		total += len(l)
	}
	if total >= 2 {
		rec.Nontrivial(fw.Canon([]interface{}{mids, history}))
		rec.Bucket("sio_histories_with_deliveries")
		if i%400 == 3 {
			rec.Sample(map[string]interface{}{"machines": mids, "history": history, "logs": expectLog})
		}
	}
	if len(mids) == 0 {
		rec.Bucket("sio_empty_crew")
	}
}

func Run(cfg fw.Config, rec *fw.Rec) {
	log.SetOutput(io.Discard)
	rec.Rule = "crews (step limit 50, 3 or 2 - the last ends every recorder walk by the limit) of 0-6 recorder machines (ids incl. look-alikes of service names and the empty id) x histories of 1-5 submitted messages whose 'emit' fields script up to 3 generations of routed and unrouted follow-ups; targets: absent, an id, an unknown id, '*', lists with unknown / repeated / non-string members, the empty list, captain / timers; some messages carry crew-op or timer-request payloads that a wrongly addressed service machine would act on; in every second history crew operations addressed to the captain - submitted or emitted by recorders - hire, replace and fire recorders while messages to them are in flight (hire-then-talk, talk-then-hire, hire-talk-fire-talk within one emission batch), and the model's membership changes at the point of the breadth-first order where the captain is presented with the operation; null messages are submitted and emitted (for every ordinary machine; no node consumes one, but a recorder hired at its action node, or left there by the step limit, goes on when presented with one); the routing reference model walks each recorder as the two-node machine it is, under the crew's limit, replays Result.Emitted (breadth-first, per-machine emission order, every batch consumed exactly) and predicts every machine's log as a sequence; non-trivial = history with >= 2 deliveries; distinct by (machines, history)"
	rec.Required = []string{"sio_messages_checked", "sio_histories_with_deliveries", "sio_empty_crew", "sio_machine_hired_during_processing", "sio_machine_fired_during_processing", "sio_delivery_to_machine_hired_in_this_history", "sio_histories_under_a_step_limit_that_ends_every_walk", "sio_histories_with_a_machine_whose_state_cannot_be_serialised", "sio_null_message_submitted", "sio_machine_hired_in_the_middle_of_its_work", "sio_null_message_lets_a_machine_go_on"}
	rec.Assume = []string{"numbers / objects as routing targets are defined by neither code nor documentation and are recorded, not judged", "machine order within a round is unspecified: batches of one round are matched as a multiset and re-queued in the observed order"}
	n := cfg.Pick(3000, 50000)
	fw.Parallel(cfg.Workers, n, func(w, i int) { sioHistory(cfg, rec, i) })
}
