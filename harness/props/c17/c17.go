// Package c17: timers (sio part).  The harness owns the crew's input channel
// and plays the crew loop: while it does not receive, a due timer's goroutine
// is blocked inside the emitter ("during a firing"), and the harness can
// process requests meanwhile, exactly as a busy crew loop would.  Requests are
// messages to the timers machine.  The mcrew part runs in-package
// (harness/_inpkg/mcrew/c17.go).
package c17

import (
	"bytes"
	"context"
	"encoding/json"
	"fmt"
	"io"
	"log"
	"math/rand"
	"runtime/pprof"
	"strings"
	"time"

	"github.com/Comcast/sheens/core"
	"github.com/Comcast/sheens/sio"

	"verif/fw"
	"verif/props/c14"
	"verif/siox"
)

type trec struct {
	id        string
	uid       string
	delay     time.Duration
	t0        time.Time
	state     string // requested pending notaccepted fired cancelled
	fired     int
	cancelRet time.Time
	overlap   bool // a cancel overlapped the firing (the goroutine was already blocked emitting)
}

type mon struct {
	rec      *fw.Rec
	c        *sio.Crew
	ch       *siox.Chans
	ctx      context.Context
	recs     map[string]*trec
	pending  map[string]string // model: id -> uid
	reported map[string]string // last reported timers state: id -> uid
	repState []byte            // the same, as the JSON a persisting host would have written
	n        int
	scenario interface{}
	bad      bool
	consumer chan *sio.Result
	done     chan struct{}
}

func (m *mon) violation(cls, why string) {
	m.bad = true
	m.rec.Violation("C17:sio:"+cls, why, m.scenario)
}

func uidOf(x interface{}) string {
	if mm, ok := x.(map[string]interface{}); ok {
		s, _ := mm["timerUid"].(string)
		return s
	}
	return ""
}

// pendingFrom extracts id -> uid from a timers machine state.
func pendingFrom(st *core.State) (map[string]string, error) {
	out := map[string]string{}
	if st == nil {
		return out, nil
	}
	js, err := json.Marshal(st.Bs["timers"])
	if err != nil {
		return nil, err
	}
	var raw map[string]struct {
		Id  string
		Msg map[string]interface{}
	}
	if err := json.Unmarshal(js, &raw); err != nil {
		return nil, err
	}
	for id, e := range raw {
		out[id], _ = e.Msg["timerUid"].(string)
	}
	return out, nil
}

// process plays one iteration of the crew loop.
func (m *mon) process(msg interface{}) *sio.Result {
	var res *sio.Result
	var err error
	done := make(chan bool, 1)
	go func() {
		done <- m.rec.Guard("C17:sio", m.scenario, func() { res, err = m.c.ProcessMsg(m.ctx, msg) })
	}()
	select {
	case panicked := <-done:
		if panicked {
			m.bad = true
			return nil
		}
	case <-time.After(60 * time.Second):
		m.violation("request-never-returns", "a request to the crew did not return within 60 s: "+fw.Short(msg))
		return nil
	}
	if err != nil || res == nil {
		m.violation("process-error", fmt.Sprint(err))
		return nil
	}
	// what the host learns about the timers from this result
	if ch, ok := res.Changed[sio.TimersMachine]; ok && ch.State != nil {
		p, err := pendingFrom(ch.State)
		if err != nil {
			m.violation("unserialisable-timers-state", err.Error())
			return nil
		}
		m.reported = p
		m.repState, _ = json.Marshal(ch.State)
	}
	// hand the result to a consumer goroutine that serialises it, as Stdio does
	select {
	case m.consumer <- res:
	default:
	}
	return res
}

func (m *mon) consume() {
	defer close(m.done)
	for r := range m.consumer {
		for _, e := range r.Emitted {
			sio.JS(e)
		}
		for _, ch := range r.Changed {
			sio.JShort(ch)
		}
	}
}

func (m *mon) make(id string, d time.Duration, where string) {
	m.n++
	uid := fmt.Sprintf("t%d", m.n)
	r := &trec{id: id, uid: uid, delay: d, state: "requested", t0: time.Now()}
	m.recs[uid] = r
	prev := m.pending[id]
	msg := map[string]interface{}{"to": "timers", "makeTimer": map[string]interface{}{"id": id, "in": d.String(), "msg": map[string]interface{}{"to": "sink", "uid": uid, "timerUid": uid, "id": id}}}
	if m.process(msg) == nil {
		return
	}
	m.rec.Eval(1)
	m.rec.Bucket("make_" + where)
	// accepted = the request succeeded and the reported pending set holds it right after
	if m.reported[id] == uid {
		r.state = "pending"
		m.pending[id] = uid
		m.rec.Bucket("accepted")
		if prev != "" && m.recs[prev].state == "pending" {
			// the implementation replaced a pending timer; the old one must not fire any more
			m.recs[prev].state = "cancelled"
			m.recs[prev].cancelRet = time.Now()
		}
		return
	}
	r.state = "notaccepted"
	m.rec.Bucket("requests_not_accepted")
	if prev == "" {
		m.violation("make-request-ignored", fmt.Sprintf("the request to make timer %s (%s, in %v) on a free id was answered, but no such timer is reported as pending", id, uid, d))
		return
	}
	if prev != "" && m.recs[prev].state == "pending" && m.reported[id] == prev {
		// the id is taken: the request is refused and the pending timer stays
		m.rec.Bucket("make_on_a_pending_id_refused_and_the_pending_timer_kept")
		return
	}
	if prev != "" && m.recs[prev].state == "pending" && m.reported[id] == "" {
		if m.recs[prev].delay >= time.Second {
			// nowhere near due, never cancelled - and gone: accepted timers are pending until
			// they fire or are cancelled
			m.violation("refused-make-removed-a-pending-timer", fmt.Sprintf("the request to make timer %s (%s) while %s is pending under that id (due in %v) was not accepted - and %s is no longer reported as pending although it neither fired nor was cancelled", id, uid, prev, m.recs[prev].delay, prev))
			return
		}
		// a short one may have fired in the meantime
		m.recs[prev].state = "cancelled"
		m.recs[prev].cancelRet = time.Now()
		delete(m.pending, id)
	}
}

func (m *mon) cancel(id string, where string, blockedEmitting bool) {
	uid := m.pending[id]
	msg := map[string]interface{}{"to": "timers", "cancelTimer": id}
	if m.process(msg) == nil {
		return
	}
	now := time.Now()
	m.rec.Eval(1)
	m.rec.Bucket("cancel_" + where)
	if uid == "" {
		return
	}
	if m.reported[id] != "" && m.recs[uid].state == "pending" && m.recs[uid].delay >= time.Second {
		// a timer that is nowhere near due, a cancel request for its id - and it is still pending
		m.violation("cancel-request-ignored", fmt.Sprintf("the cancel request for the pending timer %s (%s, due in %v) was answered, but the timer is still reported as pending", id, uid, m.recs[uid].delay))
		return
	}
	if m.reported[id] == "" {
		r := m.recs[uid]
		if r.state == "pending" {
			r.state = "cancelled"
			r.cancelRet = now
			// Was the timer's goroutine possibly already past its timer channel
			// (blocked in the emitter, or about to be)?  Then cancel and firing overlap
			// and either outcome is acceptable.
			r.overlap = blockedEmitting || !now.Before(r.t0.Add(r.delay))
			delete(m.pending, id)
			m.rec.Bucket("cancelled")
		}
	}
}

// sinkLog returns the uids the sink machine has been presented with.
func (m *mon) sinkLog() []string {
	sm, ok := m.c.Machines["sink"]
	if !ok || sm.State == nil {
		return nil
	}
	l, _ := fw.Plain(sm.State.Bs["log"]).([]interface{})
	var out []string
	for _, x := range l {
		out = append(out, fmt.Sprint(x))
	}
	return out
}

// fired records that a timer's message was presented to the machine it is
// addressed to; now is the time at which the crew's input delivered it.
func (m *mon) fired(uid string, now time.Time) {
	r := m.recs[uid]
	if r == nil {
		m.violation("fired-unknown", "a message arrived from a timer that was never requested: "+uid)
		return
	}
	r.fired++
	m.rec.Bucket("fired")
	if r.fired > 1 {
		m.violation("fired-twice", fmt.Sprintf("timer %s (%s) fired %d times", r.id, uid, r.fired))
		return
	}
	if due := r.t0.Add(r.delay); now.Before(due) {
		m.violation("fired-early", fmt.Sprintf("timer %s fired %v before its due time", uid, due.Sub(now)))
		return
	}
	switch r.state {
	case "cancelled":
		if !r.overlap {
			m.violation("fired-after-cancel", fmt.Sprintf("timer %s (%s) fired %v after its cancellation was acknowledged, although it was not yet due then", r.id, uid, now.Sub(r.cancelRet)))
			return
		}
		m.rec.Bucket("fired_overlapping_cancel")
	case "notaccepted":
		m.violation("not-accepted-timer-fired", fmt.Sprintf("timer %s (%s) fired although it was never reported as pending", r.id, uid))
		return
	case "pending":
		r.state = "fired"
		if m.pending[r.id] == uid {
			delete(m.pending, r.id)
		}
	}
}

// pump receives from the crew's input (as the loop would) until cond holds or
// the time is up; fired timer messages are recorded and then processed.
func (m *mon) pump(max time.Duration, cond func() bool) {
	deadline := time.After(max)
	for !m.bad {
		if cond != nil && cond() {
			return
		}
		select {
		case msg := <-m.ch.In:
			// whatever arrives on the crew's input is processed as the loop would;
			// a firing is observed as the delivery of the timer's message to its addressee
			arrived := time.Now()
			before := len(m.sinkLog())
			if m.process(msg) == nil {
				return
			}
			for _, uid := range m.sinkLog()[before:] {
				m.fired(uid, arrived)
				if m.bad {
					return
				}
			}
		case <-deadline:
			return
		case <-time.After(500 * time.Microsecond):
			if cond == nil {
				continue
			}
		}
	}
}

func (m *mon) shortPending() bool {
	for _, r := range m.recs {
		if r.state == "pending" && r.delay < time.Second {
			return true
		}
	}
	return false
}

// timerGoroutinesBusy: is any timer goroutine doing something other than
// waiting for its timer (i.e. blocked emitting or doing its bookkeeping)?
func timerGoroutinesBusy() bool {
	var buf bytes.Buffer
	pprof.Lookup("goroutine").WriteTo(&buf, 2)
	for _, g := range strings.Split(buf.String(), "\n\n") {
		if strings.Contains(g, "sio.(*TimerEntry).run") {
			first := g
			if i := strings.Index(g, "\n"); i > 0 {
				first = g[:i]
			}
			if !strings.Contains(first, "[select") {
				return true
			}
		}
	}
	return false
}

// quiesce: all short timers have fired or been cancelled, bookkeeping is done;
// then the reported and the live pending sets must equal the model.
func (m *mon) quiesce(note string) {
	m.pump(30*time.Second, func() bool { return !m.shortPending() })
	if m.bad {
		return
	}
	if m.shortPending() {
		for _, r := range m.recs {
			if r.state == "pending" && r.delay < time.Second {
				cls := "lost-timer"
				if m.reported[r.id] == r.uid {
					cls = "not-fired-within-bound"
				}
				m.violation(cls, fmt.Sprintf("accepted timer %s (%s, %v) has neither fired nor been cancelled 30 s after it was due", r.id, r.uid, r.delay))
				return
			}
		}
	}
	// let firing goroutines finish (bounded), draining late arrivals
	for i := 0; i < 400 && timerGoroutinesBusy(); i++ {
		m.pump(2*time.Millisecond, nil)
		if m.bad {
			return
		}
	}
	// sio reports a firing's bookkeeping with the next processed message: flush
	if m.process(map[string]interface{}{"to": "nobody-flush"}) == nil {
		return
	}
	if fw.Canon(m.reported) != fw.Canon(m.pending) {
		m.violation("reported-pending-differs", fmt.Sprintf("%s: the timers machine reports %v pending, but accepted minus fired minus cancelled is %v", note, m.reported, m.pending))
		return
	}
	live, err := pendingFrom(m.c.Machines[sio.TimersMachine].State)
	if err != nil {
		m.violation("unserialisable-timers-state", err.Error())
		return
	}
	if fw.Canon(live) != fw.Canon(m.pending) {
		m.violation("live-pending-differs", fmt.Sprintf("%s: the timers machine's state holds %v, the model says %v", note, live, m.pending))
		return
	}
	m.rec.Bucket("quiescent_points_compared")
}

func newMon(rec *fw.Rec, scenario interface{}) (*mon, context.CancelFunc) {
	ctx, cancel := context.WithCancel(context.Background())
	c, ch, err := siox.NewCrew(ctx, 50, 0, 16)
	if err != nil {
		rec.Inconclusive("crew: " + err.Error())
		cancel()
		return nil, nil
	}
	src, err := siox.Inline(c14.RecorderSpec)
	if err == nil {
		err = c.SetMachine(ctx, "sink", src, nil)
	}
	if err != nil {
		rec.Inconclusive("sink machine: " + err.Error())
		cancel()
		return nil, nil
	}
	c.GetChanged(ctx)
	m := &mon{rec: rec, c: c, ch: ch, ctx: ctx, recs: map[string]*trec{}, pending: map[string]string{}, reported: map[string]string{}, scenario: scenario, consumer: make(chan *sio.Result, 256), done: make(chan struct{})}
	go m.consume()
	return m, cancel
}

type step struct {
	Op   string `json:"op"` // make cancel pump quiesce block
	Id   string `json:"id,omitempty"`
	Ms   int    `json:"ms,omitempty"`
	Long bool   `json:"long,omitempty"`
}

func genSteps(r *rand.Rand) []step {
	ids := []string{"x", "y"}
	var out []step
	n := 3 + r.Intn(6)
	for i := 0; i < n; i++ {
		id := ids[r.Intn(2)]
		switch k := r.Intn(10); {
		case k < 4:
			out = append(out, step{Op: "make", Id: id, Ms: 2 + r.Intn(15), Long: r.Intn(6) == 0})
		case k < 6:
			out = append(out, step{Op: "cancel", Id: id})
		case k < 8:
			out = append(out, step{Op: "pump", Ms: 1 + r.Intn(20)})
		case k == 8:
			// do not receive for a while: due timers block inside the emitter ("during a firing");
			// then cancel / re-make the blocked id before receiving again
			out = append(out, step{Op: "block", Ms: 5 + r.Intn(20)})
			if r.Intn(2) == 0 {
				out = append(out, step{Op: "cancel", Id: id}, step{Op: "make", Id: id, Long: true})
			} else {
				out = append(out, step{Op: "make", Id: id, Ms: 3 + r.Intn(5)})
			}
		default:
			out = append(out, step{Op: "quiesce"})
		}
	}
	return out
}

func scenario(cfg fw.Config, rec *fw.Rec, i int) {
	r := cfg.Rng("c17-sio", i)
	steps := genSteps(r)
	if i%3 == 0 {
		// the pattern the property names: a timer is due while the crew is busy, its id is
		// cancelled and re-created, then the old message is received
		steps = append(steps, step{Op: "quiesce"}, step{Op: "make", Id: "x", Ms: 3}, step{Op: "block", Ms: 12},
			step{Op: "cancel", Id: "x"}, step{Op: "make", Id: "x", Long: true}, step{Op: "pump", Ms: 10}, step{Op: "quiesce"},
			step{Op: "cancel", Id: "x"}, step{Op: "quiesce"})
	}
	if i%5 == 2 {
		// somebody re-sets the timers machine (a crew operation without a state) while timers
		// are pending: they stay pending and fire as if nothing had happened
		steps = append(steps, step{Op: "quiesce"}, step{Op: "make", Id: "x", Ms: 12}, step{Op: "make", Id: "y", Long: true}, step{Op: "reset"},
			step{Op: "pump", Ms: 30}, step{Op: "quiesce"}, step{Op: "make", Id: "x", Ms: 4}, step{Op: "reset"}, step{Op: "cancel", Id: "x"}, step{Op: "cancel", Id: "y"}, step{Op: "pump", Ms: 10})
	}
	steps = append(steps, step{Op: "quiesce"})
	m, cancel := newMon(rec, map[string]interface{}{"steps": steps, "index": i})
	if m == nil {
		return
	}
	defer func() {
		cancel()
		close(m.consumer)
		<-m.done
	}()
	blocked := false
	for si, st := range steps {
		if m.bad {
			break
		}
		switch st.Op {
		case "make":
			d := time.Duration(st.Ms) * time.Millisecond
			if st.Long {
				d = 10 * time.Second
			}
			where := "outside"
			if blocked {
				where = "while_a_firing_is_blocked"
			}
			// sio cancels a pending timer with the same id and does not create the new one;
			// only make on free ids exercises the property, so cancel first half of the time
			m.make(st.Id, d, where)
		case "cancel":
			if m.pending[st.Id] == "" {
				// refused, of course - and the timers machine must go on listening
				rec.Bucket("cancel_of_free_id")
			}
			where := "outside"
			if blocked {
				where = "while_a_firing_is_blocked"
			}
			m.cancel(st.Id, where, blocked)
		case "reset":
			if m.process(map[string]interface{}{"to": "captain", "update": map[string]interface{}{"timers": map[string]interface{}{}}}) != nil {
				rec.Bucket("timers_machine_reset_while_timers_pending")
			}
		case "pump":
			blocked = false
			m.pump(time.Duration(st.Ms)*time.Millisecond, nil)
		case "block":
			time.Sleep(time.Duration(st.Ms) * time.Millisecond)
			blocked = true
			rec.Bucket("phases_with_blocked_firing")
		case "quiesce":
			blocked = false
			m.quiesce(fmt.Sprintf("step %d", si))
		}
	}
	if !m.bad {
		fired := 0
		for _, rr := range m.recs {
			fired += rr.fired
		}
		if fired > 0 {
			rec.Nontrivial(fw.Canon(steps))
			if i%60 == 1 {
				rec.Sample(map[string]interface{}{"sio_timer_scenario": steps, "timers_fired": fired})
			}
		}
	}
}

// restart: timers created with a due time after the restart must fire exactly
// once, on the new crew only.
func restart(cfg fw.Config, rec *fw.Rec, i int) {
	r := cfg.Rng("c17-sio-restart", i)
	desc := map[string]interface{}{"restart_scenario": i}
	m, cancel := newMon(rec, desc)
	if m == nil {
		return
	}
	n := 2 + r.Intn(2)
	ids := []string{"a", "b", "c"}
	for k := 0; k < n; k++ {
		m.make(ids[k], time.Duration(120+r.Intn(80))*time.Millisecond, "before_restart")
	}
	// in a quarter of the scenarios the host stays down long enough for the short timers to
	// be overdue when it comes back, while a long one (3 s) is not due yet
	overdue := i%4 == 3
	if overdue {
		m.make("z", 3*time.Second, "before_restart")
	}
	// one short timer fires before the restart
	m.make("early", 3*time.Millisecond, "before_restart")
	m.pump(10*time.Second, func() bool {
		for _, rr := range m.recs {
			if rr.id == "early" && rr.state == "pending" {
				return false
			}
		}
		return true
	})
	m.pump(3*time.Millisecond, nil)
	if m.bad {
		cancel()
		return
	}
	// the host's persisted copy of the timers machine: what was reported, as JSON
	var stored *core.State
	{
		res := m.process(map[string]interface{}{"to": "nobody-flush"})
		_ = res
		js, err := json.Marshal(m.c.Machines[sio.TimersMachine].State)
		if err != nil {
			m.violation("unserialisable-timers-state", err.Error())
			cancel()
			return
		}
		stored = &core.State{}
		json.Unmarshal(js, stored)
	}
	oldPending := map[string]string{}
	for id, uid := range m.pending {
		oldPending[id] = uid
	}
	oldRecs := m.recs
	oldIn := m.ch.In
	// crash: the old crew's context ends
	cancel()
	close(m.consumer)
	<-m.done
	persisted := map[string]string{}
	for id, uid := range oldPending {
		persisted[id] = uid
	}
	if overdue {
		time.Sleep(260 * time.Millisecond)
		rec.Bucket("restart_with_overdue_timers")
	}
	// a third of the scenarios restart twice in a row, the second time from what the first
	// restarted crew reported
	boots := 1
	if i%3 == 1 {
		boots = 2
	}
	var m2 *mon
	var cancel2 context.CancelFunc
	for boot := 1; boot <= boots; boot++ {
		m2, cancel2 = newMon(rec, desc)
		if m2 == nil {
			return
		}
		m2.recs = oldRecs
		m2.pending = oldPending
		var err error
		if rec.Guard("C17:sio:boot", desc, func() { err = m2.c.SetMachine(m2.ctx, sio.TimersMachine, nil, stored) }) {
			cancel2()
			return
		}
		if err != nil {
			m2.violation("restart-fails", "timers state cannot be restored: "+err.Error())
			cancel2()
			return
		}
		rec.Eval(1)
		// No firing completes before the harness (playing the crew loop) receives it, so
		// right after the restart the pending set - in the live machine and as reported with
		// the next result - is exactly the persisted one.
		live, lerr := pendingFrom(m2.c.Machines[sio.TimersMachine].State)
		if lerr != nil || fw.Canon(live) != fw.Canon(persisted) {
			m2.violation("pending-after-restart-differs:live", fmt.Sprintf("restart %d: the persisted timers were %v, the restarted timers machine holds %v (%v)", boot, persisted, live, lerr))
			cancel2()
			return
		}
		m2.reported = map[string]string{}
		for id, uid := range persisted {
			m2.reported[id] = uid
		}
		m2.repState = nil
		if m2.process(map[string]interface{}{"to": "nobody-flush"}) == nil {
			cancel2()
			return
		}
		if fw.Canon(m2.reported) != fw.Canon(persisted) {
			m2.violation("pending-after-restart-differs:reported", fmt.Sprintf("restart %d: the persisted timers were %v, the first result after the restart reports %v as pending", boot, persisted, m2.reported))
			cancel2()
			return
		}
		rec.Bucket("pending_set_compared_right_after_restart")
		if boot < boots {
			// the host persists what was reported (if anything was) and crashes again
			if m2.repState != nil {
				stored = &core.State{}
				json.Unmarshal(m2.repState, stored)
				rec.Bucket("second_restart_from_state_reported_after_first")
			}
			cancel2()
			close(m2.consumer)
			<-m2.done
		}
	}
	defer func() {
		cancel2()
		close(m2.consumer)
		<-m2.done
	}()
	// in half of the scenarios one resumed timer is cancelled: the others must be unaffected
	if i%2 == 0 && len(persisted) >= 2 {
		for id := range persisted {
			m2.cancel(id, "after_restart", false)
			if m2.recs[persisted[id]].state == "cancelled" {
				delete(persisted, id)
				rec.Bucket("resumed_timer_cancelled_after_restart")
			}
			break
		}
	}
	// every restored timer fires exactly once on the new crew, none on the old one
	m2.pump(30*time.Second, func() bool { return !m2.shortPending() })
	if !m2.bad && m2.shortPending() {
		for _, rr := range m2.recs {
			if rr.state == "pending" && rr.delay < time.Second {
				m2.violation("restored-timer-never-fired", fmt.Sprintf("timer %s (%s) persisted before the restart has not fired 30 s after it was due", rr.id, rr.uid))
				return
			}
		}
	}
	select {
	case <-oldIn:
		m2.violation("fired-on-old-crew", "after the restart a timer fired on the old crew")
		return
	case <-time.After(20 * time.Millisecond):
	}
	if m2.bad {
		return
	}
	for id, uid := range persisted {
		rr := oldRecs[uid]
		if rr.delay >= time.Second {
			// not due within this scenario: it must not have fired (never early)
			if rr.fired != 0 {
				m2.violation("fired-early", fmt.Sprintf("timer %s (%s, due after %v) fired during the scenario", id, uid, rr.delay))
				return
			}
			continue
		}
		if rr.fired != 1 {
			m2.violation("restored-timer-not-fired-once", fmt.Sprintf("timer %s (%s) persisted before the restart fired %d times after it", id, uid, rr.fired))
			return
		}
	}
	m2.pump(30*time.Millisecond, nil) // nothing may fire a second time
	if !m2.bad {
		rec.Bucket("restart_scenarios")
		rec.BucketN("timers_resumed_after_restart", int64(len(persisted)))
		rec.Nontrivial(fmt.Sprintf("restart-%d-%d", cfg.Seed, i))
	}
}

// deletedTimersMachine: somebody deletes the timers machine while a timer is pending.  What
// the timers then do must not make the crew report a machine it does not have (a store
// applying the reports would hold a "timers" machine the crew lacks).
func deletedTimersMachine(cfg fw.Config, rec *fw.Rec) {
	for k := 0; k < 6; k++ {
		desc := map[string]interface{}{"scenario": "timers machine deleted while a timer is pending", "variant": k}
		m, cancel := newMon(rec, desc)
		if m == nil {
			return
		}
		store := map[string]bool{} // machine ids a store built from the reports would hold
		apply := func(res *sio.Result) {
			if res == nil {
				return
			}
			for mid, ch := range res.Changed {
				if ch.Deleted {
					delete(store, mid)
				} else {
					store[mid] = true
				}
			}
		}
		m.make("t", time.Duration(5+3*k)*time.Millisecond, "before_delete")
		m.make("long", 10*time.Second, "before_delete")
		apply(m.process(map[string]interface{}{"to": "captain", "delete": []interface{}{"timers"}}))
		if k%2 == 0 {
			apply(m.process(map[string]interface{}{"to": "timers", "cancelTimer": "long"}))
		}
		// receive what fires, reporting as a host would
		deadline := time.Now().Add(300 * time.Millisecond)
		for time.Now().Before(deadline) && !m.bad {
			select {
			case x := <-m.ch.In:
				apply(m.process(x))
			case <-time.After(5 * time.Millisecond):
			}
		}
		apply(m.process(map[string]interface{}{"to": "nobody-flush"}))
		if !m.bad {
			_, live := m.c.Machines[sio.TimersMachine]
			if store[sio.TimersMachine] && !live {
				m.violation("deleted-timers-machine-reported", "after the timers machine was deleted the crew still reports a state for it: a store built from the reports holds a timers machine the crew does not have")
			} else {
				rec.Bucket("timers_machine_deleted_with_pending_timers")
			}
		}
		cancel()
		close(m.consumer)
		<-m.done
	}
}

func Run(cfg fw.Config, rec *fw.Rec) {
	log.SetOutput(io.Discard)
	rec.Rule = "(at the end: timers through the crew's own loop - Crew.Loop running, the harness as the coupling - with messages to a sink, to nobody, null, a string, false, {}: reported as pending from the result of the request until a result that follows the firing, which arrives within 30 s) sio timers through a real Crew whose input channel the harness owns (the harness plays the crew loop; results are serialised by a consumer goroutine as Stdio does): scenarios of 4-18 steps over ids {x,y}: make (2-16 ms, or 10 s), cancel (also of ids that are free: refused, and later requests must still be honoured), receive for a while, stop receiving so that due timers block inside the emitter and then cancel / re-create the blocked id, quiesce; per timer: fired at most once, not before clock-before-request + delay, not after an acknowledged cancel that preceded its due time; at quiescent points the reported timers state (after a flush message) and the live machine state must equal accepted - fired - cancelled ('accepted' = reported pending right after the request); restart: timers persisted as JSON resume on a new crew (in a third of the scenarios the new crew is restarted again from what it reported), in a quarter the host stays down until the short timers are overdue while a 3 s timer is not yet due; the pending set held and reported right after each restart equals the persisted one, the timers fire exactly once on the last crew and never on an earlier one; under -race; non-trivial = scenario in which a timer fired; distinct by scenario"
	rec.Required = []string{"timers_through_the_crews_own_loop", "loop_timer_message_null", "fired", "accepted", "cancelled", "quiescent_points_compared", "phases_with_blocked_firing", "make_while_a_firing_is_blocked", "restart_scenarios", "timers_resumed_after_restart", "resumed_timer_cancelled_after_restart", "pending_set_compared_right_after_restart", "second_restart_from_state_reported_after_first", "restart_with_overdue_timers", "cancel_of_free_id", "timers_machine_deleted_with_pending_timers", "timers_machine_reset_while_timers_pending"}
	rec.Assume = []string{"a cancel acknowledged after the timer's due time overlaps its firing (the goroutine may already be blocked in the emitter): either outcome accepted", "a request the timers machine does not accept (duplicate pending id) must leave the pending set as it was", "bounded progress: 30 s"}
	n := cfg.Pick(150, 5000)
	fw.Parallel(6, n, func(w, i int) { scenario(cfg, rec, i) })
	for i := 0; i < cfg.Pick(15, 150); i++ {
		restart(cfg, rec, i)
	}
	deletedTimersMachine(cfg, rec)
	fw.Parallel(4, cfg.Pick(4, 40), func(w, i int) { loopDriven(rec, i) })
}
