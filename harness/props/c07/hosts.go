package c07

// Host-level totality: a sio crew (captain, timers, ordinary machines) is fed
// hostile requests; every ProcessMsg must return (panic trap + watchdog), and
// after each of them the crew must still respond to an ordinary message.

import (
	"context"
	"fmt"
	"time"

	"github.com/Comcast/sheens/core"
	"github.com/Comcast/sheens/sio"

	"verif/fw"
	"verif/props/c14"
	"verif/siox"
)

func hostileCrewMessages() []interface{} {
	J := fw.FromJSON
	return []interface{}{
		// timers
		J(`{"to":"timers","makeTimer":{"id":"t1","in":"1h","msg":{"to":"rec","uid":"late"}}}`),
		J(`{"to":"timers","makeTimer":{"id":"t1","in":"1h","msg":{"to":"rec","uid":"late2"}}}`), // same id again while pending
		J(`{"to":"timers","makeTimer":{"id":"t1","in":"1h","msg":{"to":"rec","uid":"late3"}}}`),
		J(`{"to":"timers","cancelTimer":"t1"}`),
		J(`{"to":"timers","cancelTimer":"t1"}`), // twice
		J(`{"to":"timers","cancelTimer":"never-made"}`),
		J(`{"to":"timers","cancelTimer":5}`),
		J(`{"to":"timers","makeTimer":{"id":"t2","in":5,"msg":{}}}`),
		J(`{"to":"timers","makeTimer":{"id":"t2","in":"soon","msg":{}}}`),
		J(`{"to":"timers","makeTimer":{"id":7,"in":"1s","msg":{}}}`),
		J(`{"to":"timers","makeTimer":{"id":"t3","in":"-5s","msg":{"to":"rec","uid":"negative"}}}`),
		J(`{"to":"timers","makeTimer":{"id":"t4","in":"0s","msg":null}}`),
		J(`{"to":"timers","makeTimer":{"in":"1h","msg":{}}}`),
		J(`{"to":"timers","makeTimer":"not an object"}`),
		J(`{"to":"timers"}`),
		J(`{"to":"timers","makeTimer":{"id":"t5","in":"1h","msg":{"to":"timers","cancelTimer":"t5"}}}`),
		// captain
		J(`{"to":"captain","update":{"m":null}}`),
		J(`{"to":"captain","update":{"m":{"spec":null,"state":null}}}`),
		J(`{"to":"captain","update":{"m":{"spec":{"inline":{"nodes":{"start":null}}}}}}`),
		J(`{"to":"captain","update":{"m":{"spec":{"inline":{"nodes":{"start":{"branching":{"branches":[null]}}}}}}}}`),
		J(`{"to":"captain","update":{"m":{"spec":{"inline":{"nodes":{"start":{"action":{"interpreter":"nope","source":"x"}}}}}}}}`),
		J(`{"to":"captain","update":{"m":{"spec":{"url":"file:///nonexistent/spec.yaml"}}}}`),
		J(`{"to":"captain","update":{"m":{"spec":{"name":"only-a-name"}}}}`),
		J(`{"to":"captain","update":{"m":{"state":{"node":"nowhere","bs":null}}}}`),
		J(`{"to":"captain","update":{"timers":{"state":{"node":"start","bs":{"timers":{"x":null}}}}}}`),
		J(`{"to":"captain","update":{"timers":{"state":{"node":"start","bs":{"timers":{"x":{"id":"x"},"y":5,"z":[1]}}}}}}`),
		J(`{"to":"captain","update":{"timers":{"state":{"node":"start","bs":{"timers":null}}}}}`),
		J(`{"to":"timers","makeTimer":{"id":"after-null","in":"1h","msg":{"to":"rec","uid":"late4"}}}`), // the first request after the timers were set to null
		J(`{"to":"captain","update":{"timers":{}}}`),
		J(`{"to":"captain","update":{"captain":{"state":{"node":"do","bs":{"?op":{"delete":["rec"]}}}}}}`),
		J(`{"to":"captain","update":5}`),
		J(`{"to":"captain","update":[1,2]}`),
		J(`{"to":"captain","delete":["never-there"]}`),
		J(`{"to":"captain","delete":"m"}`),
		J(`{"to":"captain","delete":[5,null]}`),
		J(`{"to":"captain","update":{"m":{"state":{"node":"start"}}},"delete":["m"]}`),
		J(`{"to":"captain","update":{"timers":{"state":{"node":"start","bs":{"timers":5}}}}}`),
		J(`{"to":"captain","update":{"timers":{"state":{"node":"start","bs":{"timers":{"x":{"Id":"x","Msg":1,"At":"not a time"}}}}}}}`),
		J(`{"to":"captain","update":{"captain":{"state":{"node":"do","bs":{}}}}}`),
		J(`{"to":"captain"}`),
		J(`{"to":"captain","delete":["timers"]}`),
		J(`{"to":"timers","makeTimer":{"id":"after-delete","in":"1h","msg":{}}}`),
		J(`{"to":"captain","delete":["captain"]}`),
		J(`{"to":"captain","update":{"x":{"state":{"node":"start"}}}}`),
		// routing oddities and odd machines
		J(`{"to":5,"uid":"n"}`), J(`{"to":{},"uid":"o"}`), J(`{"to":[],"uid":"e"}`), J(`{"to":null,"uid":"z"}`),
		J(`{"to":["nospec","rec"],"uid":"ns"}`), J(`{"to":"nospec","uid":"ns2"}`), J(`{"to":"nilstate","uid":"ns3"}`),
		"bare string", 42.0, nil, []interface{}{1.0, "two"}, true,
	}
}

func hostParts(cfg fw.Config, rec *fw.Rec) {
	msgs := hostileCrewMessages()
	newCrew := func() (*sio.Crew, context.CancelFunc, bool) {
		ctx, cancel := context.WithCancel(context.Background())
		c, _, err := siox.NewCrew(ctx, 30, 64, 8)
		if err != nil {
			rec.Inconclusive("crew: " + err.Error())
			cancel()
			return nil, nil, false
		}
		src, _ := siox.Inline(c14.RecorderSpec)
		if err := c.SetMachine(ctx, "rec", src, nil); err != nil {
			rec.Inconclusive("SetMachine: " + err.Error())
			cancel()
			return nil, nil, false
		}
		c.SetMachine(ctx, "nospec", nil, nil)             // a machine without a spec
		c.SetMachine(ctx, "nilstate", src, &core.State{}) // empty state
		return c, cancel, true
	}
	// each hostile message alone on a fresh crew, and all of them in sequence on one crew
	for mode := 0; mode < 2; mode++ {
		var c *sio.Crew
		var cancel context.CancelFunc
		probeN := 0
		for i, m := range msgs {
			if c == nil || mode == 0 {
				if cancel != nil {
					cancel()
				}
				var ok bool
				c, cancel, ok = newCrew()
				if !ok {
					return
				}
				probeN = 0
			}
			desc := map[string]interface{}{"host": "sio", "message": m, "mode": []string{"alone", "in sequence"}[mode], "index": i}
			rec.LogCase(0, desc)
			ctx, cctx := context.WithTimeout(context.Background(), 5*time.Second)
			crew := c
			ok := guarded(rec, "C07:host:sio", desc, 30*time.Second, func() { crew.ProcessMsg(ctx, fw.Deep(m)) })
			cctx()
			rec.Eval(1)
			if !ok {
				c = nil // the crew may be wedged: start over
				continue
			}
			// the crew must still respond
			probeN++
			var before, after int
			if rm, have := crew.Machines["rec"]; have && rm.State != nil {
				l, _ := fw.Plain(rm.State.Bs["log"]).([]interface{})
				before = len(l)
			}
			pctx, pc := context.WithTimeout(context.Background(), 5*time.Second)
			ok = guarded(rec, "C07:host:sio:probe", desc, 30*time.Second, func() {
				crew.ProcessMsg(pctx, map[string]interface{}{"to": "rec", "uid": fmt.Sprintf("probe%d", probeN)})
			})
			pc()
			if !ok {
				c = nil
				continue
			}
			if rm, have := crew.Machines["rec"]; have && rm.State != nil {
				l, _ := fw.Plain(rm.State.Bs["log"]).([]interface{})
				after = len(l)
			}
			if after != before+1 {
				rec.Violation("C07:host:sio:crew-unresponsive", fmt.Sprintf("after the request the crew no longer delivers an ordinary message to an ordinary machine (log %d -> %d)", before, after), desc)
				c = nil
				continue
			}
			rec.Bucket("host_requests_survived")
			rec.Nontrivial(fw.Canon(desc))
		}
		if cancel != nil {
			cancel()
		}
	}
}
