#!/bin/bash
# Confirms a sub-agent's seeded change in a fresh scratch worktree:
#   patch applies, project builds, existing suite passes with it, the demonstration fails with it and passes without it.
# usage: seedcheck.sh C05      (reads /tmp/wt-C05/SEED_OUT)
ID=$1
SRC=${SEEDSRC:-/tmp/wt}-$ID
CHK=/tmp/chk-$ID
export GOFLAGS=-mod=mod GOPROXY=off GOSUMDB=off GOTOOLCHAIN=local
set -u
rm -rf $CHK; git -C /repo worktree prune; git -C /repo worktree add -q --detach $CHK HEAD || exit 2
cd $CHK
if ! git apply --check $SRC/SEED_OUT/patch.diff; then echo "RESULT $ID patch-does-not-apply"; exit 1; fi
git apply $SRC/SEED_OUT/patch.diff
if ! go build ./... 2>/tmp/seedcheck-$ID.build; then echo "RESULT $ID does-not-build"; cat /tmp/seedcheck-$ID.build | head; exit 1; fi
if ! go test -vet=off -count=1 ./... > /tmp/seedcheck-$ID.suite 2>&1; then echo "RESULT $ID suite-fails-with-patch"; grep -v "^ok\|no test files" /tmp/seedcheck-$ID.suite | head -20; exit 1; fi
# demo files: untracked files of the agent's worktree outside SEED_OUT
demos=$(git -C $SRC ls-files --others --exclude-standard | grep -v '^SEED_OUT/')
for f in $demos; do mkdir -p $(dirname $f); cp $SRC/$f $f; done
cmd=$(grep -v '^\s*#' $SRC/SEED_OUT/demo_cmd.txt | grep -v '^\s*$' | grep 'go ' | tail -1 | sed "s#$SRC#$CHK#g")
echo "demo files: $demos"; echo "demo cmd: $cmd"
( eval "$cmd" ) > /tmp/seedcheck-$ID.with 2>&1; with=$?
git apply -R $SRC/SEED_OUT/patch.diff
( eval "$cmd" ) > /tmp/seedcheck-$ID.without 2>&1; without=$?
echo "RESULT $ID with_patch_rc=$with without_patch_rc=$without"
cd /; git -C /repo worktree remove --force $CHK
[ $with -ne 0 ] && [ $without -eq 0 ]
