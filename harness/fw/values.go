package fw

// Subterms lists every value occurring in x (including x), de-duplicated by canon.
func Subterms(x interface{}) []interface{} {
	seen := map[string]bool{}
	var out []interface{}
	var walk func(v interface{})
	walk = func(v interface{}) {
		c := Canon(v)
		if !seen[c] {
			seen[c] = true
			out = append(out, v)
		}
		switch t := v.(type) {
		case map[string]interface{}:
			for _, e := range t {
				walk(e)
			}
		case []interface{}:
			for _, e := range t {
				walk(e)
			}
		}
	}
	walk(x)
	return out
}

// MapKeys lists every map key occurring anywhere in x, de-duplicated.
func MapKeys(x interface{}) []string {
	seen := map[string]bool{}
	var out []string
	var walk func(v interface{})
	walk = func(v interface{}) {
		switch t := v.(type) {
		case map[string]interface{}:
			for k, e := range t {
				if !seen[k] {
					seen[k] = true
					out = append(out, k)
				}
				walk(e)
			}
		case []interface{}:
			for _, e := range t {
				walk(e)
			}
		}
	}
	walk(x)
	return out
}
