// Package c20: analysis and graph renderings are faithful to the spec.
// Parse-back comparators: the Graphviz and Mermaid outputs are tokenised the
// way those tools would read them and compared with the spec graph; the
// analysis is compared with a reference graph analysis.
package c20

import (
	"bytes"
	"fmt"
	"io"
	"log"
	"sort"
	"strings"

	"github.com/Comcast/sheens/core"
	"github.com/Comcast/sheens/tools"

	"verif/fw"
	"verif/gen"
	"verif/ref"
)

type closer struct{ bytes.Buffer }

func (c *closer) Close() error { return nil }

// ---- reference analysis ----------------------------------------------------

type refAnalysis struct {
	NodeCount, Branches, Actions, Guards             int
	Terminal, Orphans, Empty, Missing, Vars, Interps []string
}

func sortedSet(m map[string]bool) []string {
	out := []string{}
	for k := range m {
		out = append(out, k)
	}
	sort.Strings(out)
	return out
}

func analyze(s *core.Spec) *refAnalysis {
	a := &refAnalysis{NodeCount: len(s.Nodes)}
	terminal, targeted, empty, missing, vars, interps := map[string]bool{}, map[string]bool{}, map[string]bool{}, map[string]bool{}, map[string]bool{}, map[string]bool{}
	for name, n := range s.Nodes {
		if n == nil {
			// a node without a body (uncompiled spec): it exists, and it ends the machine's way
			terminal[name] = true
			continue
		}
		if n.Action != nil || n.ActionSource != nil {
			a.Actions++
			if n.ActionSource != nil {
				interps[n.ActionSource.Interpreter] = true
			}
		}
		if n.Branches == nil || len(n.Branches.Branches) == 0 {
			terminal[name] = true
			continue
		}
		for _, b := range n.Branches.Branches {
			a.Branches++
			targeted[b.Target] = true
			switch {
			case b.Target == "":
				empty[name] = true
			case strings.HasPrefix(b.Target, "@"):
				vars[b.Target] = true
			default:
				if _, have := s.Nodes[b.Target]; !have {
					missing[b.Target] = true
				}
			}
			if b.Guard != nil || b.GuardSource != nil {
				a.Guards++
				if b.GuardSource != nil {
					interps[b.GuardSource.Interpreter] = true
				}
			}
		}
	}
	orphans := map[string]bool{}
	for name := range s.Nodes {
		if !targeted[name] {
			orphans[name] = true
		}
	}
	a.Terminal, a.Orphans, a.Empty, a.Missing, a.Vars = sortedSet(terminal), sortedSet(orphans), sortedSet(empty), sortedSet(missing), sortedSet(vars)
	a.Interps = sortedSet(interps)
	if len(a.Interps) == 0 {
		a.Interps = []string{"default"}
	}
	return a
}

func asSet(xs []string) string {
	m := map[string]bool{}
	for _, x := range xs {
		m[x] = true
	}
	return fw.Canon(sortedSet(m))
}

func checkAnalysis(s *core.Spec, got *tools.SpecAnalysis) string {
	want := analyze(s)
	if got.NodeCount != want.NodeCount {
		return fmt.Sprintf("NodeCount %d, the spec has %d nodes", got.NodeCount, want.NodeCount)
	}
	if got.Branches != want.Branches {
		return fmt.Sprintf("Branches %d, the spec has %d", got.Branches, want.Branches)
	}
	if got.Actions != want.Actions {
		return fmt.Sprintf("Actions %d, the spec has %d", got.Actions, want.Actions)
	}
	if got.Guards != want.Guards {
		return fmt.Sprintf("Guards %d, the spec has %d", got.Guards, want.Guards)
	}
	if asSet(got.TerminalNodes) != asSet(want.Terminal) {
		return fmt.Sprintf("TerminalNodes %v, expected %v", got.TerminalNodes, want.Terminal)
	}
	if asSet(got.Orphans) != asSet(want.Orphans) {
		return fmt.Sprintf("Orphans %v, expected %v", got.Orphans, want.Orphans)
	}
	if asSet(got.EmptyTargets) != asSet(want.Empty) {
		return fmt.Sprintf("EmptyTargets %v, expected %v", got.EmptyTargets, want.Empty)
	}
	// an empty target may or may not also be listed as missing
	gm := map[string]bool{}
	for _, x := range got.MissingTargets {
		if x != "" {
			gm[x] = true
		}
	}
	if fw.Canon(sortedSet(gm)) != asSet(want.Missing) {
		return fmt.Sprintf("MissingTargets %v, expected %v", got.MissingTargets, want.Missing)
	}
	if asSet(got.BranchTargetVariables) != asSet(want.Vars) {
		return fmt.Sprintf("BranchTargetVariables %v, expected %v", got.BranchTargetVariables, want.Vars)
	}
	if asSet(got.Interpreters) != asSet(want.Interps) {
		return fmt.Sprintf("Interpreters %v, expected %v", got.Interpreters, want.Interps)
	}
	return ""
}

// ---- spec graph --------------------------------------------------------------

type graph struct {
	nodes map[string]int // name -> occurrences
	edges map[string]int // "from\x00to" -> count
}

func specGraph(s *core.Spec) (g graph, extra map[string]bool) {
	g = graph{nodes: map[string]int{}, edges: map[string]int{}}
	extra = map[string]bool{}
	for name, n := range s.Nodes {
		g.nodes[name] = 1
		if n == nil || n.Branches == nil {
			continue
		}
		for _, b := range n.Branches.Branches {
			g.edges[name+"\x00"+b.Target]++
			if _, have := s.Nodes[b.Target]; !have {
				extra[b.Target] = true
			}
		}
	}
	return
}

// readAs: how the rendering language reads a label.  Mermaid reads the entity
// code #quot; as a double quote, so the names x"y and x#quot;y are two nodes
// with one reading; what is compared is the number of nodes and edges per reading.
func readAs(g graph, extra map[string]bool, read func(string) string) (graph, map[string]bool) {
	out := graph{nodes: map[string]int{}, edges: map[string]int{}}
	ex := map[string]bool{}
	for n, c := range g.nodes {
		out.nodes[read(n)] += c
	}
	for e, c := range g.edges {
		ft := strings.SplitN(e, "\x00", 2)
		out.edges[read(ft[0])+"\x00"+read(ft[1])] += c
	}
	for n := range extra {
		if _, isNode := out.nodes[read(n)]; !isNode {
			ex[read(n)] = true
		}
	}
	return out, ex
}

func mermaidReading(s string) string { return strings.Replace(s, "#quot;", "\"", -1) }

func compareGraph(want graph, extra map[string]bool, got graph, what string) string {
	for n, c := range want.nodes {
		switch got.nodes[n] {
		case c:
		case 0:
			return fmt.Sprintf("%s: spec node %q is not rendered", what, n)
		default:
			return fmt.Sprintf("%s: %d spec node(s) read as %q, rendered %d times", what, c, n, got.nodes[n])
		}
	}
	for n, c := range got.nodes {
		if _, ok := want.nodes[n]; ok {
			continue
		}
		if !extra[n] {
			return fmt.Sprintf("%s: rendered node %q is not a spec node nor a branch target", what, n)
		}
		if c != 1 {
			return fmt.Sprintf("%s: target %q is rendered %d times", what, n, c)
		}
	}
	for e, c := range want.edges {
		if got.edges[e] != c {
			ft := strings.SplitN(e, "\x00", 2)
			return fmt.Sprintf("%s: %d branch(es) %q -> %q in the spec, %d edge(s) rendered", what, c, ft[0], ft[1], got.edges[e])
		}
	}
	for e, c := range got.edges {
		if want.edges[e] == 0 {
			ft := strings.SplitN(e, "\x00", 2)
			return fmt.Sprintf("%s: %d rendered edge(s) %q -> %q correspond to no branch", what, c, ft[0], ft[1])
		}
	}
	return ""
}

// ---- DOT tokenizer -----------------------------------------------------------

type tok struct {
	kind string // id str html punct
	text string
}

func dotTokens(src string) ([]tok, error) {
	var ts []tok
	i := 0
	for i < len(src) {
		c := src[i]
		switch {
		case c == ' ' || c == '\t' || c == '\n' || c == '\r':
			i++
		case c == '"':
			j := i + 1
			var sb strings.Builder
			for j < len(src) && src[j] != '"' {
				if src[j] == '\\' && j+1 < len(src) && src[j+1] == '"' {
					sb.WriteByte('"')
					j += 2
					continue
				}
				if src[j] == '\\' && j+1 < len(src) && src[j+1] == '\\' {
					// Graphviz scans a pair of backslashes as a unit (so the second cannot
					// escape a quote); a writer doubles a backslash to say one
					sb.WriteByte('\\')
					j += 2
					continue
				}
				sb.WriteByte(src[j])
				j++
			}
			if j >= len(src) {
				return nil, fmt.Errorf("unterminated string")
			}
			ts = append(ts, tok{"str", sb.String()})
			i = j + 1
		case c == '<':
			depth := 0
			j := i
			for j < len(src) {
				if src[j] == '<' {
					depth++
				} else if src[j] == '>' {
					depth--
					if depth == 0 {
						break
					}
				}
				j++
			}
			if j >= len(src) {
				return nil, fmt.Errorf("unterminated HTML string")
			}
			ts = append(ts, tok{"html", src[i+1 : j]})
			i = j + 1
		case c == '-' && i+1 < len(src) && src[i+1] == '>':
			ts = append(ts, tok{"punct", "->"})
			i += 2
		case strings.ContainsRune("[]{}=,;", rune(c)):
			ts = append(ts, tok{"punct", string(c)})
			i++
		case c == '_' || c >= 'a' && c <= 'z' || c >= 'A' && c <= 'Z' || c >= '0' && c <= '9' || c >= 0x80 || c == '.' || c == '-':
			j := i
			for j < len(src) && (src[j] == '_' || src[j] >= 'a' && src[j] <= 'z' || src[j] >= 'A' && src[j] <= 'Z' || src[j] >= '0' && src[j] <= '9' || src[j] >= 0x80 || src[j] == '.') {
				j++
			}
			if j == i {
				return nil, fmt.Errorf("unexpected character %q", c)
			}
			ts = append(ts, tok{"id", src[i:j]})
			i = j
		default:
			return nil, fmt.Errorf("unexpected character %q at offset %d", c, i)
		}
	}
	return ts, nil
}

func parseDot(src string) (graph, error) {
	g := graph{nodes: map[string]int{}, edges: map[string]int{}}
	ts, err := dotTokens(src)
	if err != nil {
		return g, err
	}
	p := 0
	peek := func() tok {
		if p < len(ts) {
			return ts[p]
		}
		return tok{"eof", ""}
	}
	next := func() tok { t := peek(); p++; return t }
	if t := next(); t.text != "digraph" {
		return g, fmt.Errorf("expected digraph")
	}
	next() // graph name
	if t := next(); t.text != "{" {
		return g, fmt.Errorf("expected {")
	}
	attrs := func() error {
		if peek().text != "[" {
			return nil
		}
		next()
		for peek().text != "]" {
			if peek().kind == "eof" {
				return fmt.Errorf("unterminated attribute list")
			}
			k := next()
			if k.kind != "id" && k.kind != "str" {
				return fmt.Errorf("bad attribute name %q", k.text)
			}
			if peek().text == "=" {
				next()
				v := next()
				if v.kind == "punct" || v.kind == "eof" {
					return fmt.Errorf("bad attribute value")
				}
			}
			if peek().text == "," || peek().text == ";" {
				next()
			}
		}
		next()
		return nil
	}
	for {
		t := next()
		if t.kind == "eof" {
			return g, fmt.Errorf("missing }")
		}
		if t.text == "}" && t.kind == "punct" {
			break
		}
		if t.text == ";" {
			continue
		}
		if t.kind != "id" && t.kind != "str" {
			return g, fmt.Errorf("unexpected token %q where a statement starts", t.text)
		}
		if t.kind == "id" && (t.text == "graph" || t.text == "node" || t.text == "edge") && peek().text == "[" {
			if err := attrs(); err != nil {
				return g, err
			}
			continue
		}
		if peek().text == "->" {
			next()
			to := next()
			if to.kind != "id" && to.kind != "str" {
				return g, fmt.Errorf("bad edge target %q", to.text)
			}
			g.edges[t.text+"\x00"+to.text]++
			if err := attrs(); err != nil {
				return g, err
			}
			continue
		}
		g.nodes[t.text]++
		if err := attrs(); err != nil {
			return g, err
		}
	}
	return g, nil
}

// ---- Mermaid parser -------------------------------------------------------------

func parseMermaid(src string) (graph, error) {
	g := graph{nodes: map[string]int{}, edges: map[string]int{}}
	labels := map[string]string{}
	i := 0
	skipSpace := func() {
		for i < len(src) && (src[i] == ' ' || src[i] == '\t' || src[i] == '\n' || src[i] == '\r') {
			i++
		}
	}
	ident := func() string {
		j := i
		for j < len(src) && (src[j] == '_' || src[j] >= 'a' && src[j] <= 'z' || src[j] >= 'A' && src[j] <= 'Z' || src[j] >= '0' && src[j] <= '9') {
			j++
		}
		s := src[i:j]
		i = j
		return s
	}
	quoted := func() (string, error) {
		if i >= len(src) || src[i] != '"' {
			return "", fmt.Errorf("expected a quoted string at offset %d", i)
		}
		j := strings.IndexByte(src[i+1:], '"')
		if j < 0 {
			return "", fmt.Errorf("unterminated string")
		}
		s := src[i+1 : i+1+j]
		i = i + 1 + j + 1
		return s, nil
	}
	skipSpace()
	if !strings.HasPrefix(src[i:], "graph") {
		return g, fmt.Errorf("expected graph header")
	}
	for i < len(src) && src[i] != '\n' {
		i++
	}
	for {
		skipSpace()
		if i >= len(src) {
			break
		}
		id := ident()
		if id == "" {
			return g, fmt.Errorf("unexpected character %q at offset %d", src[i], i)
		}
		if id == "style" {
			for i < len(src) && src[i] != '\n' {
				i++
			}
			continue
		}
		// skip blanks on the same line
		for i < len(src) && (src[i] == ' ' || src[i] == '\t') {
			i++
		}
		if i < len(src) && (src[i] == '(' || src[i] == '[') {
			open := src[i]
			i++
			l, err := quoted()
			if err != nil {
				return g, err
			}
			closeCh := byte(')')
			if open == '[' {
				closeCh = ']'
			}
			if i >= len(src) || src[i] != closeCh {
				return g, fmt.Errorf("node declaration not closed")
			}
			i++
			if _, dup := labels[id]; dup {
				return g, fmt.Errorf("node id %s declared twice", id)
			}
			l = strings.Replace(l, "#quot;", "\"", -1) // Mermaid's entity code for a double quote
			labels[id] = l
			g.nodes[l]++
			continue
		}
		if strings.HasPrefix(src[i:], "-->") {
			i += 3
		} else if strings.HasPrefix(src[i:], "--") {
			i += 2
			skipSpace()
			if _, err := quoted(); err != nil {
				return g, err
			}
			skipSpace()
			if !strings.HasPrefix(src[i:], "-->") {
				return g, fmt.Errorf("edge label not followed by -->")
			}
			i += 3
		} else {
			return g, fmt.Errorf("unexpected text after id %s at offset %d", id, i)
		}
		skipSpace()
		to := ident()
		fl, ok1 := labels[id]
		tl, ok2 := labels[to]
		if !ok1 || !ok2 {
			return g, fmt.Errorf("edge %s --> %s uses an undeclared node id", id, to)
		}
		g.edges[fl+"\x00"+tl]++
	}
	return g, nil
}

// ---- workload -----------------------------------------------------------------

var hostileNames = []string{"has space", "quo\"te", "arrow->x", "lt<gt>", "amp&", "new\nline", "ünï", "semi;colon", "brace}", "[bracket]", "back\\slash", "dash-ed", "1starts-with-digit", "node", "graph", "50%done", "a%%b", "100%", "%s%d%v", "tab\there", "@", "@next-", "?"}

// hostileSuffixes: what a name may end in (a prefix never puts these next to the closing quote)
var hostileSuffixes = []string{"\\", "\"", "\\\"", "\\\\", ">", "-"}

// lookalikes: a character and the way some renderer spells it when escaping.
var lookalikes = [][2]string{{"\"", "#quot;"}, {"\"", "\\\""}, {"<", "&lt;"}, {">", "&gt;"}, {"&", "&amp;"}, {"\n", "\\n"}, {"\"", "&quot;"}, {" ", "_"}, {"-", "_"}, {"#", "#35;"}, {"\"", "'"}}

func rename(a *ref.ASpec, mapping map[string]string) *ref.ASpec {
	m := func(s string) string {
		if t, ok := mapping[s]; ok {
			return t
		}
		return s
	}
	b := &ref.ASpec{Name: a.Name, Nodes: map[string]*ref.ANode{}, ErrorNode: a.ErrorNode, NoAutoErrorNode: a.NoAutoErrorNode, ActionErrorBranches: a.ActionErrorBranches, ActionErrorNode: a.ActionErrorNode}
	for name, n := range a.Nodes {
		nn := &ref.ANode{Action: n.Action}
		if n.Branching != nil {
			nn.Branching = &ref.ABranching{Type: n.Branching.Type}
			for _, br := range n.Branching.Branches {
				c := *br
				if !strings.HasPrefix(c.Target, "@") {
					c.Target = m(c.Target)
				}
				nn.Branching.Branches = append(nn.Branching.Branches, &c)
			}
		}
		b.Nodes[m(name)] = nn
	}
	return b
}

// nodeDocs: what a node's doc may say
var nodeDocs = []string{
	"Waits for a coin.",
	"go on when n > 3",
	"when a < b & b > c, then <b>stop</b>",
	"A long explanation that runs over forty characters. Then a second sentence follows.",
	"A long explanation without any sentence end that runs well over the forty characters",
	"\"quoted\" and 'single' and a \\ backslash",
	"line one\nline two -> three",
	strings.Repeat("x", 90),
	strings.Repeat("é", 45) + ". " + "more",
	"]; } digraph",
	"&lt;already escaped&gt; &amp; #quot;",
}

func Run(cfg fw.Config, rec *fw.Rec) {
	log.SetOutput(io.Discard)
	rec.Rule = "generated specs (native and source actions, guards, missing / @variable / empty targets, orphans, terminal nodes, empty and absent branch lists, self-loops, parallel branches to one target; with and without the automatic error node) in two strata judged separately: identifier-like node names, and hostile names (spaces, quotes, ->, <, >, &, %, newlines, unicode, keywords; also pairs of names that differ only in a character and its escaped spelling, such as a\"b and a#quot;b); tools.Analyze is compared with a reference graph analysis, tools.Dot output is tokenised as DOT (ids, quoted strings, nestable HTML strings, attribute lists, ->) and tools.Mermaid output as a flowchart, and node / edge multisets are compared with the spec graph; a third of the specs are also rendered with five (from, to) transitions to highlight (existing nodes, start, empty, unknown names), which must not change the node and edge multisets; a fifth of the specs carry documentation strings on the spec and its nodes (with <, >, &, quotes, newlines, long runs without a space or sentence end, DOT punctuation); a fifth of the specs are also analysed and rendered before they are compiled, with their body-less nodes nil as a document loader leaves them; tools.RenderSpecPage must return without error with one table row per node and per branch; non-trivial = spec with >= 2 nodes and >= 1 branch; distinct by spec"
	rec.Required = []string{"plain_analysis_ok", "plain_dot_ok", "plain_mermaid_ok", "plain_html_ok", "lookalike_names_kept_apart", "rendered_with_a_transition_to_highlight", "uncompiled_specs_with_bodyless_nodes_rendered", "hostile_names_with_a_hostile_ending", "specs_with_node_docs", "native_action_rendered", "missing_target_rendered", "variable_target_rendered", "parallel_branches", "self_loop"}
	rec.Assume = []string{"DOT and Mermaid subsets as emitted by the tools (the tokenizers accept what Graphviz / Mermaid accept for these constructs)", "the hostile-name stratum is judged separately so a finding there cannot mask the plain stratum"}
	n := cfg.Pick(6000, 1000000)
	fw.Parallel(cfg.Workers, n, func(w, i int) {
		r := cfg.Rng("c20", i)
		u := &gen.Uid{Prefix: fmt.Sprintf("g%d_", i)}
		a := gen.GenSpec(r, gen.SpecOpts{MaxNodes: 5, Inspect: i%2 == 0, Prog: gen.ProgOpts{Emit: true}}, u)
		// add graph features
		names := a.NodeNames()
		src := a.Nodes[names[r.Intn(len(names))]]
		if src.Branching == nil {
			src.Branching = &ref.ABranching{Type: "bindings"}
		}
		switch r.Intn(5) {
		case 0:
			t := names[r.Intn(len(names))]
			src.Branching.Branches = append(src.Branching.Branches, &ref.ABranch{Target: t}, &ref.ABranch{Target: t, HasPattern: true, Pattern: map[string]interface{}{"a": 1.0}})
		case 1:
			src.Branching.Branches = append(src.Branching.Branches, &ref.ABranch{Target: ""})
		case 2:
			src.Branching.Branches = append(src.Branching.Branches, &ref.ABranch{Target: "missing"}, &ref.ABranch{Target: names[0]}, &ref.ABranch{Target: "alsomissing"})
		case 3:
			src.Branching.Branches = append(src.Branching.Branches, &ref.ABranch{Target: "@t"}, &ref.ABranch{Target: names[0]})
		}
		stratum := "plain"
		lookalike := false
		if i%4 == 3 {
			stratum = "hostile"
			mapping := map[string]string{}
			for _, nm := range append(names, "missing") {
				if nm != "start" && r.Intn(2) == 0 {
					mapping[nm] = hostileNames[r.Intn(len(hostileNames))] + nm
					if r.Intn(4) == 0 {
						mapping[nm] += hostileSuffixes[r.Intn(len(hostileSuffixes))]
						rec.Bucket("hostile_names_with_a_hostile_ending")
					}
				}
			}
			// some hostile specs: two different names that an escaping renderer may map
			// to one label (a character and its escaped spelling)
			if i%16 == 3 {
				pair := lookalikes[r.Intn(len(lookalikes))]
				var cands []string
				for _, nm := range names {
					if nm != "start" {
						cands = append(cands, nm)
					}
				}
				if len(cands) >= 2 {
					k := r.Intn(len(cands) - 1)
					mapping[cands[k]] = "x" + pair[0] + "y"
					mapping[cands[k+1]] = "x" + pair[1] + "y"
					lookalike = true
				}
			}
			a = rename(a, mapping)
		}
		native := i%3 == 0
		spec, err := a.Compiled(native, ref.NativeNilErr)
		if err != nil {
			return
		}
		// documentation strings are text: whatever they say, the renderings stay well-formed
		var docs map[string]string
		if i%5 == 2 {
			docs = map[string]string{}
			for nm, n := range spec.Nodes {
				if n != nil && r.Intn(3) > 0 {
					n.Doc = nodeDocs[r.Intn(len(nodeDocs))]
					docs[nm] = n.Doc
				}
			}
			spec.Doc = nodeDocs[r.Intn(len(nodeDocs))]
			rec.Bucket("specs_with_node_docs")
		}
		want, extra := specGraph(spec)
		replay := map[string]interface{}{"spec": a, "native": native, "stratum": stratum, "node_docs": docs}
		ok := true
		// analysis
		var an *tools.SpecAnalysis
		if rec.Guard("C20:"+stratum+":analyze", replay, func() { an, err = tools.Analyze(spec) }) {
			ok = false
		} else {
			rec.Eval(1)
			if err != nil || an == nil {
				rec.Violation("C20:"+stratum+":analyze-error", fmt.Sprint(err), replay)
				ok = false
			} else if why := checkAnalysis(spec, an); why != "" {
				rec.Violation("C20:"+stratum+":analysis-wrong:"+strings.SplitN(why, " ", 2)[0], why, replay)
				ok = false
			} else {
				rec.Bucket(stratum + "_analysis_ok")
			}
		}
		// dot
		var buf closer
		if rec.Guard("C20:"+stratum+":dot", replay, func() { err = tools.Dot(spec, &buf, "", "") }) {
			ok = false
		} else {
			rec.Eval(1)
			if err != nil {
				rec.Violation("C20:"+stratum+":dot-error", "Dot returned an error: "+err.Error(), replay)
				ok = false
			} else if got, perr := parseDot(buf.String()); perr != nil {
				rec.Violation("C20:"+stratum+":dot-unparsable", "Dot output is not valid DOT: "+perr.Error(), map[string]interface{}{"case": replay, "output": buf.String()})
				ok = false
			} else if why := compareGraph(want, extra, got, "dot"); why != "" {
				cls := "node"
				if strings.Contains(why, "branch") || strings.Contains(why, "edge") {
					cls = "edge"
				}
				rec.Violation("C20:"+stratum+":dot-graph-differs:"+cls, why, map[string]interface{}{"case": replay, "output": buf.String()})
				ok = false
			} else {
				rec.Bucket(stratum + "_dot_ok")
			}
		}
		// mermaid
		var mb closer
		if rec.Guard("C20:"+stratum+":mermaid", replay, func() { err = tools.Mermaid(spec, &mb, nil, "", "") }) {
			ok = false
		} else {
			rec.Eval(1)
			if err != nil {
				rec.Violation("C20:"+stratum+":mermaid-error", "Mermaid returned an error: "+err.Error(), replay)
				ok = false
			} else if got, perr := parseMermaid(mb.String()); perr != nil {
				rec.Violation("C20:"+stratum+":mermaid-unparsable", "Mermaid output does not parse: "+perr.Error(), map[string]interface{}{"case": replay, "output": mb.String()})
				ok = false
			} else if why := func() string {
				w, ex := readAs(want, extra, mermaidReading)
				return compareGraph(w, ex, got, "mermaid")
			}(); why != "" {
				cls := "node"
				if strings.Contains(why, "branch") || strings.Contains(why, "edge") {
					cls = "edge"
				}
				rec.Violation("C20:"+stratum+":mermaid-graph-differs:"+cls, why, map[string]interface{}{"case": replay, "output": mb.String()})
				ok = false
			} else {
				rec.Bucket(stratum + "_mermaid_ok")
			}
		}
		// the highlight arguments (a transition to mark) must not change what is rendered
		if i%3 == 1 && ok {
			ns := make([]string, 0, len(spec.Nodes))
			for nm := range spec.Nodes {
				ns = append(ns, nm)
			}
			sort.Strings(ns)
			pairs := [][2]string{{ns[r.Intn(len(ns))], ns[r.Intn(len(ns))]}, {"start", ns[r.Intn(len(ns))]}, {ns[r.Intn(len(ns))], ""}, {"no-such-node", ns[0]}, {ns[len(ns)-1], "no-such-node"}}
			for _, ft := range pairs {
				var hb2 closer
				var herr2 error
				if rec.Guard("C20:"+stratum+":dot-highlight", replay, func() { herr2 = tools.Dot(spec, &hb2, ft[0], ft[1]) }) {
					ok = false
					break
				}
				rec.Eval(1)
				if herr2 != nil {
					rec.Violation("C20:"+stratum+":dot-error", fmt.Sprintf("Dot with the transition %q -> %q to highlight returned an error: %v", ft[0], ft[1], herr2), replay)
					ok = false
					break
				}
				got, perr := parseDot(hb2.String())
				if perr == nil {
					if why := compareGraph(want, extra, got, "dot"); why != "" {
						perr = fmt.Errorf("%s", why)
					}
				}
				if perr != nil {
					rec.Violation("C20:"+stratum+":dot-highlight-changes-graph", fmt.Sprintf("Dot with the transition %q -> %q to highlight: %v", ft[0], ft[1], perr), map[string]interface{}{"case": replay, "from": ft[0], "to": ft[1], "output": hb2.String()})
					ok = false
					break
				}
				var mb2 closer
				if rec.Guard("C20:"+stratum+":mermaid-highlight", replay, func() { herr2 = tools.Mermaid(spec, &mb2, nil, ft[0], ft[1]) }) {
					ok = false
					break
				}
				rec.Eval(1)
				gotm, perr := parseMermaid(mb2.String())
				if herr2 != nil {
					perr = herr2
				}
				if perr == nil {
					w, ex := readAs(want, extra, mermaidReading)
					if why := compareGraph(w, ex, gotm, "mermaid"); why != "" {
						perr = fmt.Errorf("%s", why)
					}
				}
				if perr != nil {
					rec.Violation("C20:"+stratum+":mermaid-highlight-changes-graph", fmt.Sprintf("Mermaid with the transition %q -> %q to highlight: %v", ft[0], ft[1], perr), map[string]interface{}{"case": replay, "from": ft[0], "to": ft[1], "output": mb2.String()})
					ok = false
					break
				}
				rec.Bucket("rendered_with_a_transition_to_highlight")
			}
		}
		// the same specification before it is compiled (spectool renders what it is given),
		// with its body-less nodes as a document loader leaves them: nil
		if i%5 == 1 && ok {
			raw := a.Core(native, ref.NativeNilErr)
			nils := 0
			for nm, n := range raw.Nodes {
				if n != nil && n.Action == nil && n.ActionSource == nil && n.Branches == nil {
					raw.Nodes[nm] = nil
					nils++
				}
			}
			wantRaw, extraRaw := specGraph(raw)
			var rb, rm closer
			var rhb bytes.Buffer
			var e1, e2, e3, e4 error
			var rawAn *tools.SpecAnalysis
			if rec.Guard("C20:"+stratum+":uncompiled", replay, func() {
				rawAn, e1 = tools.Analyze(raw)
				e2 = tools.Dot(raw, &rb, "", "")
				e3 = tools.Mermaid(raw, &rm, nil, "", "")
				e4 = tools.RenderSpecPage(raw, &rhb, nil, false)
			}) {
				ok = false
			} else {
				rec.Eval(4)
				why := ""
				for _, e := range []error{e1, e2, e3, e4} {
					if e != nil && why == "" {
						why = "error: " + e.Error()
					}
				}
				if why == "" && rawAn != nil {
					if w := checkAnalysis(raw, rawAn); w != "" {
						why = "analysis: " + w
					}
				}
				if why == "" {
					if got, perr := parseDot(rb.String()); perr != nil {
						why = "dot: " + perr.Error()
					} else {
						why = compareGraph(wantRaw, extraRaw, got, "dot")
					}
				}
				if why == "" {
					if got, perr := parseMermaid(rm.String()); perr != nil {
						why = "mermaid: " + perr.Error()
					} else {
						w, ex := readAs(wantRaw, extraRaw, mermaidReading)
						why = compareGraph(w, ex, got, "mermaid")
					}
				}
				if why != "" {
					rec.Violation("C20:"+stratum+":uncompiled-spec-rendered-wrongly", "rendering the specification before it is compiled: "+why, replay)
					ok = false
				} else {
					rec.Bucket("uncompiled_specs_rendered")
					if nils > 0 {
						rec.Bucket("uncompiled_specs_with_bodyless_nodes_rendered")
					}
				}
			}
		}
		// the HTML page (tools.RenderSpecPage): total, one table row per node, one per branch
		var hb bytes.Buffer
		var herr error
		if rec.Guard("C20:"+stratum+":html", replay, func() { herr = tools.RenderSpecPage(spec, &hb, nil, i%2 == 0) }) {
			ok = false
		} else {
			rec.Eval(1)
			nb := 0
			for _, n := range spec.Nodes {
				if n.Branches != nil {
					nb += len(n.Branches.Branches)
				}
			}
			page := hb.String()
			gotN, gotB := strings.Count(page, `<tr class="node">`), strings.Count(page, `<div class="branchNum">`)
			switch {
			case herr != nil:
				rec.Violation("C20:"+stratum+":html-error", "RenderSpecPage returned an error: "+herr.Error(), replay)
				ok = false
			case gotN != len(spec.Nodes) || gotB != nb:
				// rendering is a function of the spec: the same spec rendered again (this
				// goroutine only) must show the same rows.  A mismatch that does not repeat
				// is not evidence about the renderer - it is recorded, with the page, as
				// an observation that could not be reproduced (see DESIGN 8.3).
				var hb2 bytes.Buffer
				tools.RenderSpecPage(spec, &hb2, nil, i%2 == 0)
				if n2 := strings.Count(hb2.String(), `<tr class="node">`); n2 == len(spec.Nodes) && strings.Count(hb2.String(), `<div class="branchNum">`) == nb {
					rec.Bucket("html_row_mismatch_not_reproduced_on_rendering_again")
					rec.Sample(map[string]interface{}{"html_row_mismatch_not_reproduced": replay, "rows_first": gotN, "rows_again": n2, "nodes": len(spec.Nodes), "page_first": page})
					break
				}
				var ids []string
				for id := range spec.Nodes {
					ids = append(ids, id)
				}
				sort.Strings(ids)
				rec.Violation("C20:"+stratum+":html-rows-differ", fmt.Sprintf("the HTML page has %d node rows and %d branch rows; the spec has %d nodes (%q) and %d branches", gotN, gotB, len(spec.Nodes), ids, nb), map[string]interface{}{"case": replay, "page": page})
				ok = false
			default:
				rec.Bucket(stratum + "_html_ok")
			}
		}
		if ok {
			if native && an.Actions > 0 {
				rec.Bucket("native_action_rendered")
			}
			if lookalike {
				rec.Bucket("lookalike_names_kept_apart")
			}
			for t := range extra {
				if strings.HasPrefix(t, "@") {
					rec.Bucket("variable_target_rendered")
				} else if t != "" {
					rec.Bucket("missing_target_rendered")
				}
			}
			for e, c := range want.edges {
				if c > 1 {
					rec.Bucket("parallel_branches")
				}
				ft := strings.SplitN(e, "\x00", 2)
				if ft[0] == ft[1] {
					rec.Bucket("self_loop")
				}
			}
			if len(want.nodes) >= 2 && len(want.edges) >= 1 {
				rec.Nontrivial(fw.Canon(a) + fmt.Sprint(native))
				if i%1500 == 2 {
					rec.Sample(map[string]interface{}{"case": replay, "dot_bytes": buf.Len(), "mermaid_bytes": mb.Len(), "analysis": an})
				}
			}
		}
	})
}
