package ref

import (
	"verif/fw"
)

// Embeddings enumerates by brute force every assignment of the pattern's
// variables (candidates: all sub-terms of the message for value variables,
// all property names for key variables) under which the pattern embeds into
// the message with each variable *equal* to the fact at its occurrences.
// Only for patterns whose variables are plain.  ok=false if the candidate
// product exceeds maxProduct.
func Embeddings(p, msg interface{}, vi *VarInfo, maxProduct int) (assignments []map[string]interface{}, ok bool) {
	return EmbeddingsC(p, msg, vi, maxProduct, Candidates(msg))
}

// Cands are the brute-force candidate values of one message.
type Cands struct {
	Subs, Keys []interface{}
}

func Candidates(msg interface{}) *Cands {
	c := &Cands{Subs: fw.Subterms(msg)}
	for _, k := range fw.MapKeys(msg) {
		c.Keys = append(c.Keys, k)
	}
	return c
}

// SetArrays reports whether no array inside x has two equal members.
func SetArrays(x interface{}) bool {
	switch t := x.(type) {
	case map[string]interface{}:
		for _, v := range t {
			if !SetArrays(v) {
				return false
			}
		}
	case []interface{}:
		seen := map[string]bool{}
		for _, v := range t {
			c := fw.Canon(v)
			if seen[c] {
				return false
			}
			seen[c] = true
			if !SetArrays(v) {
				return false
			}
		}
	}
	return true
}

func EmbeddingsC(p, msg interface{}, vi *VarInfo, maxProduct int, cs *Cands) (assignments []map[string]interface{}, ok bool) {
	var names []string
	for v := range vi.Count {
		names = append(names, v)
	}
	sortStrings(names)
	subs, keys := cs.Subs, cs.Keys
	cands := make([][]interface{}, len(names))
	prod := 1
	for i, v := range names {
		if vi.AsKey[v] {
			cands[i] = keys
		} else {
			cands[i] = subs
		}
		prod *= len(cands[i])
		if prod > maxProduct {
			return nil, false
		}
	}
	sigma := map[string]interface{}{}
	var rec func(i int)
	rec = func(i int) {
		if i == len(names) {
			if ok, _, _ := Fits(p, sigma, msg, FitOpts{Exact: true}); ok {
				cp := make(map[string]interface{}, len(sigma))
				for k, v := range sigma {
					cp[k] = v
				}
				assignments = append(assignments, cp)
			}
			return
		}
		for _, c := range cands[i] {
			sigma[names[i]] = c
			rec(i + 1)
		}
		delete(sigma, names[i])
	}
	rec(0)
	return assignments, true
}

func sortStrings(a []string) {
	for i := 1; i < len(a); i++ {
		for j := i; j > 0 && a[j] < a[j-1]; j-- {
			a[j], a[j-1] = a[j-1], a[j]
		}
	}
}

// CanonSet returns the set of canonical forms.
func CanonSet(as []map[string]interface{}) map[string]bool {
	s := map[string]bool{}
	for _, a := range as {
		s[fw.Canon(a)] = true
	}
	return s
}
