#!/bin/bash
# Parallel fix matrix: like pmatrix.sh, for fixmatrix.sh (every "fixed:" entry reversed, the property's
# quick check run).  N private mount namespaces with copies of /repo and /verif; scratch /tmp/pf.
#   usage: pfixmatrix.sh [N]        (default 3)
N=${1:-3}
rm -rf /tmp/pf; mkdir -p /tmp/pf
if [ -n "$(git -C /repo status --porcelain)" ]; then echo "/repo not clean"; exit 2; fi
grep '^fixed:' /verif/known_findings.txt | awk '{print $3}' > /tmp/pf/all
for i in $(seq 0 $((N-1))); do
  cp -a /repo /tmp/pf/repo$i
  mkdir -p /tmp/pf/verif$i
  rsync -a --exclude .work --exclude replays --exclude .git /verif/ /tmp/pf/verif$i/
  awk -v n=$N -v i=$i 'NR%n==i' /tmp/pf/all > /tmp/pf/list$i
  unshare -m bash -c "mount --bind /tmp/pf/repo$i /repo && mount --bind /tmp/pf/verif$i /verif && cd /verif && mkdir -p .work && FIXLIST=/tmp/pf/list$i ./fixmatrix.sh > /tmp/pf/out$i 2>&1" &
done
wait
mkdir -p /verif/.work
cat /tmp/pf/out* | sort > /verif/.work/fixmatrix.out
echo "fixes: $(wc -l < /tmp/pf/all)  reversal detected (rc=1): $(grep -c 'rc=1' /verif/.work/fixmatrix.out)  other lines:"
grep -v 'rc=1' /verif/.work/fixmatrix.out
rm -rf /tmp/pf
