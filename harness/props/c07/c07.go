// Package c07: processing is total.  Panic trap + watchdog + failure-surfacing
// checker over a crossed space of hostile states, controls, behaviours and
// error settings, over damaged specification documents, and over odd native
// action results.  Runs in child processes, one per batch, so that a fatal
// runtime error is attributed to the logged case.
package c07

import (
	"context"
	"encoding/json"
	"fmt"
	"math/rand"
	"os"
	"strings"
	"time"

	"github.com/Comcast/sheens/core"
	"github.com/Comcast/sheens/crew"
	"github.com/Comcast/sheens/match"
	"github.com/Comcast/sheens/sio"
	jyaml "github.com/jsccast/yaml"
	yaml2 "gopkg.in/yaml.v2"

	"verif/fw"
	"verif/gen"
	"verif/props/c05"
	"verif/ref"
)

type behaviour struct {
	Name string
	Prog *ref.Prog
	Weak bool // outcome not pinned down by documentation: only totality is judged
	Loop bool // needs a deadline
	ECMA bool // ECMAScript only (hand-written source)
	Ext  bool // needs the extended interpreter ("ecmascript-ext" of the standard map)
}

// ext: a hand-written script for the extended interpreter (_.match, _.cronNext, _.randstr).
func ext(name, src, marker, kind string) behaviour {
	b := raw(name, src, marker, kind)
	b.Ext = true
	return b
}

func raw(name, src, marker, kind string) behaviour {
	return behaviour{Name: name, ECMA: true, Loop: kind == "timeout", Weak: kind == "weak",
		Prog: &ref.Prog{Ops: []ref.Op{{Op: "raw", V: src, K: marker, K2: kind}}, Ret: "same"}}
}

func behaviours() []behaviour {
	bad := func(ret string) behaviour {
		return behaviour{Name: "return-" + ret, Prog: &ref.Prog{Ops: []ref.Op{{Op: "set", K: "a", V: 1.0}}, Ret: ret}}
	}
	return []behaviour{
		{Name: "ok", Prog: &ref.Prog{Ops: []ref.Op{{Op: "set", K: "a", V: 2.0}, {Op: "emit", V: map[string]interface{}{"id": "ok1"}}}, Ret: "same"}},
		{Name: "throw", Prog: &ref.Prog{Ops: []ref.Op{{Op: "emit", V: map[string]interface{}{"id": "pre"}}, {Op: "fail", V: "MARK-THROW"}}, Ret: "same"}},
		{Name: "loop", Loop: true, Prog: &ref.Prog{Ops: []ref.Op{{Op: "loop"}}, Ret: "same"}},
		{Name: "return-null", Prog: &ref.Prog{Ret: "null"}},
		bad("number"), bad("string"), bad("array"), bad("func"), bad("nan"), bad("bool"),
		{Name: "out-unserialisable", Prog: &ref.Prog{Ops: []ref.Op{{Op: "outbad"}}, Ret: "same"}},
		{Name: "out-nan", Prog: &ref.Prog{Ops: []ref.Op{{Op: "outnan"}}, Ret: "same"}},
		{Name: "delete-permanent", Prog: &ref.Prog{Ops: []ref.Op{{Op: "del", K: "cfg!"}, {Op: "keep", Ks: []string{"a"}}}, Ret: "same"}},
		{Name: "fresh-empty", Prog: &ref.Prog{Ret: "fresh", Fresh: map[string]interface{}{}}},
		raw("throw-string", `throw "MARK-STR";`, "MARK-STR", "fail"),
		raw("throw-object", `throw {code: 42, msg: "x"};`, "", "fail"),
		// thrown values whose text is computed by script code
		raw("throw-custom-tostring", `throw {toString: function() { return "MARK-TS"; }};`, "MARK-TS", "fail"),
		raw("throw-looping-tostring", `throw {toString: function() { for (;;) { } }};`, "timeout", "timeout"),
		raw("throw-error-with-looping-message-getter", `var e = new Error("x"); Object.defineProperty(e, "message", {get: function() { for (;;) { } }}); throw e;`, "", "weak"),
		raw("throw-throwing-tostring", `throw {toString: function() { throw new Error("inner"); }};`, "", "weak"),
		raw("throw-tostring-returning-object", `throw {toString: function() { return {}; }, valueOf: function() { return {}; }};`, "", "weak"),
		raw("recursion", `function f(n){ return f(n+1) + 1; } return f(0);`, "timeout", "timeout"),
		raw("loop-try", `while (true) { try { while(true){} } catch (e) { } }`, "timeout", "timeout"),
		raw("return-undefined", `return;`, "", "null"),
		raw("return-cyclic", `var o = {}; o.self = o; return o;`, "", "weak"),
		raw("out-cyclic", `var o = {}; o.o = o; _.out(o); return _.bindings;`, "", "fail"),
		raw("bindings-replaced", `_.bindings = 5; return _.bindings;`, "isn't Bindings", "fail"),
		raw("out-deleted", `delete _.out; _.out({}); return _.bindings;`, "", "weak"),
		raw("type-error", `return _.props.nope.deeper;`, "", "fail"),
		raw("return-date", `return new Date(0);`, "isn't Bindings", "fail"),
		raw("return-with-function-member", `return {a: 1, f: function(){}};`, "", "weak"),
		raw("return-null-proto", `return Object.create(null);`, "", "weak"),
		raw("return-throwing-getter", `return {get a() { throw new Error("MARK-GETTER"); }};`, "", "weak"),
		raw("return-looping-getter", `return {get a() { while (true) { } }};`, "", "weak"),
		raw("return-proxy-like", `var o = {}; Object.defineProperty(o, "x", {enumerable: true, get: function() { return o; }}); return o;`, "", "weak"),
		raw("out-throwing-getter", `_.out({get a() { throw new Error("MARK-GETTER"); }}); return _.bindings;`, "", "weak"),
		raw("return-array-with-holes", `var a = []; a[5] = 1; return {a: a};`, "", "weak"),
		raw("return-huge-number-keys", `var o = {}; for (var i = 0; i < 2000; i++) { o["k" + i] = i; } return o;`, "", "weak"),
		// the helpers of the extended interpreter, called the wrong way
		ext("ext-match-no-arguments", `_.match(); return _.bindings;`, "", "fail"),
		ext("ext-match-one-argument", `_.match({"a": "?x"}); return _.bindings;`, "", "fail"),
		ext("ext-match-bindings-not-a-map", `_.match({"a": "?x"}, {"a": 1}, 5); return _.bindings;`, "bad bindings", "fail"),
		ext("ext-match-bindings-array", `_.match({"a": "?x"}, {"a": 1}, [1, 2]); return _.bindings;`, "bad bindings", "fail"),
		ext("ext-match-invalid-pattern", `_.match({"?a": 1, "b": 2}, {"b": 2}, {}); return _.bindings;`, "", "fail"),
		ext("ext-match-two-array-variables", `_.match({"l": ["?a", "?b"]}, {"l": [1, 2]}, {}); return _.bindings;`, "", "fail"),
		ext("ext-match-unserialisable-pattern", `_.match({"f": function() {}}, {"f": 1}, {}); return _.bindings;`, "", "weak"),
		ext("ext-match-cyclic-message", `var o = {}; o.o = o; _.match({"o": "?x"}, o, {}); return _.bindings;`, "", "fail"),
		ext("ext-match-nan", `_.match({"n": 0/0}, {"n": 0/0}, {}); return _.bindings;`, "", "fail"),
		ext("ext-match-undefined-bindings", `_.match({"a": "?x"}, {"a": 1}, undefined); return _.bindings;`, "", "weak"),
		ext("ext-match-null-everything", `_.match(null, null, null); return _.bindings;`, "", "weak"),
		ext("ext-match-result-mutated", `var r = _.match({"a": "?x"}, {"a": {"b": 1}}, {}); r[0]["?x"].b = 2; r.push(5); return {a: r.length};`, "", "weak"),
		ext("ext-cron-not-a-string", `_.cronNext(5); return _.bindings;`, "not a string", "fail"),
		ext("ext-cron-no-argument", `_.cronNext(); return _.bindings;`, "", "fail"),
		ext("ext-cron-garbage", `_.cronNext("not a cron line at all"); return _.bindings;`, "", "fail"),
		ext("ext-cron-impossible-date", `return {next: _.cronNext("0 0 31 2 *")};`, "", "weak"),
		ext("ext-cron-far-year", `return {next: _.cronNext("* * * * * * 2099")};`, "", "weak"),
		ext("ext-cron-huge-field", `_.cronNext("99999999999999999999 * * * *"); return _.bindings;`, "", "weak"),
		ext("ext-cron-step-zero", `_.cronNext("*/0 * * * *"); return _.bindings;`, "", "weak"),
		ext("ext-randstr-as-key", `var bs = {}; bs[_.randstr()] = _.randstr(); return bs;`, "", "weak"),
		ext("ext-helpers-deleted", `delete _.match; delete _.cronNext; return _.match({}, {}, {});`, "", "fail"),
		raw("huge-string", `var s = "x"; for (var i = 0; i < 22; i++) { s = s + s; } throw new Error("MARK-HUGE");`, "MARK-HUGE", "fail"),
	}
}

type hostileState struct {
	Name string
	St   ref.AState
}

var hostileStates = []hostileState{
	{"empty", ref.AState{Node: "start", Bs: map[string]interface{}{}}},
	{"nil-bindings", ref.AState{Node: "start", Bs: nil}},
	{"permanent", ref.AState{Node: "start", Bs: map[string]interface{}{"cfg!": map[string]interface{}{"k": 1.0}, "a": 1.0}}},
	{"unknown-node", ref.AState{Node: "nowhere", Bs: map[string]interface{}{"a": 1.0}}},
	{"unknown-node-nil-bindings", ref.AState{Node: "nowhere", Bs: nil}},
	{"at-error-node", ref.AState{Node: "error", Bs: map[string]interface{}{"error": "earlier"}}},
}

type ctlKind struct {
	Name  string
	Nil   bool
	Limit int
	BP    bool
}

var ctlKinds = []ctlKind{{"nil", true, 0, false}, {"limit-1", false, -1, false}, {"limit0", false, 0, false}, {"limit1", false, 1, false}, {"limit100", false, 100, false}, {"breakpoint", false, 100, true}}

var pendingKinds = []struct {
	Name string
	Msgs []interface{}
}{
	{"none", nil},
	{"object", []interface{}{map[string]interface{}{"k": 1.0, "uid": "m1"}}},
	{"string-then-object", []interface{}{"str", map[string]interface{}{"k": 2.0, "uid": "m2"}}},
	{"nil-element", []interface{}{nil, map[string]interface{}{"k": 3.0, "uid": "m3"}}},
}

type crossCase struct {
	Behaviour string `json:"behaviour"`
	Position  string `json:"position"` // action | guard
	Settings  int    `json:"settings"`
	State     string `json:"state"`
	Control   string `json:"control"`
	Pending   string `json:"pending"`
	API       string `json:"api"` // step | walk
	Render    string `json:"render"`
}

func crossSpec(b behaviour, position string, settings int) *ref.ASpec {
	a := &ref.ASpec{Name: "c07", Nodes: map[string]*ref.ANode{
		"n2":   {Branching: &ref.ABranching{Type: "message", Branches: []*ref.ABranch{{HasPattern: true, Pattern: map[string]interface{}{"k": "?v"}, Target: "n3"}}}},
		"n3":   {},
		"aerr": {},
	}}
	switch settings {
	case 1:
		a.ActionErrorBranches = true
	case 2:
		a.ActionErrorNode = "aerr"
	case 3:
		a.NoAutoErrorNode = true
	case 4:
		a.ActionErrorNode = "missing-node"
	}
	if b.Ext {
		a.Interpreter = "ecmascript-ext"
	}
	if position == "action" {
		a.Nodes["start"] = &ref.ANode{Action: b.Prog, Branching: &ref.ABranching{Type: "bindings", Branches: []*ref.ABranch{{Target: "n2"}}}}
	} else if position == "guard-after-action" {
		// the node's own action succeeds; the failure happens while its branches are considered
		a.Nodes["start"] = &ref.ANode{Action: &ref.Prog{Ops: []ref.Op{{Op: "set", K: "seen", V: "yes"}}, Ret: "same"},
			Branching: &ref.ABranching{Type: "bindings", Branches: []*ref.ABranch{{Guard: b.Prog, Target: "n2"}, {Target: "n3"}}}}
	} else {
		a.Nodes["start"] = &ref.ANode{Branching: &ref.ABranching{Type: "bindings", Branches: []*ref.ABranch{{Guard: b.Prog, Target: "n2"}, {Target: "n3"}}}}
	}
	return a
}

// guarded runs f under the panic trap and a hard watchdog.  A call still
// outstanding at the hard bound is a violation (the property says processing
// returns).
func guarded(rec *fw.Rec, sig string, replay interface{}, hard time.Duration, f func()) (ok bool) {
	done := make(chan bool, 1)
	go func() {
		done <- !rec.Guard(sig, replay, f)
	}()
	select {
	case ok = <-done:
		return ok
	case <-time.After(hard):
		rec.Violation(sig+":hang", fmt.Sprintf("call still running after %v although every context carried a deadline", hard), replay)
		return false
	}
}

func runCross(cfg fw.Config, rec *fw.Rec, worker int, cc crossCase, b behaviour) {
	a := crossSpec(b, cc.Position, cc.Settings)
	native := cc.Render != "ecma"
	mode := ref.NativeNilErr
	if cc.Render == "native-partial" {
		mode = ref.NativePartialErr
	}
	rec.LogCase(worker, cc)
	var spec *core.Spec
	var err error
	if !guarded(rec, "C07:compile", cc, 30*time.Second, func() { spec, err = a.Compiled(native, mode) }) {
		return
	}
	if err != nil {
		rec.Violation("C07:cross-compile-error", "generated spec does not compile: "+err.Error(), cc)
		return
	}
	var hs hostileState
	for _, h := range hostileStates {
		if h.Name == cc.State {
			hs = h
		}
	}
	var ck ctlKind
	for _, c := range ctlKinds {
		if c.Name == cc.Control {
			ck = c
		}
	}
	var msgs []interface{}
	for _, p := range pendingKinds {
		if p.Name == cc.Pending {
			msgs = p.Msgs
		}
	}
	markers := ref.SpecMarkers(a)
	deadline := 2 * time.Second
	if b.Loop {
		deadline = 40 * time.Millisecond
	}
	ctx, cancel := context.WithTimeout(context.Background(), deadline)
	defer cancel()
	// With absent bindings an ECMAScript program sees no _.bindings object; what it
	// then does is the script's business, so only totality is judged there.
	// Absent bindings: what a machine does without bindings is not documented (an
	// unguarded branch is not followed, for instance); totality and the surfacing
	// of a failing action are judged, not the rest of the transition.
	nilBs := hs.St.Bs == nil
	weak := b.Weak || nilBs
	env := ref.Env{Native: native, NativeMode: mode, HaveDeadline: true}

	if cc.API == "step" {
		var ctl *core.Control
		if !ck.Nil {
			ctl = &core.Control{Limit: ck.Limit}
		}
		var pending interface{}
		if len(msgs) > 0 {
			pending = msgs[0]
		}
		var bs match.Bindings
		if hs.St.Bs != nil {
			bs = match.Bindings(fw.Deep(hs.St.Bs).(map[string]interface{}))
		}
		var stride *core.Stride
		if !guarded(rec, "C07:step", cc, 30*time.Second, func() {
			stride, err = spec.Step(ctx, &core.State{NodeName: hs.St.Node, Bs: bs}, fw.Deep(pending), ctl, nil)
		}) {
			return
		}
		rec.Eval(1)
		if stride == nil && err == nil {
			rec.Violation("C07:step-nothing", "Step returned neither a stride nor an error", cc)
			return
		}
		if nilBs && !b.Weak && cc.Position == "action" && hs.St.Node == "start" {
			if o := b.Prog.Eval(nil); o.Failed {
				marker := o.Marker
				if !native {
					marker = "" // the script may fail earlier, on the missing _.bindings
				}
				surfaced := err != nil && strings.Contains(err.Error(), marker)
				if stride != nil && stride.To != nil {
					for _, k := range []string{"actionError", "error"} {
						if s, ok := stride.To.Bs[k].(string); ok && s != "" && strings.Contains(s, marker) {
							surfaced = true
						}
					}
				}
				if !surfaced {
					rec.Violation("C07:surfacing:nil-bindings", "an action failing on a state without bindings was neither returned as an error nor bound as error text", cc)
					return
				}
				rec.Bucket("failures_surfaced_nil_bindings")
			}
		}
		if weak {
			rec.Bucket("weak_totality_only")
			rec.Bucket("state_" + cc.State)
			return
		}
		obs := ref.Observe(stride, err)
		if obs.To != nil {
			if s, ok := obs.To.Bs["actionError"].(string); ok {
				env.ErrText = s
			}
		}
		outs := ref.Step(a, hs.St, pending, env)
		if why := ref.Accept(outs, obs, hs.St, markers); why != "" {
			rec.Violation("C07:surfacing:step:"+outs[0].Note, "failure not surfaced as documented: "+why, map[string]interface{}{"case": cc, "observed": obs, "acceptable": outs})
			return
		}
		if outs[0].Err || outs[0].ErrMarker != "" {
			rec.Bucket("failures_surfaced_step")
		}
	} else {
		wc := &c05.WalkCase{Spec: a, Native: native, NativeMode: mode, State: hs.St, Messages: msgs, Limit: ck.Limit, NilControl: ck.Nil}
		if ck.BP {
			wc.Breakpoint = "has:never-bound"
		}
		if weak {
			var w *core.Walked
			var bs match.Bindings
			if hs.St.Bs != nil {
				bs = match.Bindings(fw.Deep(hs.St.Bs).(map[string]interface{}))
			}
			var ctl *core.Control
			if !ck.Nil {
				ctl = &core.Control{Limit: ck.Limit}
			}
			if !guarded(rec, "C07:walk", cc, 30*time.Second, func() {
				w, err = spec.Walk(ctx, &core.State{NodeName: hs.St.Node, Bs: bs}, fw.Deep(msgs).([]interface{}), ctl, nil)
			}) {
				return
			}
			rec.Eval(1)
			if w == nil || err != nil {
				rec.Violation("C07:walk-error", fmt.Sprintf("Walk returned walked=%v err=%v", w != nil, err), cc)
				return
			}
			rec.Bucket("weak_totality_only")
			rec.Bucket("state_" + cc.State)
			if nilBs && !b.Weak && cc.Position == "action" && hs.St.Node == "start" && (ck.Nil || ck.Limit > 0) {
				if o := b.Prog.Eval(nil); o.Failed {
					marker := o.Marker
					if !native {
						marker = ""
					}
					surfaced := false
					if to := w.To(); to != nil {
						for _, k := range []string{"actionError", "error"} {
							if s, ok := to.Bs[k].(string); ok && s != "" && strings.Contains(s, marker) {
								surfaced = true
							}
						}
					}
					if !surfaced {
						rec.Violation("C07:surfacing:nil-bindings", "after a walk from a state without bindings the failing action's error text is in no binding of the final state", cc)
						return
					}
					rec.Bucket("failures_surfaced_nil_bindings")
				}
			}
			return
		}
		okc := false
		if !guarded(rec, "C07:walk", cc, 60*time.Second, func() {
			okc, _ = c05.CheckWalk(ctx, rec, "C07:walk", wc, spec, markers)
		}) {
			return
		}
		if !okc {
			return
		}
		rec.Bucket("walks_checked")
	}
	rec.Bucket("state_" + cc.State)
	rec.Bucket("control_" + cc.Control)
	rec.Bucket("behaviour_" + cc.Behaviour)
	rec.Bucket("position_" + cc.Position)
	if b.Ext {
		rec.Bucket("extended_interpreter_helper_misused")
	}
	rec.Nontrivial(fw.Canon(cc))
}

// ---- damaged documents -------------------------------------------------

var docDir string

type docCase struct {
	Doc    string `json:"doc"`
	Loader string `json:"loader"`
	Damage string `json:"damage"`
}

func targetedDamages() []func(doc map[string]interface{}) (string, bool) {
	node := func(doc map[string]interface{}) map[string]interface{} {
		ns, _ := doc["nodes"].(map[string]interface{})
		n, _ := ns["start"].(map[string]interface{})
		return n
	}
	branching := func(doc map[string]interface{}) map[string]interface{} {
		n := node(doc)
		if n == nil {
			return nil
		}
		b, _ := n["branching"].(map[string]interface{})
		return b
	}
	setNode := func(name string, f func(n map[string]interface{})) func(map[string]interface{}) (string, bool) {
		return func(doc map[string]interface{}) (string, bool) {
			n := node(doc)
			if n == nil {
				return name, false
			}
			f(n)
			return name, true
		}
	}
	setBr := func(name string, f func(b map[string]interface{})) func(map[string]interface{}) (string, bool) {
		return func(doc map[string]interface{}) (string, bool) {
			b := branching(doc)
			if b == nil {
				return name, false
			}
			f(b)
			return name, true
		}
	}
	top := func(name string, f func(d map[string]interface{})) func(map[string]interface{}) (string, bool) {
		return func(doc map[string]interface{}) (string, bool) { f(doc); return name, true }
	}
	return []func(map[string]interface{}) (string, bool){
		top("nodes-null", func(d map[string]interface{}) { d["nodes"] = nil }),
		top("nodes-list", func(d map[string]interface{}) { d["nodes"] = []interface{}{} }),
		top("nodes-absent", func(d map[string]interface{}) { delete(d, "nodes") }),
		top("node-null", func(d map[string]interface{}) { d["nodes"].(map[string]interface{})["start"] = nil }),
		top("all-nodes-null", func(d map[string]interface{}) {
			for k := range d["nodes"].(map[string]interface{}) {
				d["nodes"].(map[string]interface{})[k] = nil
			}
		}),
		top("pattern-syntax-unknown", func(d map[string]interface{}) { d["patternSyntax"] = "weird" }),
		top("pattern-syntax-json-bad-text", func(d map[string]interface{}) { d["patternSyntax"] = "json" }),
		top("error-node-number", func(d map[string]interface{}) { d["errorNode"] = 5.0 }),
		top("error-node-missing-noauto", func(d map[string]interface{}) { d["errorNode"] = "elsewhere"; d["noErrorNode"] = true }),
		top("action-error-node-missing", func(d map[string]interface{}) { d["actionErrorNode"] = "elsewhere" }),
		top("boot-unknown-interpreter", func(d map[string]interface{}) {
			d["boot"] = map[string]interface{}{"interpreter": "nope", "source": "return {};"}
		}),
		top("paramspecs-garbage", func(d map[string]interface{}) {
			d["paramSpecs"] = map[string]interface{}{"x": nil, "y": map[string]interface{}{"default": []interface{}{nil}}}
		}),
		setNode("branching-null", func(n map[string]interface{}) { n["branching"] = nil }),
		setNode("branching-list", func(n map[string]interface{}) { n["branching"] = []interface{}{} }),
		setNode("action-null", func(n map[string]interface{}) { n["action"] = nil }),
		setNode("action-string", func(n map[string]interface{}) { n["action"] = "return {};" }),
		setNode("action-empty-object", func(n map[string]interface{}) { n["action"] = map[string]interface{}{} }),
		setNode("action-no-source", func(n map[string]interface{}) { n["action"] = map[string]interface{}{"interpreter": "ecmascript"} }),
		setNode("action-source-number", func(n map[string]interface{}) {
			n["action"] = map[string]interface{}{"interpreter": "ecmascript", "source": 5.0}
		}),
		setNode("action-source-list", func(n map[string]interface{}) {
			n["action"] = map[string]interface{}{"interpreter": "ecmascript", "source": []interface{}{"return {};"}}
		}),
		setNode("action-source-syntax-error", func(n map[string]interface{}) {
			n["action"] = map[string]interface{}{"interpreter": "ecmascript", "source": "return {{{;"}
		}),
		setNode("action-unknown-interpreter", func(n map[string]interface{}) {
			n["action"] = map[string]interface{}{"interpreter": "nope", "source": "return {};"}
		}),
		setNode("action-no-interpreter", func(n map[string]interface{}) { n["action"] = map[string]interface{}{"source": "return _.bindings;"} }),
		setNode("action-with-message-branching", func(n map[string]interface{}) {
			n["action"] = map[string]interface{}{"interpreter": "ecmascript", "source": "return _.bindings;"}
			n["branching"] = map[string]interface{}{"type": "message", "branches": []interface{}{map[string]interface{}{"target": "n2"}}}
		}),
		setBr("branches-null", func(b map[string]interface{}) { b["branches"] = nil }),
		setBr("branches-object", func(b map[string]interface{}) { b["branches"] = map[string]interface{}{} }),
		setBr("branches-string", func(b map[string]interface{}) { b["branches"] = "x" }),
		setBr("branches-null-entry", func(b map[string]interface{}) { b["branches"] = []interface{}{nil} }),
		setBr("branches-null-entry-among-others", func(b map[string]interface{}) {
			b["branches"] = []interface{}{map[string]interface{}{"target": "n2", "pattern": map[string]interface{}{"zz": 1.0}}, nil, map[string]interface{}{"target": "n2"}}
		}),
		setBr("branch-empty-object", func(b map[string]interface{}) { b["branches"] = []interface{}{map[string]interface{}{}} }),
		setBr("branching-type-unknown", func(b map[string]interface{}) { b["type"] = "weird" }),
		setBr("branching-type-number", func(b map[string]interface{}) { b["type"] = 5.0 }),
		setBr("target-number", func(b map[string]interface{}) { b["branches"] = []interface{}{map[string]interface{}{"target": 5.0}} }),
		setBr("target-unknown", func(b map[string]interface{}) {
			b["branches"] = []interface{}{map[string]interface{}{"target": "nowhere"}}
		}),
		setBr("target-var-unbound", func(b map[string]interface{}) {
			b["branches"] = []interface{}{map[string]interface{}{"target": "@nope"}}
		}),
		setBr("guard-null", func(b map[string]interface{}) {
			b["branches"] = []interface{}{map[string]interface{}{"target": "n2", "guard": nil}}
		}),
		setBr("guard-string", func(b map[string]interface{}) {
			b["branches"] = []interface{}{map[string]interface{}{"target": "n2", "guard": "x"}}
		}),
		setBr("guard-unknown-interpreter", func(b map[string]interface{}) {
			b["branches"] = []interface{}{map[string]interface{}{"target": "n2", "guard": map[string]interface{}{"interpreter": "nope", "source": "return _.bindings;"}}}
		}),
		setBr("pattern-invalid-two-array-vars", func(b map[string]interface{}) {
			b["branches"] = []interface{}{map[string]interface{}{"target": "n2", "pattern": map[string]interface{}{"a": []interface{}{"?x", "?y"}}}}
		}),
		setBr("pattern-variable-key-with-others", func(b map[string]interface{}) {
			b["branches"] = []interface{}{map[string]interface{}{"target": "n2", "pattern": map[string]interface{}{"?k": 1.0, "b": 2.0}}}
		}),
		setBr("pattern-deep", func(b map[string]interface{}) {
			var p interface{} = "?x"
			for i := 0; i < 200; i++ {
				p = map[string]interface{}{"d": []interface{}{p}}
			}
			b["branches"] = []interface{}{map[string]interface{}{"target": "n2", "pattern": p}}
		}),
	}
}

func randomDamage(r *rand.Rand, x interface{}, depth int) interface{} {
	garbage := func() interface{} {
		switch r.Intn(8) {
		case 0:
			return nil
		case 1:
			return 5.0
		case 2:
			return "x"
		case 3:
			return []interface{}{}
		case 4:
			return []interface{}{nil}
		case 5:
			return map[string]interface{}{}
		case 6:
			return true
		default:
			return map[string]interface{}{"?": []interface{}{"?a", "?b", map[string]interface{}{"?k": nil}}}
		}
	}
	switch t := x.(type) {
	case map[string]interface{}:
		ks := gen.SortedKeys(t)
		if len(ks) == 0 || r.Intn(6) == 0 {
			return garbage()
		}
		k := ks[r.Intn(len(ks))]
		switch r.Intn(4) {
		case 0:
			delete(t, k)
		default:
			t[k] = randomDamage(r, t[k], depth+1)
		}
		return t
	case []interface{}:
		if len(t) == 0 || r.Intn(4) == 0 {
			return garbage()
		}
		i := r.Intn(len(t))
		t[i] = randomDamage(r, t[i], depth+1)
		return t
	default:
		return garbage()
	}
}

func loadDoc(loader, doc string) (*core.Spec, error) {
	var s core.Spec
	switch loader {
	case "sio-url":
		// the host path for a spec given by URL: written to a file, loaded (and compiled) by sio
		f, err := os.CreateTemp(docDir, "doc-*.spec")
		if err != nil {
			return nil, err
		}
		f.WriteString(doc)
		f.Close()
		defer os.Remove(f.Name())
		_, spec, err := sio.ResolveSpecSource(context.Background(), &crew.SpecSource{URL: "file://" + f.Name()})
		if err == nil && spec == nil {
			return nil, fmt.Errorf("no spec and no error")
		}
		return spec, err
	case "json":
		if err := json.Unmarshal([]byte(doc), &s); err != nil {
			return nil, err
		}
	case "jsccast-yaml":
		if err := jyaml.Unmarshal([]byte(doc), &s); err != nil {
			return nil, err
		}
	case "yaml.v2":
		if err := yaml2.Unmarshal([]byte(doc), &s); err != nil {
			return nil, err
		}
	}
	return &s, nil
}

func runDoc(rec *fw.Rec, worker int, dc docCase) {
	rec.LogCase(worker, dc)
	var spec *core.Spec
	var err error
	if !guarded(rec, "C07:load:"+dc.Loader, dc, 30*time.Second, func() { spec, err = loadDoc(dc.Loader, dc.Doc) }) {
		return
	}
	rec.Eval(1)
	if err != nil {
		rec.Bucket("doc_load_error")
		return
	}
	ctx, cancel := context.WithTimeout(context.Background(), 2*time.Second)
	defer cancel()
	if !guarded(rec, "C07:compile-doc", dc, 30*time.Second, func() { err = spec.Compile(ctx, nil, true) }) {
		return
	}
	if err != nil {
		rec.Bucket("doc_compile_error")
		rec.Nontrivial("doc:" + dc.Loader + dc.Doc)
		return
	}
	rec.Bucket("doc_compiled")
	// A compiled spec must be usable: step and walk from every node, no control.
	names := []string{"start", "error", "nowhere"}
	for n := range spec.Nodes {
		names = append(names, n)
	}
	for _, n := range names {
		for _, msgs := range [][]interface{}{nil, {map[string]interface{}{"k": 1.0, "a": 1.0, "t": "n2"}}} {
			var w *core.Walked
			if !guarded(rec, "C07:walk-doc", dc, 30*time.Second, func() {
				w, err = spec.Walk(ctx, &core.State{NodeName: n, Bs: match.Bindings{"a": 1.0, "cfg!": true}}, msgs, nil, nil)
			}) {
				return
			}
			rec.Eval(1)
			if w == nil || err != nil {
				rec.Violation("C07:walk-error", fmt.Sprintf("Walk on a compiled document returned walked=%v err=%v", w != nil, err), dc)
				return
			}
			if !guarded(rec, "C07:walk-doc-nilbs", dc, 30*time.Second, func() {
				w, err = spec.Walk(ctx, &core.State{NodeName: n}, msgs, &core.Control{Limit: 3}, nil)
			}) {
				return
			}
			rec.Eval(1)
		}
	}
	rec.Nontrivial("doc:" + dc.Loader + dc.Doc)
}

// ---- odd native results --------------------------------------------------

// rawAction is an Action of the host's own making (the interface is all the engine may
// rely on; FuncAction tidies up what its function returns, this does not).
type rawAction struct {
	f func(context.Context, match.Bindings, core.StepProps) (*core.Execution, error)
}

func (a *rawAction) Exec(ctx context.Context, bs match.Bindings, props core.StepProps) (*core.Execution, error) {
	return a.f(ctx, bs, props)
}

func (a *rawAction) Binds() []match.Bindings { return nil }
func (a *rawAction) Emits() []interface{}    { return nil }

// goTypedStates: bindings as Go code hands them over - permanent and ordinary values that
// are Go containers other than the two JSON ones (none of them comparable with ==), a
// snapshot of bindings kept under a permanent name the way core keeps lastBindings
var goTypedStates = []hostileState{
	{"permanent-go-typed", ref.AState{Node: "start", Bs: map[string]interface{}{
		"allowed!": []string{"a", "b"}, "snapshot!": match.Bindings{"a": 1.0}, "labels!": map[string]string{"k": "v"},
		"rows!": []map[string]interface{}{{"n": 1.0}}, "pair!": [2]interface{}{"a", []interface{}{1.0}}, "when!": struct{ Tags []string }{[]string{"t"}},
		"a": 1.0, "plain": []string{"x"}}}},
	{"permanent-go-typed-numbers", ref.AState{Node: "start", Bs: map[string]interface{}{"n!": 3, "f!": float32(1.5), "u!": uint8(7), "b!": []byte("raw"), "a": int64(1)}}},
}

func oddNative(rec *fw.Rec, worker int) {
	type odd struct {
		Name string
		F    func(context.Context, match.Bindings, core.StepProps) (*core.Execution, error)
	}
	odds := []odd{
		{"nil-nil", func(context.Context, match.Bindings, core.StepProps) (*core.Execution, error) { return nil, nil }},
		{"exe-nil-bs", func(context.Context, match.Bindings, core.StepProps) (*core.Execution, error) {
			return core.NewExecution(nil), nil
		}},
		{"nil-err", func(context.Context, match.Bindings, core.StepProps) (*core.Execution, error) {
			return nil, fmt.Errorf("MARK-NATIVE")
		}},
		{"exe-err", func(context.Context, match.Bindings, core.StepProps) (*core.Execution, error) {
			e := core.NewExecution(match.Bindings{"partial": 1})
			e.AddEmitted("partial")
			return e, fmt.Errorf("MARK-NATIVE")
		}},
		{"exe-nil-bs-err", func(context.Context, match.Bindings, core.StepProps) (*core.Execution, error) {
			return core.NewExecution(nil), fmt.Errorf("MARK-NATIVE")
		}},
		{"exe-literal-without-events", func(_ context.Context, bs match.Bindings, _ core.StepProps) (*core.Execution, error) {
			return &core.Execution{Bs: match.Bindings{"made": "by hand"}}, nil
		}},
		{"exe-literal-without-events-err", func(_ context.Context, bs match.Bindings, _ core.StepProps) (*core.Execution, error) {
			return &core.Execution{}, fmt.Errorf("MARK-NATIVE")
		}},
		{"exe-with-events-without-traces", func(_ context.Context, bs match.Bindings, _ core.StepProps) (*core.Execution, error) {
			return &core.Execution{Bs: match.Bindings{}, Events: &core.Events{Emitted: []interface{}{"x"}}}, nil
		}},
		{"same-map", func(_ context.Context, bs match.Bindings, _ core.StepProps) (*core.Execution, error) {
			return core.NewExecution(bs), nil
		}},
	}
	for _, o := range odds {
		for _, pos := range []string{"action", "guard", "guard-after-action"} {
			for settings := 0; settings < 5; settings++ {
				for _, hs := range append(append([]hostileState{}, hostileStates...), goTypedStates...) {
					for _, api := range []string{"step", "walk-nil-control", "walk", "raw:step", "raw:walk-nil-control", "raw:walk"} {
						desc := map[string]interface{}{"native": o.Name, "position": pos, "settings": settings, "state": hs.Name, "api": api}
						isRaw := strings.HasPrefix(api, "raw:")
						api = strings.TrimPrefix(api, "raw:")
						rec.LogCase(worker, desc)
						a := crossSpec(behaviour{Prog: &ref.Prog{Ret: "same"}}, pos, settings)
						spec, err := a.Compiled(true, ref.NativeNilErr)
						if err != nil {
							continue
						}
						var act core.Action = &core.FuncAction{F: o.F}
						if isRaw {
							act = &rawAction{f: o.F}
						}
						if pos == "action" {
							spec.Nodes["start"].Action = act
						} else {
							spec.Nodes["start"].Branches.Branches[0].Guard = act
						}
						var bs match.Bindings
						if hs.St.Bs != nil {
							bs = match.Bindings(fw.Deep(hs.St.Bs).(map[string]interface{}))
						}
						st := &core.State{NodeName: hs.St.Node, Bs: bs}
						ctx, cancel := context.WithTimeout(context.Background(), 2*time.Second)
						var stride *core.Stride
						var w *core.Walked
						ok := guarded(rec, "C07:native-odd", desc, 30*time.Second, func() {
							switch api {
							case "step":
								stride, err = spec.Step(ctx, st, nil, nil, nil)
							case "walk-nil-control":
								w, err = spec.Walk(ctx, st, nil, nil, nil)
							default:
								w, err = spec.Walk(ctx, st, []interface{}{map[string]interface{}{"k": 1.0}}, &core.Control{Limit: 5}, core.StepProps{})
							}
						})
						cancel()
						if !ok {
							continue
						}
						rec.Eval(1)
						failing := strings.Contains(o.Name, "err")
						reached := hs.St.Node == "start"
						if api == "step" {
							if stride == nil && err == nil {
								rec.Violation("C07:step-nothing", "Step returned neither a stride nor an error", desc)
								continue
							}
							if failing && reached {
								surfaced := err != nil && strings.Contains(err.Error(), "MARK-NATIVE")
								if stride != nil && stride.To != nil {
									if s, _ := stride.To.Bs["actionError"].(string); strings.Contains(s, "MARK-NATIVE") {
										surfaced = true
									}
								}
								if !surfaced {
									rec.Violation("C07:surfacing:native", "a native failure was neither returned nor bound as actionError", desc)
									continue
								}
								rec.Bucket("failures_surfaced_native")
							}
						} else {
							if w == nil || err != nil {
								rec.Violation("C07:walk-error", fmt.Sprintf("Walk returned walked=%v err=%v", w != nil, err), desc)
								continue
							}
							if failing && reached {
								to := w.To()
								surfaced := false
								if to != nil {
									for _, k := range []string{"error", "actionError"} {
										if s, _ := to.Bs[k].(string); strings.Contains(s, "MARK-NATIVE") {
											surfaced = true
										}
									}
								}
								if !surfaced {
									rec.Violation("C07:surfacing:native", "after a walk the native failure text is in no error binding of the final state", map[string]interface{}{"case": desc, "final": fmt.Sprint(to)})
									continue
								}
								rec.Bucket("failures_surfaced_native")
							}
						}
						rec.Bucket("native_odd_checked")
						if strings.HasPrefix(hs.Name, "permanent-go-typed") {
							rec.Bucket("native_odd_checked_from_go_typed_permanent_bindings")
						}
						if isRaw {
							rec.Bucket("native_odd_checked_with_an_action_type_of_the_hosts")
						}
						rec.Nontrivial(fw.Canon(desc))
					}
				}
			}
		}
	}
}

func Run(cfg fw.Config, rec *fw.Rec) {
	rec.Rule = "cross product {behaviour (60: throw Error/string/object, infinite loop, recursion, loop inside try, return null/undefined/number/string/array/function/NaN/bool/Date/cyclic/function-member, _.out of unserialisable/NaN/cyclic, bindings replaced, deleting permanents, 21 wrong uses of the extended interpreter's _.match / _.cronNext / _.randstr under the standard interpreter map ...)} x {action, guard, guard at a node whose action succeeded} x {5 error settings} x {6 states: empty, nil bindings, permanent, unknown node, unknown node + nil bindings, at error node} x {6 controls: nil, limit -1/0/1/100, breakpoint} x {4 pendings incl. a nil element} x {Step, Walk} x renderings; damaged JSON/YAML documents (45 targeted + random) loaded by encoding/json, jsccast/yaml, yaml.v2 and sio's file-URL loader, compiled, then walked; variable branch targets bound to a number / boolean / null / object / array / empty string / unknown name through a message, the bindings, an action or a guard; messages and bindings full of strings that look like pattern variables (\"?y\" matched by a pattern that uses ?y twice, mutually referring bindings); odd native results ((nil,nil), nil bindings, (nil,err), (exe,err), same map, Execution literals without Events; each through a FuncAction and through an Action type of the host's own, also from states whose permanent bindings are Go containers that == cannot compare: []string, match.Bindings, map[string]string, []map[string]interface{}, arrays, structs with slices); 53 hostile requests to a sio crew (duplicate / malformed timer requests, malformed crew operations, deleting the service machines, odd routing targets, machines without spec or state), alone and in sequence, each followed by a probe that the crew still delivers; 6 scripts that build a value with shared substructure (64 levels, 2^64 values when written out) and 10 scripts that build a value nested 1,000,000 levels deep and emit it, return it (action and guard), hand it to _.match (extended interpreter), or do so inside a sio crew machine, each in a process of its own: the process must survive, the action must fail and the failure be surfaced, the crew must still answer; one child process per batch, every case logged before it runs; oracle: no panic / fatal / hang, and every failure surfaced as the reference step says; non-trivial = case run to a verdict; distinct by case description"
	rec.Required = []string{"failures_surfaced_step", "walks_checked", "state_nil-bindings", "state_unknown-node-nil-bindings", "state_permanent", "failures_surfaced_nil_bindings", "control_nil", "control_limit-1", "doc_compiled", "doc_compile_error", "doc_load_error", "native_odd_checked", "native_odd_checked_with_an_action_type_of_the_hosts", "native_odd_checked_from_go_typed_permanent_bindings", "failures_surfaced_native", "host_requests_survived", "behaviour_loop", "behaviour_recursion", "behaviour_out-cyclic", "position_guard-after-action", "extended_interpreter_helper_misused", "odd_branch_target_values_survived", "messages_with_variable_lookalikes_survived", "concurrent_props_writers_survived", "deep_value_cases_survived", "deep_value_failures_surfaced", "deep_value_crew_still_alive", "deep_value_boundary_accepted_and_storable", "deep_value_boundary_refused", "stdio_crew_survives_a_state_that_cannot_be_written"}
	rec.Assume = []string{"native actions do not panic themselves (a Go panic in host code is the host's)", "with absent bindings an ECMAScript program's behaviour is its own; only totality is judged there", "hard watchdog 30-60 s per call; contexts carry deadlines of 40 ms (non-terminating scripts) or 2 s"}
	bs := behaviours()
	var cases []crossCase
	for _, b := range bs {
		renders := []string{"ecma"}
		if !b.ECMA {
			renders = append(renders, "native-nilerr", "native-partial")
		}
		for _, pos := range []string{"action", "guard", "guard-after-action"} {
			for settings := 0; settings < 5; settings++ {
				for _, hs := range hostileStates {
					for _, ck := range ctlKinds {
						for _, pk := range pendingKinds {
							for _, api := range []string{"step", "walk"} {
								for _, render := range renders {
									if b.Loop && settings == 1 && pos == "action" {
										continue
									}
									cases = append(cases, crossCase{b.Name, pos, settings, hs.Name, ck.Name, pk.Name, api, render})
								}
							}
						}
					}
				}
			}
		}
	}
	byName := map[string]behaviour{}
	for _, b := range bs {
		byName[b.Name] = b
	}
	rec.SetExtra("cross_product_cases_total", len(cases))
	// this batch's share; the quick tier runs a third of the cross product per seed
	var mine []crossCase
	stride := cfg.Pick(3, 1)
	for i, c := range cases {
		if i%cfg.Batches != cfg.Batch {
			continue
		}
		if stride > 1 && (int(cfg.Seed)+i/cfg.Batches)%stride != 0 {
			continue
		}
		mine = append(mine, c)
	}
	fw.Parallel(cfg.Workers, len(mine), func(w, i int) {
		runCross(cfg, rec, w, mine[i], byName[mine[i].Behaviour])
	})
	if !cfg.Thorough() {
		rec.SetExtra("cross_product_sampled", "1/3 of the cross product per seed in the quick tier; complete in the thorough tier")
	}

	// documents
	var docs []docCase
	base := func(i int) (*ref.ASpec, map[string]interface{}) {
		r := cfg.Rng("c07-doc", i)
		u := &gen.Uid{Prefix: fmt.Sprintf("d%d_", i)}
		a := gen.GenSpec(r, gen.SpecOpts{MaxNodes: 3, Prog: gen.ProgOpts{Fail: true, BadRet: true, Emit: true}}, u)
		if a.Nodes["start"].Branching == nil {
			a.Nodes["start"].Branching = &ref.ABranching{Type: "bindings", Branches: []*ref.ABranch{{Target: "n1"}}}
		}
		var doc map[string]interface{}
		json.Unmarshal([]byte(a.JSON(false)), &doc)
		return a, doc
	}
	docDir = cfg.WorkDir
	loaders := []string{"json", "jsccast-yaml", "yaml.v2", "sio-url"}
	if cfg.Batch == 0 {
		for _, l := range loaders {
			for _, d := range []string{"", " ", "\n", "null", "[]", "{}", "5", "\"str\"", "{", "nodes:\n  start:\n    branching:\n      branches:\n      - \n", "---\n...\n", "\t", "a: &x [*x]"} {
				docs = append(docs, docCase{Doc: d, Loader: l, Damage: "degenerate"})
			}
		}
		for di, dmg := range targetedDamages() {
			for variant := 0; variant < 3; variant++ {
				_, doc := base(di*3 + variant)
				name, ok := dmg(doc)
				if !ok {
					continue
				}
				js, _ := json.Marshal(doc)
				for _, l := range loaders {
					docs = append(docs, docCase{Doc: string(js), Loader: l, Damage: name})
				}
			}
		}
		// undamaged documents in block-style YAML and JSON
		for i := 0; i < 30; i++ {
			a, _ := base(1000 + i)
			docs = append(docs, docCase{Doc: a.JSON(false), Loader: "json", Damage: "none"})
			docs = append(docs, docCase{Doc: a.YAML(false), Loader: "jsccast-yaml", Damage: "none-yaml"})
			docs = append(docs, docCase{Doc: a.YAML(false), Loader: "yaml.v2", Damage: "none-yaml"})
			docs = append(docs, docCase{Doc: a.YAML(true), Loader: "jsccast-yaml", Damage: "none-yaml-jsonpatterns"})
		}
	}
	nRandom := cfg.Pick(1500, 100000) / cfg.Batches
	for i := 0; i < nRandom; i++ {
		idx := cfg.Batch*1000000 + i
		r := cfg.Rng("c07-dmg", idx)
		_, doc := base(5000 + idx)
		var x interface{} = doc
		for k := 1 + r.Intn(3); k > 0; k-- {
			x = randomDamage(r, x, 0)
		}
		js, _ := json.Marshal(x)
		docs = append(docs, docCase{Doc: string(js), Loader: loaders[r.Intn(len(loaders))], Damage: "random"})
	}
	fw.Parallel(cfg.Workers, len(docs), func(w, i int) { runDoc(rec, w, docs[i]) })
	if cfg.Batch == 0 {
		rec.Sample(map[string]interface{}{"damaged_document": docs[7]})
		rec.Sample(map[string]interface{}{"cross_case": mine[len(mine)/2]})
	}
	if cfg.Batch == 1%cfg.Batches {
		oddNative(rec, 0)
		oddTargets(rec)
		hostileMessages(rec)
		concurrentPropsWriters(rec)
	}
	if cfg.Batch == 2%cfg.Batches {
		hostParts(cfg, rec)
	}
	if cfg.Batch == 3%cfg.Batches {
		deepPart(cfg, rec)
	}
}
