// Package c01: Match soundness.  A witness checker runs on every binding set
// returned by match.Match for generated (pattern, message, bindings) triples.
package c01

import (
	"fmt"
	"strings"

	"github.com/Comcast/sheens/match"

	"verif/fw"
	"verif/gen"
	"verif/ref"
)

// CheckResult judges one returned binding set; it returns "" or the failure.
func CheckResult(mc *gen.MatchCase, vi *ref.VarInfo, res match.Bindings) (sigClass, why string) {
	sigma := map[string]interface{}(res)
	// (a) extends the given bindings, unchanged
	for k, v := range mc.In {
		got, have := sigma[k]
		if !have {
			return "drops-given-binding", fmt.Sprintf("given binding %q missing from result", k)
		}
		if d := fw.Diff(v, got); d != "" {
			return "changes-given-binding", fmt.Sprintf("given binding %q changed: %s", k, d)
		}
	}
	// (b) binds only pattern variables (plus inequality counterparts); never the anonymous variable
	for k := range sigma {
		if _, given := mc.In[k]; given {
			continue
		}
		if ref.IsAnon(k) {
			return "binds-anonymous", "the anonymous variable was bound"
		}
		if vi.Count[k] > 0 {
			continue
		}
		ok := false
		for v := range vi.Count {
			if _, cp, is := ref.Inequality(v); is && cp == k {
				ok = true
			}
		}
		if !ok {
			return "binds-foreign-variable", fmt.Sprintf("result binds %q which does not occur in the pattern", k)
		}
	}
	// (c) the substituted pattern is contained in the message
	ok, w, unsupported := ref.Fits(mc.Pattern, sigma, mc.Message, ref.FitOpts{In: mc.In})
	if unsupported {
		return "", ""
	}
	if !ok {
		cls := w
		if i := strings.Index(cls, ": "); i >= 0 {
			cls = cls[i+2:]
		}
		for _, v := range []string{"?x", "?y", "?z", "?w", "?k", "?l", "??o", "??p", "?<n", "?<=m", "?>g", "?>=j", "?!=i", "?n", "?m", "?g", "?j", "?i"} {
			cls = strings.ReplaceAll(cls, v, "V")
		}
		return "not-contained:" + strings.ReplaceAll(cls, " ", "_"), "substituted pattern is not contained in the message: " + w
	}
	// (d) every binding the match added has a witness in the message: some embedding under
	// sigma must match each added optional variable against an actual part of the message
	// (a plain variable always is).  A binding without any witness came from nowhere - say
	// from a candidate that was rejected.
	var tracked []string
	for k := range sigma {
		if _, given := mc.In[k]; !given && ref.IsOptional(k) && vi.Count[k] > 0 {
			tracked = append(tracked, k)
		}
	}
	if len(tracked) > 0 && len(tracked) <= 6 {
		if !ref.FitsWitnessed(mc.Pattern, sigma, mc.Message, ref.FitOpts{In: mc.In}, tracked) {
			return "binding-without-witness", fmt.Sprintf("no embedding under the returned bindings matches the optional variable(s) %v against an actual part of the message", tracked)
		}
	}
	return "", ""
}

func Run(cfg fw.Config, rec *fw.Rec) {
	hostMatcher(cfg, rec)
	n := cfg.Pick(400000, 12000000)
	rec.Rule = "cases drawn by a seeded generator: pattern of the supported fragment + planted assignment -> message (exact / inflated with distractors / near-miss / independent random) + initial bindings (pre-bound to planted value, to a sub-structure, unrelated, inequality bounds); every returned binding set is checked by an independent containment checker; non-trivial = Match returned >=1 set and the pattern has >=1 variable; distinct by canonical JSON of (pattern,message,bindings)"
	rec.Required = []string{"host_matcher_without_inequalities_agrees_with_renaming", "host_matcher_without_inequalities_matched", "results_checked", "nested_array_with_prebound", "optional_and_property_variable", "inequality_twice", "anonymous_in_array", "depth_ge_4", "prebound_substructure", "repeated_variable", "inequality_violated_with_prebound_counterpart"}
	rec.Assume = []string{"patterns stay inside the supported fragment; no string in messages or bound values starts with '?'", "bounded size: depth <= 5, width <= 4 (+ inflation)"}
	opts := gen.Full
	opts.SubPrebound = true
	fw.Parallel(cfg.Workers, n, func(w, idx int) {
		r := cfg.Rng("c01", idx)
		mode := []int{0, 1, 1, 1, 1, 1, 2, 2, 3, 1}[idx%10]
		mc := gen.GenMatchCase(r, opts, mode)
		vi := ref.Vars(mc.Pattern)
		if !vi.Supported {
			rec.Bucket("generator_outside_fragment")
			return
		}
		in := match.Bindings(fw.Deep(mc.In).(map[string]interface{}))
		var bss []match.Bindings
		var err error
		if rec.Guard("C01", mc, func() { bss, err = match.Match(mc.Pattern, mc.Message, in) }) {
			return
		}
		rec.Eval(1)
		if err != nil {
			rec.Bucket("match_error")
			return
		}
		rec.Bucket("kind_" + mc.Kind)
		if len(bss) == 0 {
			rec.Bucket("no_result")
			for _, f := range mc.Features {
				if f == "inequality_violated_with_prebound_counterpart" {
					rec.Bucket(f)
				}
			}
			return
		}
		for _, bs := range bss {
			rec.Bucket("results_checked")
			if cls, why := CheckResult(mc, vi, bs); cls != "" {
				rec.Violation("C01:"+cls, why, map[string]interface{}{"case": mc, "result": bs})
			}
		}
		if len(vi.Count) > 0 {
			rec.Nontrivial(fw.Canon([]interface{}{mc.Pattern, mc.Message, mc.In}))
			for _, f := range mc.Features {
				rec.Bucket(f)
			}
			if len(bss) > 1 {
				rec.Bucket("multiple_results")
			}
			if idx%50000 == 7 || (len(bss) > 1 && rec.WantSample() && idx%1000 == 3) {
				rec.Sample(map[string]interface{}{"case": mc, "results": bss})
			}
		}
	})
}
