#!/bin/bash
# Applies a seeded change to /repo, runs the given checks (default: the property's own, quick), undoes it.
# usage: seedrun.sh <patch.diff> <ID> [more IDs...]      env TIER=quick|thorough SEED=n
P=$1; shift
cd /repo || exit 2
if [ -n "$(git status --porcelain)" ]; then echo "/repo not clean"; exit 2; fi
git apply $P || exit 2
for id in "$@"; do
  out=$(cd /verif && ./check $id --tier ${TIER:-quick} --seed ${SEED:-1} 2>&1); rc=$?
  echo "== $id rc=$rc: $(echo "$out" | grep -c '^VIOLATION') violation line(s)"
  echo "$out" | egrep '^--- ' | sort | uniq -c | head -8
done
git -C /repo checkout -- . ; git -C /repo status --porcelain | head -3
