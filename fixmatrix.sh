#!/bin/bash
# For every "fixed:" entry of known_findings.txt: reverse-apply the fix commit to /repo's working tree,
# run the property's check (quick), undo.  A fix whose reversal no longer applies (later commits touched
# the same lines) is reported as such.
cd /verif
#   FIXLIST=<file with one commit per line> restricts the run (used by pfixmatrix.sh)
grep '^fixed:' known_findings.txt | while read -r _ prop commit rest; do
  id=${prop#property=}
  if [ -n "$FIXLIST" ] && ! grep -qx "$commit" "$FIXLIST"; then continue; fi
  cd /repo
  if [ -n "$(git status --porcelain)" ]; then echo "/repo not clean"; exit 2; fi
  if ! git show $commit | git apply -R --check 2>/dev/null; then echo "$id $commit: reversal does not apply cleanly (later commits touch the same lines)"; continue; fi
  git show $commit | git apply -R
  if ! GOFLAGS=-mod=mod GOPROXY=off GOSUMDB=off GOTOOLCHAIN=local go build ./... 2>/dev/null; then echo "$id $commit: tree does not build with the fix reversed"; git checkout -- .; continue; fi
  out=$(cd /verif && ./check $id --tier quick 2>&1); rc=$?
  echo "$id $commit reversed: rc=$rc $(echo "$out" | grep -- '^--- ' | sed 's/.*sig=//' | sort -u | head -4 | tr '\n' ';')"
  git checkout -- .
done
