// Package c11: action timeouts are enforced.  Bounded-response monitor on
// non-terminating scripts under deadlines and asynchronous cancellation, the
// routing of the timeout through Walk, and a goroutine-profile leak monitor.
package c11

import (
	"bytes"
	"context"
	"fmt"
	"runtime/pprof"
	"sort"
	"strings"
	"sync"
	"time"

	"github.com/Comcast/sheens/core"
	"github.com/Comcast/sheens/interpreters/ecmascript"
	"github.com/Comcast/sheens/match"

	"verif/fw"
	"verif/ref"
)

var loops = []struct{ Name, Src string }{
	{"while-true", `while (true) { }`},
	{"for-property-ops", `var o = {n: 0}; for (;;) { o.n = o.n + 1; o["k" + (o.n % 7)] = o.n; }`},
	{"for-array-ops", `var a = []; for (;;) { a.push(1); if (a.length > 1000) { a = []; } }`},
	{"for-string-ops", `var s = ""; for (;;) { s = s + "x"; if (s.length > 100) { s = ""; } }`},
	{"recursion", `function f(n) { return f(n + 1) + 1; } return f(0);`},
	{"mutual-recursion", `function a(n) { return b(n + 1); } function b(n) { return a(n + 1) + 1; } return a(0);`},
	{"loop-in-try-catch", `while (true) { try { while (true) { } } catch (e) { } }`},
	{"try-finally-loop", `try { while (true) { } } finally { while (true) { } }`},
	{"nested-closures", `var mk = function(i) { return function() { return i + 1; }; }; var n = 0; while (true) { n = mk(n)(); }`},
	{"bindings-ops", `var b = _.bindings; b.n = 0; while (true) { b.n++; b["x"] = {n: b.n}; }`},
	{"emit-in-loop-bounded", `var i = 0; while (true) { i++; if (i % 100000 === 0 && i < 300000) { _.out({i: i}); } }`},
	{"returned-object-with-looping-getter", `return {get likes() { for (;;) { } }};`},
	{"returned-object-with-recursive-getter", `return {a: 1, get deep() { function f(n) { return f(n + 1) + 1; } return f(0); }};`},
	{"do-while-with-calls", `function g(x) { return x * 2; } var v = 1; do { v = g(v) % 1000003; } while (true);`},
}

var deadlinesMs = []int{-1, 0, 1, 5, 20, 100, 300} // -1: already expired

const hardSlack = 10 * time.Second

type combo struct {
	Script   string `json:"script"`
	Deadline int    `json:"deadline_ms"`
	Cancel   string `json:"cancel"` // deadline | async
	Conc     int    `json:"concurrency"`
	Via      string `json:"via"` // exec | walk
}

func ecmaGoroutines() (int, string) {
	var buf bytes.Buffer
	pprof.Lookup("goroutine").WriteTo(&buf, 2)
	n := 0
	var example string
	for _, g := range strings.Split(buf.String(), "\n\n") {
		if strings.Contains(g, "interpreters/ecmascript") || strings.Contains(g, "dop251/goja") {
			n++
			if example == "" {
				example = g
			}
		}
	}
	return n, example
}

func Run(cfg fw.Config, rec *fw.Rec) {
	rec.Rule = "14 non-terminating interpreted scripts (while/for with property, array and string operations, unbounded and mutual recursion, loops inside try/catch and try/finally, closures, binding mutation, emitting, looping getters of the returned object) x deadlines {already expired, 0, 1, 5, 20, 100, 300 ms} x {deadline, asynchronous cancel at a pseudo-random instant, cancel of a context that also has a far deadline, cancel of an ancestor context} x concurrency {1, 4, 16, 64} x {Interpreter.Exec, Spec.Walk with 3 error settings, and with a spec-supplied error node that runs the same script as its action or guard}; each call must return the timeout error no later than deadline + 10 s (hard bound; observed latencies reported), the walk must route it like any action error, and after each combination no goroutine with an interpreter frame may remain (polled up to 5 s); non-trivial = execution that was interrupted; distinct by (script, deadline, cancel mode, concurrency, via)"
	rec.Required = []string{"interrupted", "interrupted_async_cancel", "interrupted_by_cancel_before_a_far_deadline", "routed_as_action_error", "no_goroutine_left", "concurrency_64", "already_expired", "no_goroutine_left_after_terminating_script_under_live_context", "walk_returned_from_a_looping_error_node", "uncompiled_executions_with_different_deadlines"}
	rec.Assume = []string{"time is spent in interpreted code, not in one long built-in call", "hard bound deadline + 10 s; lateness below the bound is reported, not judged"}
	interp := ecmascript.NewInterpreter()
	var combos []combo
	for _, l := range loops {
		for _, d := range deadlinesMs {
			for _, c := range []string{"deadline", "async", "async-under-far-deadline", "parent-cancelled"} {
				for _, conc := range []int{1, 4, 16, 64} {
					for _, via := range []string{"exec", "walk"} {
						if c != "deadline" && d < 5 && !(c == "async-under-far-deadline" && d < 0) {
							continue
						}
						combos = append(combos, combo{l.Name, d, c, conc, via})
					}
				}
			}
		}
	}
	// quick: a seed-determined third of the combinations; thorough: all
	var mine []combo
	for i, c := range combos {
		if i%cfg.Batches != cfg.Batch {
			continue
		}
		if !cfg.Thorough() && (i/cfg.Batches+int(cfg.Seed))%3 != 0 {
			continue
		}
		mine = append(mine, c)
	}
	rec.SetExtra("combinations_total", len(combos))
	srcOf := map[string]string{}
	compiled := map[string]interface{}{}
	for _, l := range loops {
		srcOf[l.Name] = l.Src
		c, err := interp.Compile(context.Background(), l.Src)
		if err != nil {
			rec.Inconclusive("script does not compile: " + l.Name + ": " + err.Error())
			return
		}
		compiled[l.Name] = c
	}
	var latMu sync.Mutex
	var lateness []float64 // ms after the deadline
	for ci, c := range mine {
		rec.LogCase(0, c)
		base, _ := ecmaGoroutines()
		var wg sync.WaitGroup
		violated := false
		var vmu sync.Mutex
		for g := 0; g < c.Conc; g++ {
			wg.Add(1)
			go func(g int) {
				defer wg.Done()
				r := cfg.Rng("c11", ci*1000+g)
				var ctx context.Context
				var cancel context.CancelFunc
				d := time.Duration(c.Deadline) * time.Millisecond
				switch {
				case c.Cancel == "async-under-far-deadline" && c.Deadline < 0:
					// a context with a far deadline that is already cancelled
					ctx, cancel = context.WithTimeout(context.Background(), time.Hour)
					cancel()
					d = 0
				case c.Cancel == "async-under-far-deadline":
					// the context has a (far) deadline but ends by cancellation
					ctx, cancel = context.WithTimeout(context.Background(), time.Hour)
					at := time.Duration(r.Int63n(int64(d) + 1))
					d = at
					go func() { time.Sleep(at); cancel() }()
				case c.Cancel == "parent-cancelled":
					// an ancestor is cancelled (say at crew shutdown); the execution's own context has a far deadline
					parent, pcancel := context.WithCancel(context.Background())
					var ccancel context.CancelFunc
					ctx, ccancel = context.WithTimeout(parent, time.Hour)
					cancel = func() { pcancel(); ccancel() }
					at := time.Duration(r.Int63n(int64(d) + 1))
					d = at
					go func() { time.Sleep(at); pcancel() }()
				case c.Cancel == "async":
					ctx, cancel = context.WithCancel(context.Background())
					at := time.Duration(r.Int63n(int64(d) + 1))
					d = at
					go func() { time.Sleep(at); cancel() }()
				case c.Deadline < 0:
					ctx, cancel = context.WithCancel(context.Background())
					cancel()
					d = 0
				default:
					ctx, cancel = context.WithTimeout(context.Background(), d)
				}
				defer cancel()
				t0 := time.Now()
				done := make(chan struct{})
				var exe *core.Execution
				var err error
				var walked *core.Walked
				settings := g % 3
				ownErrorNode := settings == 0 && g%2 == 0 && c.Via == "walk"
				var a *ref.ASpec
				go func() {
					defer close(done)
					defer func() {
						if x := recover(); x != nil {
							err = fmt.Errorf("PANIC: %v", x)
						}
					}()
					if c.Via == "exec" {
						exe, err = interp.Exec(ctx, match.Bindings{"n": 1.0}, nil, srcOf[c.Script], compiled[c.Script])
						return
					}
					a = &ref.ASpec{Name: "c11", Nodes: map[string]*ref.ANode{
						"start": {Action: &ref.Prog{Ops: []ref.Op{{Op: "raw", V: srcOf[c.Script], K: "timeout", K2: "timeout"}}, Ret: "same"},
							Branching: &ref.ABranching{Type: "bindings", Branches: []*ref.ABranch{{Target: "n2"}}}},
						"n2": {}, "aerr": {},
					}}
					switch settings {
					case 1:
						a.ActionErrorBranches = true
					case 2:
						a.ActionErrorNode = "aerr"
					}
					if ownErrorNode {
						// the spec's own error node runs the same non-terminating script, as an
						// action or as a guard: the walk must not hang there either
						loop := &ref.Prog{Ops: []ref.Op{{Op: "raw", V: srcOf[c.Script], K: "timeout", K2: "timeout"}}, Ret: "same"}
						if g%4 == 0 {
							a.Nodes["error"] = &ref.ANode{Action: loop, Branching: &ref.ABranching{Type: "bindings", Branches: []*ref.ABranch{{Target: "n2"}}}}
						} else {
							a.Nodes["error"] = &ref.ANode{Branching: &ref.ABranching{Type: "bindings", Branches: []*ref.ABranch{{Guard: loop, Target: "n2"}, {Target: "n2"}}}}
						}
					}
					spec, cerr := a.Compiled(false, ref.NativeNilErr)
					if cerr != nil {
						err = cerr
						return
					}
					walked, err = spec.Walk(ctx, &core.State{NodeName: "start", Bs: match.Bindings{"n": 1.0}}, nil, &core.Control{Limit: 5}, nil)
				}()
				select {
				case <-done:
				case <-time.After(d + hardSlack):
					vmu.Lock()
					violated = true
					vmu.Unlock()
					rec.Violation("C11:not-stopped:"+c.Script, fmt.Sprintf("execution still running %v after its context ended", hardSlack), c)
					return
				}
				late := time.Since(t0) - d
				latMu.Lock()
				lateness = append(lateness, float64(late)/float64(time.Millisecond))
				latMu.Unlock()
				rec.Eval(1)
				if c.Via == "exec" {
					if err == nil {
						rec.Violation("C11:no-timeout-error:"+c.Script, fmt.Sprintf("a non-terminating script returned without error (bindings %s)", fw.Short(exe)), c)
						return
					}
					if err != ecmascript.Interrupted && !strings.Contains(err.Error(), "timeout") {
						rec.Violation("C11:wrong-error:"+c.Script, "interruption reported as a different error: "+err.Error(), c)
						return
					}
					if exe != nil {
						rec.Violation("C11:execution-returned-with-timeout", "an interrupted execution returned an Execution value", c)
						return
					}
				} else {
					if err != nil || walked == nil {
						rec.Violation("C11:walk-error", fmt.Sprintf("Walk returned err=%v", err), c)
						return
					}
					to := walked.To()
					if to == nil {
						rec.Violation("C11:timeout-not-routed", "after the timeout the walk reports no new state", c)
						return
					}
					var wantNode string
					switch settings {
					case 0:
						wantNode = "error"
					case 1:
						wantNode = "n2"
					default:
						wantNode = "aerr"
					}
					txt := ""
					for _, k := range []string{"actionError", "error"} {
						if s, ok := to.Bs[k].(string); ok && strings.Contains(s, "timeout") {
							txt = s
						}
					}
					if to.NodeName != wantNode || txt == "" {
						rec.Violation("C11:timeout-not-routed", fmt.Sprintf("timeout routed to %s with bindings %s; expected node %s carrying the timeout text", to.NodeName, fw.Short(to.Bs), wantNode), c)
						return
					}
					rec.Bucket("routed_as_action_error")
					if ownErrorNode {
						rec.Bucket("walk_returned_from_a_looping_error_node")
					}
				}
				rec.Bucket("interrupted")
				if c.Cancel == "async" {
					rec.Bucket("interrupted_async_cancel")
				}
				if c.Cancel == "async-under-far-deadline" || c.Cancel == "parent-cancelled" {
					rec.Bucket("interrupted_by_cancel_before_a_far_deadline")
				}
				if c.Deadline < 0 {
					rec.Bucket("already_expired")
				}
			}(g)
		}
		wg.Wait()
		if violated {
			// A stuck execution keeps spinning on a processor for good; more of them would
			// starve everything else in this process.  The violation is recorded: stop this batch.
			rec.Bucket("batch_stopped_after_an_execution_did_not_stop")
			break
		}
		rec.Bucket(fmt.Sprintf("concurrency_%d", c.Conc))
		// (d) leak monitor: poll until no interpreter goroutine beyond the baseline remains
		deadline := time.Now().Add(5 * time.Second)
		for {
			n, example := ecmaGoroutines()
			if n <= base {
				rec.Bucket("no_goroutine_left")
				break
			}
			if time.Now().After(deadline) {
				rec.Violation("C11:goroutine-leak", fmt.Sprintf("%d goroutine(s) with an interpreter frame outlive the call by 5 s:\n%s", n-base, fw.TrimStack(example)), c)
				break
			}
			time.Sleep(5 * time.Millisecond)
		}
		rec.Nontrivial(fw.Canon(c))
		if ci%40 == 3 {
			rec.Sample(c)
		}
	}
	// terminating scripts - every way an execution can end - under a context that stays live:
	// nothing started for the execution may outlive the call
	if cfg.Batch == 0 {
		ending := []struct{ Name, Src string }{
			{"returns-bindings", `return _.bindings;`},
			{"returns-nothing", `return;`},
			{"throws", `throw new Error("x");`},
			{"returns-number", `return 42;`},
			{"emits-unserialisable", `_.out({f: function(){}}); return {};`},
			{"returns-object-with-throwing-getter", `return {get likes() { throw "broken"; }};`},
			{"returns-object-with-working-getter", `return {get likes() { return "tacos"; }};`},
			{"returns-cyclic-object", `var o = {}; o.self = o; return o;`},
			{"syntax-error-at-run-time", `return eval("{{{");`},
			{"emits-then-returns-array", `_.out({a: 1}); return [1];`},
		}
		live, liveCancel := context.WithTimeout(context.Background(), time.Hour)
		for _, e := range ending {
			base, _ := ecmaGoroutines()
			for k := 0; k < 10; k++ {
				interp.Exec(live, match.Bindings{"n": 1.0}, nil, e.Src, nil)
				rec.Eval(1)
			}
			deadline := time.Now().Add(5 * time.Second)
			for {
				n, example := ecmaGoroutines()
				if n <= base {
					rec.Bucket("no_goroutine_left_after_terminating_script_under_live_context")
					break
				}
				if time.Now().After(deadline) {
					rec.Violation("C11:goroutine-leak:"+e.Name, fmt.Sprintf("%d goroutine(s) with an interpreter frame outlive executions of a script that %s, while the caller's context is still live:\n%s", n-base, e.Name, fw.TrimStack(example)), e.Name)
					break
				}
				time.Sleep(5 * time.Millisecond)
			}
			rec.Nontrivial("ending:" + e.Name)
		}
		liveCancel()
	}
	// executions that were not compiled beforehand (Exec compiles on the fly), overlapping on
	// one interpreter with very different deadlines: each is bound by its own context only
	if cfg.Batch == 0 {
		for k := 0; k < 6; k++ {
			holderCtx, holderCancel := context.WithTimeout(context.Background(), 30*time.Second)
			holderDone := make(chan struct{})
			started := make(chan struct{})
			go func() {
				defer close(holderDone)
				close(started)
				interp.Exec(holderCtx, match.Bindings{"n": 1.0}, nil, `var i = 0; while (true) { i++; }`, nil)
			}()
			<-started
			time.Sleep(20 * time.Millisecond)
			ctx, cancel := context.WithTimeout(context.Background(), 50*time.Millisecond)
			t0 := time.Now()
			done := make(chan error, 1)
			go func() {
				_, err := interp.Exec(ctx, match.Bindings{"n": 2.0}, nil, []string{`while (true) { }`, `return {ok: true};`}[k%2], nil)
				done <- err
			}()
			select {
			case <-done:
				rec.Eval(1)
				rec.Bucket("uncompiled_executions_with_different_deadlines")
			case <-time.After(5 * time.Second):
				rec.Violation("C11:not-stopped:uncompiled-next-to-a-long-execution", fmt.Sprintf("an execution with a 50 ms deadline, compiled on the fly while another execution (30 s deadline) runs on the same interpreter, has not returned after %v", time.Since(t0)), "uncompiled executions with different deadlines")
				k = 6
			}
			cancel()
			holderCancel()
			<-holderDone
		}
	}
	// terminating scripts under an already expired context: either outcome is acceptable
	for i := 0; i < 50; i++ {
		ctx, cancel := context.WithCancel(context.Background())
		cancel()
		exe, err := interp.Exec(ctx, match.Bindings{"n": 1.0}, nil, `return {ok: true};`, nil)
		rec.Eval(1)
		switch {
		case err == nil && exe != nil && fw.Canon(exe.Bs) == `{"ok":true}`:
			rec.Bucket("terminating_under_expired_ctx_result")
		case err != nil && strings.Contains(err.Error(), "timeout"):
			rec.Bucket("terminating_under_expired_ctx_timeout")
		default:
			rec.Violation("C11:expired-context-odd-result", fmt.Sprintf("terminating script under an expired context: exe=%v err=%v", exe, err), "terminating script, expired context")
		}
	}
	// recursion that passes through a built-in (Array.prototype.forEach calling back into the
	// script): interpreted recursion like any other, so it is within the property.  Last in
	// the last batch, because an execution that does not stop keeps a processor busy.
	if cfg.Batch == cfg.Batches-1 {
		ctx, cancel := context.WithTimeout(context.Background(), 500*time.Millisecond)
		done := make(chan error, 1)
		t0 := time.Now()
		go func() {
			_, err := interp.Exec(ctx, match.Bindings{"n": 1.0}, nil, `function g() { [1].forEach(g); } g(); return {};`, nil)
			done <- err
		}()
		select {
		case err := <-done:
			rec.Eval(1)
			if err == nil {
				rec.Violation("C11:no-timeout-error:recursion-through-a-builtin", "unbounded recursion through Array.prototype.forEach returned without error", "recursion through forEach, 500 ms deadline")
			} else {
				rec.Bucket("recursion_through_a_builtin_stopped")
				rec.SetExtra("recursion_through_a_builtin_returned_after_ms", time.Since(t0).Milliseconds())
			}
		case <-time.After(500*time.Millisecond + hardSlack):
			rec.Violation("C11:not-stopped:recursion-through-a-builtin", fmt.Sprintf("unbounded recursion through Array.prototype.forEach is still running %v after its 500 ms deadline", hardSlack), "recursion through forEach, 500 ms deadline")
		}
		cancel()
	}
	sort.Float64s(lateness)
	if len(lateness) > 0 {
		rec.SetExtra(fmt.Sprintf("lateness_ms_batch%d", cfg.Batch), map[string]float64{"p50": lateness[len(lateness)/2], "p99": lateness[len(lateness)*99/100], "max": lateness[len(lateness)-1]})
	}
}
